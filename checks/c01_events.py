"""C01 — Event dispatch is complete, priority-ordered and serial.

Random *handler programs* (handlers that post further events, add and remove handlers) are registered on the real
EventManager of a booted machine through the public API and triggered from every posting context (direct, delay
callback, call_soon, switch handler, timed switch handler, other handlers, completion callbacks).  Every handler /
callback is a recording closure that feeds vlib.busmodel.BusChecker ONLINE.
"""

PROPERTY = "C01"
LEVEL = "exploration"
LEVEL_TEXT = ("Exploration: thousands of generated handler programs (trees of posts, registrations and removals with "
              "tied priorities, conditions and overlapping kwargs) run on the real EventManager; an online reference "
              "bus validates every handler invocation and callback as an allowed next step. The space of programs is "
              "unbounded, so seeded sampling with small alphabets (to force ties and collisions) is the reachable level.")
LEVEL_NOTE = ("Trusts the reference bus (vlib/busmodel.py, ~300 lines, tested by mutants), MPF's TimeTravelLoop and "
              "Python eval for the generated conditions. Ties in priority may come in any order; handlers removed "
              "mid-dispatch may or may not be called; replace_handler, blocking facilities and _min_priority are not generated.")
TECHNIQUE = "runtime monitoring: recording handlers + online reference-model (trace specification) checker"
ENGINES = ["vlib", "busmodel"]
RULE = ("case = one generated handler program (functions with action lists, initial registrations, root posts grouped "
        "by posting context); distinct = multiset of (context, action kinds, depth, registrations per event) shape; "
        "non-trivial = at least 3 handler invocations checked, a nested post (depth>=1) dispatched and a completion "
        "callback observed")
ASSUMPTIONS = [
    "handlers with equal priority may be invoked in any order",
    "a handler removed while its event is being dispatched may or may not still be called (statement leaves it open)",
    "conditions are comparisons over posted/registered kwargs that are always present",
    "handler programs are budgeted (<= 120 program executions per case, depth <= 5) so every run terminates",
]
TIERS = {
    "quick": {"cases": 2400, "batch": 60, "case_timeout": 60},
    "thorough": {"cases": 120000, "batch": 600, "case_timeout": 120},
}
MIN_EVALS = {"quick": {"delivered_once": 20000, "priority_order": 15000, "kwargs_merge": 15000, "serial": 15000,
                       "dispatch_order": 5000, "callback_once": 2000, "condition": 15000}}
SHRINK_KEYS = ["roots", "regs"]

EVENTS = ["e0", "e1", "e2", "e3", "e4"]
PRIOS = [0, 1, 1, 2, 2, 5, 100]
CONDS = [None, None, None, "x==1", "x>0", "y<3", "x==1 and y==2", "not flag", "flag"]
CONTEXTS = ["direct", "direct", "delay", "soon", "switch", "timed", "callback_chain"]


def _kw(rng):
    kw = {}
    for k, vals in (("x", [0, 1, 2]), ("y", [0, 2, 3, 6]), ("flag", [True, False])):
        if rng.random() < 0.5:
            kw[k] = rng.choice(vals)
    if rng.random() < 0.3:
        kw["tag"] = rng.choice(["a", "b"])
    return kw


def _post_kw(rng):
    return {"x": rng.choice([0, 1, 2]), "y": rng.choice([0, 2, 3, 6]), "flag": rng.choice([True, False]),
            "tag": rng.choice(["p", "q"])}


def _gen_action(rng, nfn):
    k = rng.random()
    if k < 0.45:
        return ["post", rng.choice(["plain", "plain", "plain", "boolean", "relay"]), rng.choice(EVENTS), _post_kw(rng),
                rng.random() < 0.35]
    if k < 0.62:
        return ["add", rng.randrange(nfn), rng.choice(EVENTS), rng.choice(PRIOS), _kw(rng), rng.choice(CONDS),
                rng.random() < 0.15]
    if k < 0.80:
        return ["rm_key", rng.randrange(1000)]
    if k < 0.88:
        return ["rm_event", rng.choice(EVENTS), rng.randrange(nfn)]
    if k < 0.93:
        return ["rm_fn", rng.randrange(nfn)]
    if k < 0.97:
        # run a pending delay early from inside the handler: its callback posts synchronously (children of this event)
        return ["run_now_delay", [["plain", rng.choice(EVENTS), _post_kw(rng), rng.random() < 0.3]
                                  for _ in range(rng.choice([1, 2]))]]
    # report a switch change from inside the handler: the (untimed) switch handler posts synchronously
    return ["hit_switch", [["plain", rng.choice(EVENTS), _post_kw(rng), rng.random() < 0.3]
                           for _ in range(rng.choice([1, 2]))]]


def gen_case(rng, tier, index):
    nfn = rng.randint(3, 8)
    fns = []
    rets = []
    for _ in range(nfn):
        prog = [_gen_action(rng, nfn) for _ in range(rng.choice([0, 0, 1, 1, 2, 3, 4]))]
        fns.append(prog)
        # what the handler returns: only a boolean event may be cut short (by False), only a relay event is
        # updated (by a dict); for every other combination the result must not influence the dispatch
        rets.append(rng.choice(["none"] * 7 + ["false", "true", "zero", "dict"]))
    # some handler functions carry a relative priority (mpf's @event_handler(N) decorator): it is added to the
    # priority given at registration
    relprios = [rng.choice([0, 0, 0, 0, 1, 2, 10]) for _ in range(nfn)]
    regs = []
    for _ in range(rng.randint(3, 18)):
        regs.append([rng.randrange(nfn), rng.choice(EVENTS), rng.choice(PRIOS), _kw(rng), rng.choice(CONDS),
                     rng.random() < 0.15])
    roots = []
    for _ in range(rng.randint(1, 6)):
        ctx = rng.choice(CONTEXTS)
        posts = [[rng.choice(["plain", "plain", "boolean", "relay"]), rng.choice(EVENTS), _post_kw(rng),
                  rng.random() < 0.5] for _ in range(rng.choice([1, 1, 2, 3]))]
        acts = [_gen_action(rng, nfn) for _ in range(rng.choice([0, 0, 1]))]
        roots.append([ctx, rng.choice([0, 0, 0.05, 1.0]), posts, acts])
    return {"fns": fns, "regs": regs, "roots": roots, "rets": rets, "relprios": relprios}


def run_case(case):
    from vlib.boot import VMachine, MpfCrash
    from vlib.busmodel import BusChecker
    chk = BusChecker("C01")
    st = {"budget": 120, "pid": 0, "rid": 0, "crash": None, "ctx_used": set(), "depth_seen": 0}
    keys = {}       # rid -> EventHandlerKey
    live = []       # rids in registration order (for rm_key references)
    fns = {}

    cfg = "switches:\n  s1:\n    number: 1\n  s2:\n    number: 2\n  s3:\n    number: 3\n"
    with VMachine(cfg) as vm:
        m = vm.machine
        ev = m.events

        def do_post(type_, event, kwargs, has_cb):
            st["pid"] += 1
            pid = st["pid"]
            kw = dict(kwargs)
            kw["_pid"] = pid
            cb = make_cb(pid) if has_cb else None
            chk.on_post(pid, event, kw, type_, has_cb)
            if type_ == "plain":
                ev.post(event, cb, **kw)
            elif type_ == "boolean":
                ev.post_boolean(event, cb, **kw)
            else:
                ev.post_relay(event, cb, **kw)

        def do_add(fid, event, prio, kwargs, cond, dotprio):
            if fid >= len(case["fns"]):
                return
            st["rid"] += 1
            rid = st["rid"]
            kw = dict(kwargs)
            kw["_rid"] = rid
            name = event
            eff_prio = prio + ((case.get("relprios") or [])[fid] if fid < len(case.get("relprios") or []) else 0)
            if dotprio:
                name += ".3"
                eff_prio += 3
            if cond:
                name += "{%s}" % cond
            chk.add_reg(rid, event, fid, eff_prio, kw, cond)
            keys[rid] = ev.add_handler(name, fns[fid], priority=prio, **kw)
            live.append(rid)

        def do_action(a):
            kind = a[0]
            if kind == "post":
                do_post(a[1], a[2], a[3], a[4])
            elif kind == "add":
                do_add(a[1], a[2], a[3], a[4], a[5], a[6] if len(a) > 6 else False)
            elif kind == "rm_key":
                alive = [r for r in live if chk.regs[r].alive]
                dead = [r for r in live if not chk.regs[r].alive]
                if a[1] % 3 == 0 and dead:
                    # a key that was removed before (double stop, idempotent clean-up): must remove nothing
                    st["stale_key_removals"] = st.get("stale_key_removals", 0) + 1
                    ev.remove_handler_by_key(keys[dead[(a[1] // 3) % len(dead)]])
                elif alive:
                    rid = alive[a[1] % len(alive)]
                    chk.remove_reg(rid)
                    ev.remove_handler_by_key(keys[rid])
            elif kind == "rm_event":
                if a[2] < len(case["fns"]):
                    for r in list(chk.alive_regs(a[1])):
                        if r.fid == a[2]:
                            chk.remove_reg(r.rid)
                    ev.remove_handler_by_event(a[1], fns[a[2]])
            elif kind == "rm_fn":
                if a[1] < len(case["fns"]):
                    for r in list(chk.regs.values()):
                        if r.alive and r.fid == a[1]:
                            chk.remove_reg(r.rid)
                    ev.remove_handler(fns[a[1]])
            elif kind == "run_now_delay":
                posts = a[1]

                def fire_now(_posts=posts):
                    for pp in _posts:
                        do_post(*pp)
                name = m.delay.add(ms=5000, callback=fire_now)
                st["run_now"] = st.get("run_now", 0) + 1
                m.delay.run_now(name)
            elif kind == "hit_switch":
                inner_pending.append(a[1])
                st["inner_switch"] = st.get("inner_switch", 0) + 1
                m.switch_controller.process_switch("s3", 1, logical=True)
                m.switch_controller.process_switch("s3", 0, logical=True)

        def make_fn(fid):
            def fn(**kwargs):
                rid, pid = kwargs.get("_rid"), kwargs.get("_pid")
                chk.on_enter(rid, pid, kwargs)
                p = chk.posts.get(pid)
                if p is not None:
                    st["depth_seen"] = max(st["depth_seen"], p.depth)
                if st["budget"] > 0 and (p is None or p.depth < 5):
                    st["budget"] -= 1
                    for a in case["fns"][fid]:
                        do_action(a)
                ret = (case.get("rets") or [])[fid] if fid < len(case.get("rets") or []) else "none"
                result = {"none": None, "false": False, "true": True, "zero": 0,
                          "dict": {"y": 5, "relayed_by": fid}}[ret]
                if result is not None:
                    st["non_none_results"] = st.get("non_none_results", 0) + 1
                chk.on_exit(rid, pid, result)
                return result
            fn.__name__ = "F%d" % fid
            rel = (case.get("relprios") or [])[fid] if fid < len(case.get("relprios") or []) else 0
            if rel:
                fn.relative_priority = rel
            return fn

        def make_cb(pid):
            def cb(**kwargs):
                chk.on_callback_enter(pid, kwargs)
                p = chk.posts.get(pid)
                if p is not None:
                    exp = dict(p.relay_kwargs if p.type == "relay" else p.kwargs)
                    got = {k: v for k, v in kwargs.items() if k != "ev_result"}
                    chk.clauses["kwargs_merge"] += 1
                    if got != exp:
                        chk.V("kwargs_merge", "callback_kwargs_differ_from_posted", pid=pid, got=got, expected=exp)
                if st["budget"] > 0 and pid % 3 == 0:
                    st["budget"] -= 1
                    do_post("plain", EVENTS[pid % len(EVENTS)], {"x": 1, "y": 2, "flag": False, "tag": "cb"}, pid % 2 == 0)
                chk.on_callback_exit(pid)
            return cb

        for fid in range(len(case["fns"])):
            fns[fid] = make_fn(fid)
        for r in case["regs"]:
            do_add(*r)

        sw_pending = []
        inner_pending = []

        def inner_sw_handler(**kwargs):
            if inner_pending:
                for pp in inner_pending.pop(0):
                    do_post(*pp)

        m.switch_controller.add_switch_handler("s3", inner_sw_handler, state=1, ms=0)

        def sw_handler(**kwargs):
            if sw_pending:
                grp = sw_pending.pop(0)
                for pp in grp[0]:
                    do_post(*pp)
                for a in grp[1]:
                    do_action(a)

        m.switch_controller.add_switch_handler("s1", sw_handler, state=1, ms=0)
        m.switch_controller.add_switch_handler("s2", sw_handler, state=1, ms=100)
        try:
            for root in case["roots"]:
                ctx, dt, posts, acts = root[0], root[1], root[2], root[3]
                st["ctx_used"].add(ctx)

                def fire(posts=posts, acts=acts):
                    for pp in posts:
                        do_post(*pp)
                    for a in acts:
                        do_action(a)

                if ctx == "direct":
                    fire()
                elif ctx == "delay":
                    m.delay.add(ms=50, callback=fire)
                    vm.advance(0.05)
                elif ctx == "soon":
                    vm.loop.call_soon(fire)
                elif ctx == "switch":
                    sw_pending.append((posts, acts))
                    m.switch_controller.process_switch("s1", 1, logical=True)
                    m.switch_controller.process_switch("s1", 0, logical=True)
                elif ctx == "timed":
                    sw_pending.append((posts, acts))
                    m.switch_controller.process_switch("s2", 1, logical=True)
                    vm.advance(0.1)
                    m.switch_controller.process_switch("s2", 0, logical=True)
                elif ctx == "callback_chain":
                    # a post whose completion callback posts the group
                    st["pid"] += 1
                    pid = st["pid"]

                    def chain_cb(_fire=fire, _pid=pid, **kwargs):
                        chk.on_callback_enter(_pid, kwargs)
                        _fire()
                        chk.on_callback_exit(_pid)
                    kw = {"x": 0, "y": 0, "flag": False, "tag": "chain", "_pid": pid}
                    chk.on_post(pid, "e_chain", kw, "plain", True)
                    ev.post("e_chain", chain_cb, **kw)
                vm.advance(dt or 0.001)
                chk.drain()       # quiescence: the loop is idle, so everything posted so far has been dispatched
            vm.advance(1.0)
            # ---- the same argument-override rule on the queue-event dispatcher (its handlers run in a task, so only
            # the merged kwargs are judged here; ordering of queue events belongs to C02)
            import random as _random
            rq = _random.Random(repr(case["roots"])[:200])
            qcalls = []

            def mkq(i, hkw):
                def qh(queue, **kwargs):
                    qcalls.append((i, dict(kwargs)))
                return qh
            qkeys = []
            qregs = []
            for i in range(rq.choice([2, 3])):
                hkw = {k: v for k, v in (("x", rq.choice([7, 8])), ("tag", "h%d" % i), ("y", 9)) if rq.random() < 0.7}
                hkw["_rid"] = "q%d" % i
                qregs.append(hkw)
                qkeys.append(ev.add_handler("c01_queue_ev", mkq(i, hkw), priority=10 - i, **hkw))
            qdone = []
            for ctx in ("direct", "delay"):
                pkw = {"x": rq.choice([0, 1]), "y": rq.choice([2, 3]), "tag": "p", "z": ctx}
                del qcalls[:]
                if ctx == "direct":
                    ev.post_queue("c01_queue_ev", lambda **kwargs: qdone.append(1), **pkw)
                else:
                    m.delay.add(ms=10, callback=lambda: ev.post_queue("c01_queue_ev", lambda **kwargs: qdone.append(1), **pkw))
                vm.advance(0.05)
                for i, got in qcalls:
                    exp = dict(pkw)
                    exp.update(qregs[i])
                    chk.clauses["kwargs_merge"] += 1
                    if got != exp:
                        chk.V("kwargs_merge", "handler_kwargs_not_posted_overridden_by_registered", event="c01_queue_ev",
                              dispatcher="queue", got=got, expected=exp)
                chk.clauses["delivered_once"] += 1
                if sorted(i for i, _ in qcalls) != list(range(len(qregs))):
                    chk.V("delivered_once", "handler_not_called", event="c01_queue_ev", dispatcher="queue",
                          called=[i for i, _ in qcalls])
            for k in qkeys:
                ev.remove_handler_by_key(k)
        except MpfCrash as e:
            st["crash"] = repr(e)
            chk.V("serial", "crash_during_dispatch", exc=st["crash"][:600])
        if st["crash"] is None:
            chk.finish()

    ninv = chk.obs["invocations"]
    shape = "c%s|f%s|r%d|i%d|d%d|cb%d|rm%d" % (
        "".join(sorted(c[0] for c in st["ctx_used"])),
        "".join(str(min(len(p), 3)) for p in case["fns"]), min(len(case["regs"]), 12) // 3, min(ninv, 60) // 6,
        st["depth_seen"], min(chk.obs["callbacks"], 6), min(chk.obs["removed_mid_dispatch_called"], 3))
    chk.obs["contexts_used"] = len(st["ctx_used"])
    chk.obs["handler_results_not_none"] = st.get("non_none_results", 0)
    chk.obs["run_now_from_handler"] = st.get("run_now", 0)
    chk.obs["stale_key_removals"] = st.get("stale_key_removals", 0)
    chk.obs["switch_report_from_handler"] = st.get("inner_switch", 0)
    return {"violations": chk.viol, "clauses": chk.clauses, "shape": shape,
            "nontrivial": ninv >= 3 and st["depth_seen"] >= 1 and chk.obs["callbacks"] >= 1, "obs": chk.obs}
