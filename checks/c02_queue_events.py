"""C02 — Queue, relay and boolean events complete exactly once and in order.

Sub-workloads (index % 4; the fourth, *players*, drives queue_relay_player / queue_event_player entries with several
relays outstanding at once, released in generated orders):
  queue  : several queue events in flight on the real EventManager, handler sets mixing sync handlers, waiting handlers
           (clear after a generated virtual delay, or immediately), async-coroutine handlers and NESTED waiters (wait,
           post another queue event, clear in that one's callback).  Oracle: per post the recorded sequence must be
           (enter [wait .. clear])* callback, priority-ordered, no enter while a wait of the same post is outstanding,
           callback exactly once and only after the last clear; bounded progress at the horizon.
  relay  : relay / boolean posts with handlers returning dicts / False, checked by the online reference bus
           (vlib.busmodel) plus result oracles on the callback and on post_relay_async.
  modes  : queue events whose handler is Mode.start of generated modes (with/without use_wait_queue, with waiting
           handlers on mode_<m>_starting, with a logic block in the mode); the outer queue event must complete
           exactly once, and only after the mode is active when the mode uses the wait queue.
"""

PROPERTY = "C02"
LEVEL = "exploration"
LEVEL_TEXT = ("Exploration: generated handler sets and clear schedules (virtual time) on the real EventManager and real "
              "modes; per-post sequence oracle + bounded-progress check at a horizon larger than every generated delay. "
              "Interleavings of clears are unbounded, so seeded sampling of delay permutations is the reachable level.")
LEVEL_NOTE = ("Trusts MPF's TimeTravelLoop, the recording handlers (client boundary of QueuedEvent.wait/clear) and "
              "vlib/busmodel.py for relay/boolean.  'Eventually' is restated as: 10 virtual s after the last scheduled "
              "clear the callback has run and no queue task is left.")
TECHNIQUE = "runtime monitoring: recorded wait/clear/enter/callback history checked by a per-post sequence oracle, bounded progress in virtual time"
ENGINES = ["vlib", "busmodel"]
RULE = ("case = generated handler set + post schedule of kind queue|relay|modes; distinct = kinds of handlers per "
        "event, number of concurrent posts, delay buckets, mode options; non-trivial = at least one wait was "
        "outstanding while other events ran and one completion callback was checked (queue/modes), or a dict/False "
        "result changed the dispatch (relay)")
ASSUMPTIONS = [
    "handler registrations are static while queue events are in flight (snapshot instant of a queue event is unspecified)",
    "equal priorities may come in any order",
    "bounded progress horizon: 10 virtual seconds after the last scheduled clear",
    "modes workload: a mode start request that the mode's own guards reject (already active/starting) completes the "
    "outer queue event without starting the mode",
]
HORIZONS = {"after_last_clear_s": 10}
TIERS = {
    "quick": {"cases": 3200, "batch": 80, "case_timeout": 60},
    "thorough": {"cases": 80000, "batch": 500, "case_timeout": 120},
}
MIN_EVALS = {"quick": {"queue_sequence": 3000, "queue_callback_once": 1500, "no_enter_during_wait": 3000,
                       "relay_fold": 800, "boolean_stop": 300, "mode_queue_complete": 300, "relay_player_complete": 1000, "ball_ending_after_nested_stops": 150}}
SHRINK_KEYS = ["posts", "handlers", "ops"]

EVENTS = ["q0", "q1", "q2"]
DELAYS = [0.0, 0.001, 0.1, 0.1, 0.5, 1.0, 1.5, 3.0]


def _gen_queue(rng, tier):
    handlers = []
    for _ in range(rng.randint(2, 9)):
        kind = rng.choice(["sync", "sync", "wait", "wait", "wait_now", "async", "nested", "wait_post", "sync_false",
                           "wait_false", "async_cancel", "wait_remove", "wait_add"])
        handlers.append([rng.choice(EVENTS), rng.choice([1, 1, 2, 2, 5, 10]), kind, rng.choice(DELAYS),
                         rng.choice(EVENTS)])
    posts = []
    for _ in range(rng.randint(1, 6)):
        posts.append([rng.choice([0.0, 0.0, 0.05, 0.1, 0.5, 1.0]), rng.choice(EVENTS), rng.random() < 0.3])
    return {"kind": "queue", "handlers": handlers, "posts": posts}


def _gen_relay(rng, tier):
    handlers = []
    for _ in range(rng.randint(2, 8)):
        ret = rng.choice(["none", "none", "dict", "dict", "dict2", "false", "true", "str", "list", "zero", "empty", "emptydict"])
        handlers.append([rng.choice(["r0", "r1"]), rng.choice([1, 2, 2, 5, 9]), ret,
                         rng.choice([{}, {}, {"a": 100}, {"b": 7}]), rng.randrange(1000)])
    posts = []
    for _ in range(rng.randint(1, 5)):
        posts.append([rng.choice(["relay", "relay", "boolean", "boolean", "relay_async", "relay_empty", "boolean_empty"]),
                      rng.choice(["r0", "r1"]), {"a": rng.randint(0, 3), "b": rng.randint(0, 3)}])
    return {"kind": "relay", "handlers": handlers, "posts": posts}


def _gen_modes(rng, tier):
    modes = []
    for i in range(rng.randint(1, 3)):
        modes.append({"name": "m%d" % i, "use_wait_queue": rng.random() < 0.6,
                      "start_event": rng.choice(["qs0", "qs1"]),
                      "counter": rng.random() < 0.5,
                      "starting_waiter": rng.choice([None, None, 0.0, 0.2, 1.0]),
                      "priority": rng.choice([100, 200, 300])})
    posts = []
    for _ in range(rng.randint(1, 4)):
        posts.append([rng.choice([0.0, 0.05, 0.5, 2.0]), rng.choice(["qs0", "qs1"]),
                      rng.choice([None, None, "stop_all"])])
    return {"kind": "modes", "modes": modes, "posts": posts}


def _gen_players(rng, tier):
    """Queue events blocked by queue_relay_player entries (machine-wide and in a mode) and posted by
    queue_event_player entries; several relays outstanding at the same time, released in generated orders."""
    relays = []
    for i in range(rng.randint(2, 4)):
        relays.append({"event": "qr%d" % i, "where": rng.choice(["machine", "machine", "mode"]),
                       "pass_args": rng.random() < 0.5})
    ops = []
    for _ in range(rng.randint(3, 10)):
        k = rng.random()
        if k < 0.45:
            ops.append(["post", rng.randrange(len(relays)), rng.choice(["direct", "qep"])])
        elif k < 0.85:
            ops.append(["done", rng.randrange(len(relays))])
        else:
            ops.append(["adv", rng.choice([0.0, 0.1, 1.0])])
    return {"kind": "players", "relays": relays, "ops": ops}


def _gen_ballend(rng, tier):
    """Game modes that end with the ball; their own stop may already be in flight when ball_ending is dispatched."""
    modes = []
    for i in range(rng.randint(1, 3)):
        modes.append({"name": "g%d" % i,
                      "stop": rng.choice(["none", "ball_ending", "ball_ending", "custom_before", "custom_before",
                                          "ball_ending_prio"]),
                      "auto_stop": True,
                      "priority": rng.choice([100, 150, 200, 300]),
                      "hold": rng.choice([None, 0.0, 0.1, 0.5, 2.0, 5.0, 5.0]),
                      "pre": rng.choice([0.0, 0.0, 0.05, 0.1, 1.0])})
    return {"kind": "ballend", "modes": modes, "balls": rng.randint(1, 2), "players": rng.randint(1, 2)}


def gen_case(rng, tier, index):
    if index % 16 == 7:
        return _gen_ballend(rng, tier)
    k = index % 4
    if k == 0:
        return _gen_queue(rng, tier)
    if k == 1:
        return _gen_relay(rng, tier)
    if k == 2:
        return _gen_modes(rng, tier)
    return _gen_players(rng, tier)


def run_case(case):
    if case["kind"] == "queue":
        return _run_queue(case)
    if case["kind"] == "relay":
        return _run_relay(case)
    if case["kind"] == "players":
        return _run_players(case)
    if case["kind"] == "ballend":
        return _run_ballend(case)
    return _run_modes(case)


def _run_ballend(case):
    """ball_ending is a queue event; the mode controller's handler holds it until every game mode that ends with the
    ball has stopped, and each such stop is itself a queue event (mode_<m>_stopping) whose handlers may wait.  Oracle at
    the event boundary: when ball_ended (the completion of ball_ending) is posted, no wait that one of OUR handlers of a
    nested mode_<m>_stopping registered may be outstanding, for modes with stop_on_ball_end (the default)."""
    from vlib.boot import VMachine, MpfCrash
    clauses = {"ball_ending_after_nested_stops": 0, "queue_progress": 0}
    obs = {"ballend_cases": 1, "ballend_ball_ends": 0, "ballend_mode_already_stopping_at_ball_ending": 0,
           "ballend_holds_outstanding_during_ball_ending": 0}
    viol = []

    def V(clause, sig, **d):
        if len(viol) < 10:
            viol.append({"clause": clause, "sig": "C02:" + sig, "detail": d})

    cfg = {"modes": [md["name"] for md in case["modes"]]}
    modes = {}
    for md in case["modes"]:
        stop = {"none": "never_%s" % md["name"], "ball_ending": "ball_ending, halt_%s" % md["name"],
                "ball_ending_prio": "ball_ending.5, halt_%s" % md["name"],
                "custom_before": "halt_%s" % md["name"]}[md["stop"]]
        modes[md["name"]] = {"mode": {"start_events": "ball_started", "stop_events": stop,
                                      "priority": md["priority"]}}
    try:
        with VMachine(cfg, modes=modes, kind="fake") as vm:
            m = vm.machine
            ev = m.events
            holds = {}      # mode name -> list of [queue, cleared]
            st = {"in_ball_ending": False}

            for md in case["modes"]:
                if md["hold"] is None:
                    continue

                def holder(queue, _n=md["name"], _d=md["hold"], **kwargs):
                    queue.wait()
                    rec = [queue, False]
                    holds.setdefault(_n, []).append(rec)
                    if st["in_ball_ending"]:
                        obs["ballend_holds_outstanding_during_ball_ending"] += 1

                    def rel():
                        rec[1] = True
                        queue.clear()
                    vm.loop.call_later(_d, rel)
                ev.add_handler("mode_%s_stopping" % md["name"], holder, priority=1)

            def on_ball_ending(**kwargs):
                st["in_ball_ending"] = True
                for md in case["modes"]:
                    if m.modes[md["name"]].stopping:
                        obs["ballend_mode_already_stopping_at_ball_ending"] += 1
            ev.add_handler("ball_ending", on_ball_ending, priority=100000)

            def on_ball_ended(**kwargs):
                st["in_ball_ending"] = False
                obs["ballend_ball_ends"] += 1
                for md in case["modes"]:
                    if not md["auto_stop"]:
                        continue
                    clauses["ball_ending_after_nested_stops"] += 1
                    out = [1 for rec in holds.get(md["name"], []) if not rec[1]]
                    if out:
                        V("ball_ending_after_nested_stops",
                          "ball_ending_completed_while_wait_in_nested_mode_stopping_outstanding", mode=md["name"],
                          stop=md["stop"], mode_active=m.modes[md["name"]].active,
                          mode_stopping=m.modes[md["name"]].stopping)
            ev.add_handler("ball_ended", on_ball_ended, priority=100000)

            vm.t.start_game()
            for _ in range(case["players"] - 1):
                vm.t.add_player()
            vm.advance(1.0)
            for _ in range(case["balls"] * case["players"]):
                if m.game is None or m.game.balls_in_play < 1:
                    break
                vm.advance(1.0)
                pre = 0.0
                for md in case["modes"]:
                    if md["stop"] == "custom_before" and m.modes[md["name"]].active:
                        ev.post("halt_%s" % md["name"])
                        pre = max(pre, md["pre"])
                if pre:
                    vm.advance(pre)
                before = obs["ballend_ball_ends"]
                vm.t.drain_all_balls()
                vm.advance(12.0)
                clauses["queue_progress"] += 1
                if obs["ballend_ball_ends"] != before + 1:
                    V("queue_progress", "ball_ending_not_completed_once_within_horizon",
                      ball_ended_posts=obs["ballend_ball_ends"] - before)
                    break
    except MpfCrash as e:
        V("queue_progress", "crash_in_ball_ending_workload", exc=repr(e)[:400])
    shape = "B" + "|".join("%s%s%s" % (md["stop"][:4], "A" if md["auto_stop"] else "a",
                                       "n" if md["hold"] is None else ("h" if md["hold"] >= 2 else "q"))
                           for md in case["modes"]) + "p%db%d" % (case["players"], case["balls"])
    return {"violations": viol, "clauses": clauses, "shape": shape,
            "nontrivial": obs["ballend_ball_ends"] > 0 and clauses["ball_ending_after_nested_stops"] > 0, "obs": obs}


def _run_players(case):
    from vlib.boot import VMachine, MpfCrash
    clauses = {"relay_player_complete": 0, "relay_player_not_before_release": 0, "relay_player_tail_after_release": 0,
               "queue_progress": 0}
    obs = {"relay_posts": 0, "relays_outstanding_max": 0, "releases": 0, "qep_posts": 0}
    viol = []

    def V(clause, sig, **d):
        if len(viol) < 20:
            viol.append({"clause": clause, "sig": "C02:" + sig, "detail": d})

    relays = case["relays"]
    mcfg = {"modes": ["pm"], "queue_relay_player": {}, "queue_event_player": {}}
    mode_cfg = {"mode": {"start_events": "pm_go", "stop_events": "pm_halt", "game_mode": False},
                "queue_relay_player": {}}
    for i, r in enumerate(relays):
        entry = {"post": "%s_relayed" % r["event"], "wait_for": "%s_done" % r["event"], "pass_args": r["pass_args"]}
        (mode_cfg if r["where"] == "mode" else mcfg)["queue_relay_player"][r["event"]] = entry
        mcfg["queue_event_player"]["go_%s" % r["event"]] = {"queue_event": r["event"],
                                                             "events_when_finished": "%s_finished" % r["event"]}
    if not mode_cfg["queue_relay_player"]:
        del mode_cfg["queue_relay_player"]
    with VMachine(mcfg, modes={"pm": mode_cfg}) as vm:
        m = vm.machine
        ev = m.events
        ev.post("pm_go")
        vm.advance(0.1)
        st = {"pid": 0}
        open_posts = {i: [] for i in range(len(relays))}     # relay index -> [pid] not yet released
        posts = {}
        finished = {i: 0 for i in range(len(relays))}
        for i, r in enumerate(relays):
            def tail(i=i, **kwargs):
                pid = kwargs.get("_pid")
                P = posts.get(pid)
                if P is not None:
                    P["tail"] += 1
                    clauses["relay_player_tail_after_release"] += 1
                    if not P["released"]:
                        V("relay_player_tail_after_release", "later_handler_ran_while_relay_wait_outstanding", pid=pid,
                          event=relays[i]["event"])

            def fin(i=i, **kwargs):
                finished[i] += 1
            ev.add_handler(r["event"], tail, priority=-1000)
            ev.add_handler("%s_finished" % r["event"], fin)
        try:
            for op in case["ops"]:
                if op[0] == "post":
                    i = op[1] % len(relays)
                    ename = relays[i]["event"]
                    if op[2] == "qep":
                        # posted by the queue_event_player: completion is observed through events_when_finished
                        st["pid"] += 1
                        pid = st["pid"]
                        posts[pid] = {"i": i, "cb": 0, "released": False, "tail": 0, "qep": True, "fin0": finished[i]}
                        open_posts[i].append(pid)
                        obs["qep_posts"] += 1
                        ev.post("go_%s" % ename)
                    else:
                        st["pid"] += 1
                        pid = st["pid"]
                        posts[pid] = {"i": i, "cb": 0, "released": False, "tail": 0, "qep": False}
                        open_posts[i].append(pid)

                        def cb(pid=pid, **kwargs):
                            P = posts[pid]
                            P["cb"] += 1
                            clauses["relay_player_not_before_release"] += 1
                            if not P["released"]:
                                V("relay_player_not_before_release", "queue_callback_before_wait_cleared", pid=pid)
                        ev.post_queue(ename, cb, _pid=pid)
                    obs["relay_posts"] += 1
                    vm.advance(0.02)
                    n = sum(len(v) for v in open_posts.values())
                    obs["relays_outstanding_max"] = max(obs["relays_outstanding_max"], n)
                elif op[0] == "done":
                    i = op[1] % len(relays)
                    for pid in open_posts[i]:
                        posts[pid]["released"] = True
                    open_posts[i] = []
                    obs["releases"] += 1
                    ev.post("%s_done" % relays[i]["event"])
                    vm.advance(0.02)
                else:
                    vm.advance(op[1])
            for i in range(len(relays)):
                for pid in open_posts[i]:
                    posts[pid]["released"] = True
                open_posts[i] = []
                ev.post("%s_done" % relays[i]["event"])
                vm.advance(0.02)
            vm.advance(HORIZONS["after_last_clear_s"])
        except MpfCrash as e:
            V("relay_player_complete", "crash_in_queue_relay_player", exc=repr(e)[:600])
            return {"violations": viol, "clauses": clauses, "shape": "Pcrash", "nontrivial": False, "obs": obs}
        qep_expected = {i: 0 for i in range(len(relays))}
        for pid, P in posts.items():
            clauses["relay_player_complete"] += 1
            if P["qep"]:
                qep_expected[P["i"]] += 1
                continue
            if P["cb"] != 1:
                V("relay_player_complete", "queue_callback_never_ran" if P["cb"] == 0 else "queue_callback_ran_twice",
                  pid=pid, event=relays[P["i"]]["event"], where=relays[P["i"]]["where"])
        for i, n in qep_expected.items():
            if n:
                clauses["relay_player_complete"] += 1
                if finished[i] != n:
                    V("relay_player_complete", "queue_event_player_finished_event_count_wrong", event=relays[i]["event"],
                      expected=n, got=finished[i])
        clauses["queue_progress"] += 1
        if ev._queue_tasks:
            V("queue_progress", "queue_task_left_at_horizon", n=len(ev._queue_tasks))
    shape = "P" + "".join(r["where"][1] + ("a" if r["pass_args"] else "n") for r in relays) + "|" + \
        "".join(o[0][0] + (str(o[1]) if o[0] != "adv" else "") for o in case["ops"])
    return {"violations": viol, "clauses": clauses, "shape": shape,
            "nontrivial": obs["relays_outstanding_max"] >= 2 and obs["releases"] > 0, "obs": obs}


# =============================================================================================
def _run_queue(case):
    import asyncio
    from vlib.boot import VMachine, MpfCrash
    clauses = {"queue_sequence": 0, "queue_callback_once": 0, "no_enter_during_wait": 0, "callback_after_last_clear": 0,
               "queue_progress": 0, "queue_priority_order": 0}
    obs = {"queue_posts": 0, "waits": 0, "clears": 0, "enters": 0, "max_open_waits": 0, "nested_queue_posts": 0,
           "enters_of_other_posts_during_wait": 0, "async_handlers": 0, "async_cancelled": 0,
           "removed_in_flight": 0, "added_in_flight": 0}
    viol = []

    def V(clause, sig, **d):
        if len(viol) < 20:
            viol.append({"clause": clause, "sig": "C02:" + sig, "detail": d})

    with VMachine("modes: []\n") as vm:
        m = vm.machine
        ev = m.events
        log = []            # (kind, pid, hid, t)
        st = {"pid": 0, "open": {}, "last_clear_time": 0.0, "budget": 12}
        regs = {}           # event -> [(hid, prio)]
        reglog = {}         # hid -> {"event", "prio", "add": seq, "rem": seq or None, "key": handler key}

        def tick():
            st["seq"] = st.get("seq", 0) + 1
            return st["seq"]
        posts = {}          # pid -> dict

        def post_queue(event, nested_parent=None):
            st["pid"] += 1
            pid = st["pid"]
            posts[pid] = {"event": event, "cb": 0, "entered": [], "open_wait": None, "cb_time": None,
                          "last_clear": None, "t_post": vm.now(), "parent": nested_parent, "seq_post": tick(),
                          "seq_cb": None}
            obs["queue_posts"] += 1

            def cb(**kwargs):
                P = posts[pid]
                P["cb"] += 1
                P["cb_time"] = vm.now()
                if P["seq_cb"] is None:
                    P["seq_cb"] = tick()
                log.append(("cb", pid, None, vm.now()))
                clauses["queue_callback_once"] += 1
                if P["cb"] > 1:
                    V("queue_callback_once", "queue_callback_ran_twice", pid=pid, event=event)
                clauses["callback_after_last_clear"] += 1
                if P["open_wait"] is not None:
                    V("callback_after_last_clear", "queue_callback_before_wait_cleared", pid=pid, hid=P["open_wait"])
                if kwargs.get("_pid") != pid:
                    V("queue_sequence", "queue_callback_wrong_kwargs", pid=pid, got=kwargs)
                if nested_parent is not None:
                    nested_parent()
            ev.post_queue(event, cb, _pid=pid)
            return pid

        def on_enter(hid, prio, pid):
            P = posts.get(pid)
            obs["enters"] += 1
            log.append(("enter", pid, hid, vm.now()))
            if P is None:
                return None
            clauses["no_enter_during_wait"] += 1
            if P["open_wait"] is not None:
                V("no_enter_during_wait", "later_handler_ran_while_wait_outstanding", pid=pid, hid=hid,
                  waiting=P["open_wait"])
            for q, Q in posts.items():
                if q != pid and Q["open_wait"] is not None:
                    obs["enters_of_other_posts_during_wait"] += 1
                    break
            clauses["queue_priority_order"] += 1
            if P["entered"] and P["entered"][-1][1] < prio:
                V("queue_priority_order", "queue_handlers_not_in_priority_order", pid=pid, seq=P["entered"], now=(hid, prio))
            if any(h == hid for h, _ in P["entered"]):
                V("queue_sequence", "queue_handler_called_twice", pid=pid, hid=hid)
            if P["cb"]:
                V("queue_sequence", "queue_handler_after_callback", pid=pid, hid=hid)
            P["entered"].append((hid, prio))
            return P

        def do_wait(P, pid, hid, queue):
            queue.wait()
            P["open_wait"] = hid
            obs["waits"] += 1
            n = sum(1 for Q in posts.values() if Q["open_wait"] is not None)
            obs["max_open_waits"] = max(obs["max_open_waits"], n)
            log.append(("wait", pid, hid, vm.now()))

        def do_clear(P, pid, hid, queue):
            P["open_wait"] = None
            P["last_clear"] = vm.now()
            obs["clears"] += 1
            log.append(("clear", pid, hid, vm.now()))
            queue.clear()

        def make_handler(hid, prio, kind, delay, other):
            if kind in ("async", "async_cancel"):
                async def coro(**kwargs):
                    pid = kwargs.get("_pid")
                    P = on_enter(hid, prio, pid)
                    obs["async_handlers"] += 1
                    if P is not None:
                        # add_async_handler registers the wait itself before the coroutine starts
                        P["open_wait"] = hid
                        obs["waits"] += 1
                        log.append(("wait", pid, hid, vm.now()))
                    st["last_clear_time"] = max(st["last_clear_time"], vm.now() + delay)
                    try:
                        if kind == "async_cancel":
                            # the job the coroutine awaits is owned by somebody else and gets aborted: the handler
                            # task ends with CancelledError, which releases the wait like a normal return does
                            fut = asyncio.Future()
                            vm.loop.call_later(delay, fut.cancel)
                            obs["async_cancelled"] += 1
                            await fut
                        else:
                            await asyncio.sleep(delay)
                    finally:
                        if P is not None:
                            P["open_wait"] = None
                            P["last_clear"] = vm.now()
                            obs["clears"] += 1
                            log.append(("clear", pid, hid, vm.now()))
                return coro, True

            def h(queue, **kwargs):
                pid = kwargs.get("_pid")
                P = on_enter(hid, prio, pid)
                if P is None:
                    return
                if kind == "sync":
                    return
                if kind == "sync_false":
                    # the result of a queue-event handler has no meaning: every handler must still run
                    return False
                if kind == "wait_false":
                    do_wait(P, pid, hid, queue)
                    st["last_clear_time"] = max(st["last_clear_time"], vm.now() + delay)
                    vm.loop.call_later(delay, do_clear, P, pid, hid, queue)
                    return False
                if kind == "wait_now":
                    do_wait(P, pid, hid, queue)
                    do_clear(P, pid, hid, queue)
                    return
                if kind == "wait":
                    do_wait(P, pid, hid, queue)
                    st["last_clear_time"] = max(st["last_clear_time"], vm.now() + delay)
                    vm.loop.call_later(delay, do_clear, P, pid, hid, queue)
                    return
                if kind == "wait_post":
                    # wait, and clear from inside a handler of a *plain* event posted later
                    do_wait(P, pid, hid, queue)
                    key = []

                    def clr(**kwargs):
                        ev.remove_handler_by_key(key[0])
                        do_clear(P, pid, hid, queue)
                    name = "clr_%d_%d" % (pid, hid)
                    key.append(ev.add_handler(name, clr))
                    st["last_clear_time"] = max(st["last_clear_time"], vm.now() + delay)
                    vm.loop.call_later(delay, ev.post, name)
                    return
                if kind == "wait_remove":
                    # hold the queue and, meanwhile, remove the first other handler of the same event (the handler
                    # set of an event in flight changes); handlers registered throughout must still all run once
                    do_wait(P, pid, hid, queue)
                    for ohid, R in sorted(reglog.items(), key=lambda x: (-x[1]["prio"], x[0])):
                        if ohid != hid and R["event"] == P["event"] and R["rem"] is None and st["budget"] > 0:
                            st["budget"] -= 1
                            R["rem"] = tick()
                            obs["removed_in_flight"] += 1
                            ev.remove_handler_by_key(R["key"])
                            break
                    st["last_clear_time"] = max(st["last_clear_time"], vm.now() + delay)
                    vm.loop.call_later(delay, do_clear, P, pid, hid, queue)
                    return
                if kind == "wait_add":
                    # hold the queue and, meanwhile, register a higher-priority handler for the same event
                    do_wait(P, pid, hid, queue)
                    if st["budget"] > 0:
                        st["budget"] -= 1
                        nh = st["next_hid"]
                        st["next_hid"] += 1
                        nprio = max([R["prio"] for R in reglog.values() if R["event"] == P["event"]] + [prio]) + 1
                        obs["added_in_flight"] += 1
                        register(nh, P["event"], nprio, "sync", 0.0, P["event"])
                    st["last_clear_time"] = max(st["last_clear_time"], vm.now() + delay)
                    vm.loop.call_later(delay, do_clear, P, pid, hid, queue)
                    return
                if kind == "nested":
                    if st["budget"] <= 0:
                        return
                    st["budget"] -= 1
                    do_wait(P, pid, hid, queue)
                    obs["nested_queue_posts"] += 1
                    post_queue(other, nested_parent=lambda: do_clear(P, pid, hid, queue))
                    return
            return h, False

        def register(hid, event, prio, kind, delay, other):
            fn, is_async = make_handler(hid, prio, kind, delay, other)
            # every third handler gets (part of) its priority through the event string ("q0.4" = 4 on top of the
            # priority argument), as config-driven handlers do; the effective priority is the same
            extra = prio - 1 if (hid + prio) % 3 == 0 and prio >= 2 else 0
            ev_str = "%s.%d" % (event, extra) if extra else event
            if extra:
                obs["suffix_priority_handlers"] = obs.get("suffix_priority_handlers", 0) + 1
            if is_async:
                key = ev.add_async_handler(ev_str, fn, priority=prio - extra)
            else:
                key = ev.add_handler(ev_str, fn, priority=prio - extra)
            regs.setdefault(event, []).append((hid, prio))
            reglog[hid] = {"event": event, "prio": prio, "add": tick(), "rem": None, "key": key}

        st["next_hid"] = len(case["handlers"])
        for hid, (event, prio, kind, delay, other) in enumerate(case["handlers"]):
            register(hid, event, prio, kind, delay, other)

        try:
            for dt, event, burst in case["posts"]:
                post_queue(event)
                if burst:
                    post_queue(event)
                vm.advance(dt)
            # horizon: every nested chain is bounded by budget * max delay
            vm.advance(max(0.0, st["last_clear_time"] - vm.now()) + 1.0)
            for _ in range(400):
                if vm.now() >= st["last_clear_time"] + 0.5:
                    break
                vm.advance(max(0.0, st["last_clear_time"] - vm.now()) + 1.0)
            vm.advance(HORIZONS["after_last_clear_s"])
        except MpfCrash as e:
            V("queue_sequence", "crash_in_queue_event", exc=repr(e)[:600])
            return {"violations": viol, "clauses": clauses, "shape": "Qcrash", "nontrivial": False, "obs": obs}

        for pid, P in posts.items():
            clauses["queue_progress"] += 1
            clauses["queue_callback_once"] += 1
            if P["cb"] != 1:
                V("queue_progress", "queue_callback_never_ran" if P["cb"] == 0 else "queue_callback_ran_twice",
                  pid=pid, event=P["event"], entered=P["entered"], open_wait=P["open_wait"], now=vm.now())
            clauses["queue_sequence"] += 1
            # handlers registered from before the post until the completion must all have run (once: see on_enter);
            # nothing may run that was not registered at some moment while the event was in flight
            end = P["seq_cb"] if P["seq_cb"] is not None else float("inf")
            must = sorted(h for h, R in reglog.items() if R["event"] == P["event"] and R["add"] < P["seq_post"] and
                          (R["rem"] is None or R["rem"] > end))
            may = set(h for h, R in reglog.items() if R["event"] == P["event"] and R["add"] < end and
                      (R["rem"] is None or R["rem"] > P["seq_post"]))
            got = [h for h, _ in P["entered"]]
            if P["cb"] and (not set(must) <= set(got) or not set(got) <= may):
                V("queue_sequence", "queue_handler_set_wrong", pid=pid, entered=P["entered"], expected=must,
                  allowed=sorted(may))
        clauses["queue_progress"] += 1
        if ev._queue_tasks:
            V("queue_progress", "queue_task_left_at_horizon", n=len(ev._queue_tasks))

    kinds = "".join(sorted(h[2][0] + h[2][-1] for h in case["handlers"]))
    shape = "Q%s|p%d|w%d|o%d" % (kinds, len(posts), min(obs["waits"], 9), obs["max_open_waits"])
    return {"violations": viol, "clauses": clauses, "shape": shape,
            "nontrivial": obs["waits"] > 0 and clauses["queue_callback_once"] > 0, "obs": obs}


# =============================================================================================
def _run_relay(case):
    from vlib.boot import VMachine, MpfCrash
    from vlib.busmodel import BusChecker
    chk = BusChecker("C02")
    clauses = {"relay_fold": 0, "boolean_stop": 0, "relay_async_result": 0}
    obs = {"dict_results": 0, "false_results": 0}
    st = {"pid": 0}

    with VMachine("modes: []\n") as vm:
        m = vm.machine
        ev = m.events
        results = {}

        def make_handler(hid, ret, salt):
            def h(**kwargs):
                rid = kwargs.get("_rid")
                # posts without any arguments cannot carry a _pid: they are made one at a time
                pid = kwargs["_pid"] if "_pid" in kwargs else st.get("cur_empty")
                chk.on_enter(rid, pid, kwargs)
                if ret == "dict":
                    res = {"a": kwargs.get("a", 0) + 1 + salt % 3, "h%d" % hid: salt}
                    obs["dict_results"] += 1
                elif ret == "dict2":
                    res = {"b": salt, "a": kwargs.get("a", 0) * 2}
                    obs["dict_results"] += 1
                elif ret == "false":
                    res = False
                    obs["false_results"] += 1
                elif ret == "true":
                    res = True
                elif ret == "str":
                    res = "x"
                elif ret == "list":
                    res = [1]
                elif ret == "zero":
                    res = 0
                elif ret == "empty":
                    res = ""
                elif ret == "emptydict":
                    res = {}
                else:
                    res = None
                chk.on_exit(rid, pid, res)
                return res
            return h

        for hid, (event, prio, ret, hkw, salt) in enumerate(case["handlers"]):
            rid = hid + 1
            kw = dict(hkw)
            kw["_rid"] = rid
            chk.add_reg(rid, event, hid, prio, kw, None)
            # every third handler gets (part of) its priority through the event string ("r0.4")
            extra = prio - 1 if (hid + prio) % 3 == 0 and prio >= 2 else 0
            ev.add_handler("%s.%d" % (event, extra) if extra else event, make_handler(hid, ret, salt),
                           priority=prio - extra, **kw)

        def make_cb(pid, type_):
            def cb(**kwargs):
                chk.on_callback_enter(pid, kwargs)
                results[pid] = dict(kwargs)
                chk.on_callback_exit(pid)
            return cb

        futures = {}
        try:
            for type_, event, kw in case["posts"]:
                st["pid"] += 1
                pid = st["pid"]
                kw = dict(kw)
                kw["_pid"] = pid
                if type_ in ("relay_empty", "boolean_empty"):
                    # posted with no arguments at all
                    st["cur_empty"] = pid
                    obs["empty_posts"] = obs.get("empty_posts", 0) + 1
                    if type_ == "relay_empty":
                        chk.on_post(pid, event, {}, "relay", True)
                        ev.post_relay(event, make_cb(pid, "relay"))
                    else:
                        chk.on_post(pid, event, {}, "boolean", True)
                        ev.post_boolean(event, make_cb(pid, "boolean"))
                    vm.advance(0.01)
                    chk.drain()
                    continue
                if type_ == "relay_async":
                    chk.on_post(pid, event, kw, "relay", True)
                    fut = ev.post_relay_async(event, **kw)
                    fut.add_done_callback(lambda f, pid=pid: None)
                    futures[pid] = fut
                    # the future's internal callback stands for the completion callback
                    chk.posts[pid].cb_count = 1
                elif type_ == "relay":
                    chk.on_post(pid, event, kw, "relay", True)
                    ev.post_relay(event, make_cb(pid, "relay"), **kw)
                else:
                    chk.on_post(pid, event, kw, "boolean", True)
                    ev.post_boolean(event, make_cb(pid, "boolean"), **kw)
                vm.advance(0.01)
                chk.drain()
            vm.advance(1.0)
        except MpfCrash as e:
            chk.V("relay_fold", "crash_in_relay_or_boolean", exc=repr(e)[:600])
        chk.finish()
        # result oracles
        for pid, P in chk.posts.items():
            if P.type == "relay":
                clauses["relay_fold"] += 1
                exp = dict(P.relay_kwargs)
                if pid in futures:
                    clauses["relay_async_result"] += 1
                    if not futures[pid].done():
                        chk.V("relay_fold", "relay_async_future_not_done", pid=pid)
                        continue
                    got = dict(futures[pid].result())
                else:
                    got = results.get(pid)
                    if got is None:
                        continue     # callback_never_ran is reported by the bus checker
                got = {k: v for k, v in got.items() if k != "ev_result"}
                if got != exp:
                    chk.V("relay_fold", "relay_result_is_not_fold_of_handler_updates", pid=pid, got=got, expected=exp)
            else:
                clauses["boolean_stop"] += 1
                got = results.get(pid)
                if got is None:
                    continue
                if P.stopped and got.get("ev_result") is not False:
                    chk.V("boolean_stop", "boolean_false_not_reported", pid=pid, got=got)
                if not P.stopped and got.get("ev_result") is False:
                    chk.V("boolean_stop", "boolean_reported_false_without_false_handler", pid=pid, got=got)
    allc = dict(chk.clauses)
    allc.update(clauses)
    o = dict(chk.obs)
    o.update(obs)
    rets = "".join(sorted(h[2][0] + h[2][-1] for h in case["handlers"]))
    shape = "R%s|%s" % (rets, "".join(p[0][0] + p[1][-1] for p in case["posts"]))
    return {"violations": chk.viol, "clauses": allc, "shape": shape,
            "nontrivial": (obs["dict_results"] + obs["false_results"]) > 0 and chk.obs["invocations"] > 1, "obs": o}


# =============================================================================================
def _run_modes(case):
    from vlib.boot import VMachine, MpfCrash
    clauses = {"mode_queue_complete": 0, "mode_active_before_complete": 0, "queue_progress": 0}
    obs = {"mode_starts_requested": 0, "modes_started": 0, "wait_queue_modes": 0, "starting_waiters": 0}
    viol = []

    def V(clause, sig, **d):
        if len(viol) < 20:
            viol.append({"clause": clause, "sig": "C02:" + sig, "detail": d})

    cfg = {"modes": [md["name"] for md in case["modes"]]}
    modes = {}
    for md in case["modes"]:
        mc = {"mode": {"start_events": md["start_event"], "stop_events": "stop_all", "game_mode": False,
                       "use_wait_queue": md["use_wait_queue"], "priority": md["priority"]}}
        if md["counter"]:
            mc["counters"] = {"cnt_" + md["name"]: {"count_events": "hit_" + md["name"], "starting_count": 0,
                                                     "count_complete_value": 3}}
        modes[md["name"]] = mc
    with VMachine(cfg, modes=modes) as vm:
        m = vm.machine
        ev = m.events
        st = {"pid": 0, "last": 0.0}
        posts = {}
        for md in case["modes"]:
            if md["starting_waiter"] is not None:
                d = md["starting_waiter"]
                obs["starting_waiters"] += 1

                def waiter(queue, _d=d, **kwargs):
                    queue.wait()
                    st["last"] = max(st["last"], vm.now() + _d)
                    vm.loop.call_later(_d, queue.clear)
                ev.add_handler("mode_%s_starting" % md["name"], waiter, priority=1)
            if md["use_wait_queue"]:
                obs["wait_queue_modes"] += 1
        stopped_count = {md["name"]: 0 for md in case["modes"]}
        accepted = {}     # pid -> {mode name: stopped_count at acceptance}
        for md in case["modes"]:
            def on_stopped(_n=md["name"], **kwargs):
                stopped_count[_n] += 1

            def on_will_start(_n=md["name"], **kwargs):
                # Mode.start re-posts the kwargs of the event that started it: _pid identifies the outer queue event
                if kwargs.get("_pid") is not None:
                    accepted.setdefault(kwargs["_pid"], {})[_n] = stopped_count[_n]
                    obs["mode_starts_requested"] += 1
            ev.add_handler("mode_%s_stopped" % md["name"], on_stopped, priority=1000000)
            ev.add_handler("mode_%s_will_start" % md["name"], on_will_start, priority=1000000)
        wq = {md["name"]: md["use_wait_queue"] for md in case["modes"]}
        try:
            for dt, event, extra in case["posts"]:
                st["pid"] += 1
                pid = st["pid"]
                posts[pid] = {"event": event, "cb": 0, "t": vm.now()}

                def cb(pid=pid, **kwargs):
                    P = posts[pid]
                    P["cb"] += 1
                    for name, cnt in accepted.get(pid, {}).items():
                        if wq[name]:
                            # a mode using the wait queue holds the wait from its start until it has stopped
                            clauses["mode_active_before_complete"] += 1
                            mo = m.modes[name]
                            if stopped_count[name] <= cnt:
                                V("mode_active_before_complete", "queue_event_completed_while_wait_queue_mode_holds_wait",
                                  pid=pid, mode=name, active=mo.active, starting=mo._starting)
                ev.post_queue(event, cb, _pid=pid)
                vm.advance(max(dt, 0.05))
                if extra == "stop_all":
                    ev.post("stop_all")
                    vm.advance(0.5)
            # every wait-queue mode releases its wait when it stops; a later mode on the same queue event only gets
            # its turn then, so stop repeatedly until nothing is left
            for _ in range(2 * len(case["modes"]) * len(case["posts"]) + 2):
                vm.advance(max(0.0, st["last"] - vm.now()) + 1.0)
                ev.post("stop_all")
            vm.advance(max(0.0, st["last"] - vm.now()) + HORIZONS["after_last_clear_s"])
        except MpfCrash as e:
            V("mode_queue_complete", "crash_in_mode_start_queue", exc=repr(e)[:600])
            return {"violations": viol, "clauses": clauses, "shape": "Mcrash", "nontrivial": False, "obs": obs}
        for pid, P in posts.items():
            clauses["mode_queue_complete"] += 1
            if P["cb"] != 1:
                V("mode_queue_complete", "queue_event_with_mode_start_never_completed" if P["cb"] == 0
                  else "queue_callback_ran_twice", pid=pid, event=P["event"],
                  modes=sorted(accepted.get(pid, {})),
                  starting=[n for n, mo in m.modes.items() if getattr(mo, "_starting", False)])
        for md in case["modes"]:
            mo = m.modes[md["name"]]
            clauses["queue_progress"] += 1
            if mo._starting:
                V("queue_progress", "mode_stuck_in_starting", mode=md["name"], use_wait_queue=md["use_wait_queue"],
                  counter=md["counter"], starting_waiter=md["starting_waiter"])
            if stopped_count[md["name"]]:
                obs["modes_started"] += 1
        clauses["queue_progress"] += 1
        if ev._queue_tasks:
            V("queue_progress", "queue_task_left_at_horizon", n=len(ev._queue_tasks))
    shape = "M" + "|".join("%s%s%s%s" % ("W" if md["use_wait_queue"] else "w", "C" if md["counter"] else "c",
                                        "n" if md["starting_waiter"] is None else "s", md["start_event"][-1])
                           for md in case["modes"]) + "|p%d" % len(case["posts"])
    return {"violations": viol, "clauses": clauses, "shape": shape,
            "nontrivial": obs["mode_starts_requested"] > 0 and clauses["mode_queue_complete"] > 0, "obs": obs}
