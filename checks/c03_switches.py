"""C03 — Switch state mirrors the hardware; handlers fire once per real change.

Runtime monitoring of the REAL SwitchController / Switch on MPF's TimeTravelLoop.

Workload: generated timelines over 2-5 NO/NC switches: raw and logical reports (with duplicates) injected where a
platform injects them, recording handlers added/removed through the public API (untimed and with hold times, plain
and wrapped by return_info/callback_kwargs, registered once or several times, and ONE callback registered for
BOTH states of a switch with the same hold time, one of the two removed inside the other's pending hold interval), virtual-time gaps drawn around the
pending deadlines (+-0.5/1 ms and EXACTLY at them), operations scheduled through the loop at exactly a deadline, and
operations performed from inside handler callbacks (reports, adds, removes).

Oracle: a timeline model evaluated post-hoc over one totally ordered log (every operation and every observation has a
sequence number and a virtual time):
  state_mirror        switch.state / is_active / is_inactive == last report (NC inversion for raw reports)
  hw_state            after a real change, switch.hw_state == raw state            (anchor, see ASSUMPTIONS)
  untimed_once        per real change: every untimed registration for the new state invoked exactly once,
                      synchronously inside that report; nothing for the other state
  duplicate_silent    a duplicate report invokes no handler
  muted_silent        a change of a muted switch (Switch.mute) invokes no untimed handler / posts no event, but it
                      ends pending hold intervals like any change (timed_fire)
  timed_fire          per (handler, deadline): fired exactly as often as registrations that saw the whole hold
                      interval (held, not removed, added before the deadline), at change+ms, never otherwise
  removed_silent      every invocation happens while a registration of that callback is live
  events_once         configured events (<sw>_active/_inactive, tag events, events_when_*) handled once per change
  recycle_events      ignore_window_ms switches: documented recycle rule instead of once-per-change
  no_crash            no exception escapes the switch controller / reaches the loop's exception handler
  cb_args             return_info / callback_kwargs handlers receive exactly the promised arguments

Signatures of the mechanisms found on the unrepaired tree (each has a candidate fix in proposed_fixes/):
  C03:timed_handler_added_after_deadline_fires                                   C03_late_add_ms_vs_seconds.patch
  C03:duplicate_timed_handler_survives_remove                                    C03_remove_duplicate_timed_handler.patch
  C03:crash_KeyError_in_process_active_timed_switches_callback_changed_switch    C03_timed_callback_changes_switch.patch
  C03:crash_KeyError_in_process_active_timed_switches_stale_wakeup               C03_stale_timed_wakeup.patch
  C03:timed_handler_fires_though_state_left                                      C03_arm_timed_handlers_before_callbacks.patch
  C03:remove_by_callback_misses_return_info_handler                              C03_remove_return_info_handler_by_callback.patch
"""

PROPERTY = "C03"
LEVEL = "exploration"
LEVEL_TEXT = ("Exploration: the real SwitchController and Switch devices are driven through thousands of generated "
              "timelines (reports x handler registrations/removals x gaps around and exactly at the hold deadlines x "
              "operations from inside callbacks) in virtual time; a timeline model decides every handler invocation "
              "and event. The space of timelines is unbounded, so seeded sampling biased towards deadline "
              "coincidences is the level this family reaches.")
LEVEL_NOTE = ("Trusts MPF's TimeTravelLoop/TestClock for virtual time, the virtual platform for the initial raw states, "
              "and the EventManager for delivering posted events to the recording handlers (C01's subject).")
TECHNIQUE = ("runtime monitoring: recording handlers/event handlers at the public switch API + post-hoc timeline "
             "model over a totally ordered log of operations and observations")
RULE = ("case = one booted machine (2-5 generated NO/NC switches, tags, events_when_*, at most one ignore window) and "
        "20-200 generated operations; distinct = switch-config classes + sequence of operation kinds with hold times "
        "(first 160 ops); non-trivial = state mirror, untimed-once, duplicate-silent, timed-fire and events-once "
        "oracles were all evaluated at least once in the case")
ASSUMPTIONS = [
    "reports carry no explicit timestamp (the platform default: the clock's current time)",
    "no other device is attached to the generated switches; switches are muted/un-muted only through the public "
    "Switch.mute(source)/unmute(source) API (two sources), never the ignore-window switch",
    "a real change of a MUTED switch still updates the state (state_mirror applies) and ends every pending hold "
    "interval (nothing armed for the old state may fire), but invokes no untimed handler and posts no event "
    "(docstring of Switch.mute; clause muted_silent); for the state ENTERED while muted the statement is silent: "
    "hold-time handlers may fire 0 or 1 times at change+ms if nothing else forbids it; a hold armed by an un-muted "
    "change must still fire if the switch stays in the state, whatever the mute status at the deadline",
    "exact coincidences (a change, an add or a remove within 1 us of a deadline; a deadline at the end of the "
    "observation) accept either outcome for that (registration, interval); everything generated is on a 0.5 ms grid "
    "so nothing else is within 1 us",
    "a handler added or removed while its own state's handlers are being dispatched may or may not be called for "
    "that change (0 or 1 times); after the removal returns it must not be called",
    "removing a handler removes every identical registration (same callback, state, ms), as the docstring "
    "('it will remove either / both') and the implementation for the registered list do",
    "remove_switch_handler(name, callback, state, ms) is expected to remove a handler registered with "
    "return_info=True (docstring of remove_switch_handler); it is never used for callback_kwargs registrations, "
    "whose removal by plain callback is undocumented (those are removed by the key returned from add)",
    "a callback object shared by two hold-time registrations (one per state of one switch, same ms) is attributed "
    "to the registration named by return_info's state argument, else to the state of the last report (a hold-time "
    "handler can only be due for the state the switch is in); removing one of the two must not silence the other",
    "about 30 % of the switches run with device debug logging (debug: true, console_log: full or file_log: full); "
    "every clause is the same for them (behaviour must not depend on the log level); all configured event names "
    "have a listener, so 'posted once' is counted as deliveries on the bus",
    "hw_state (raw state, from the anchors/Switch docstring, not the statement) is compared only after the "
    "switch's first real change in the case, because boot never initialises it",
    "switches with ignore_window_ms>0 are checked against the recycle rule (one post when a window opens, a "
    "catch-up post at window close if the state differs from the opening state); a change within 1 us of a "
    "window close ends the evaluation of that switch's events",
    "an exception escaping the switch controller or reaching the loop exception handler (MPF stops) is a violation; "
    "the case ends there (nothing after a crash is judged)",
    "virtual time is kept monotone: TimeTravelLoop would jump BACK to the `when` of a timer armed in the past; such "
    "timers are run at the current instant like a real loop does (counted in observed.timers_scheduled_in_the_past)",
    "a wake-up that re-arms itself for the present instant more than 3000 times is reported as a livelock (on a real "
    "clock it would fire late by a loop iteration); nothing that happens while the machine is torn down is observed",
    "each case reports ONE violation (unexplained signatures first, then the rarer mechanism) because the harness "
    "shrinks a case for its first signature only; all signatures seen are counted in observed['cases_with <sig>']",
]
HORIZONS = {"final_settle_s": 10.0, "max_hold_ms": 2500, "max_scheduled_ahead_s": 3.0}
TIERS = {
    "quick": {"cases": 3000, "batch": 50, "case_timeout": 60},
    "thorough": {"cases": 32000, "batch": 250, "case_timeout": 120},
}
MIN_EVALS = {
    # ~40 % of what seed 0 evaluates on a tree without crashes (cases on a crashing tree stop at the crash)
    "quick": {"state_mirror": 100000, "untimed_once": 8000, "duplicate_silent": 7000, "timed_fire": 20000,
              "removed_silent": 15000, "events_once": 30000, "recycle_events": 4000, "no_crash": 20000},
    "thorough": {"state_mirror": 1500000, "untimed_once": 150000, "duplicate_silent": 120000, "timed_fire": 400000,
                 "removed_silent": 350000, "events_once": 500000, "recycle_events": 70000, "no_crash": 350000},
}
SHRINK_KEYS = ["ops"]

EPS = 1e-6
MS_SET = [1, 50, 100, 1000, 2500]
DTS = [0.0, 0.0, 0.001, 0.0005, 0.01, 0.049, 0.05, 0.051, 0.099, 0.1, 0.101, 0.3, 0.5, 1.0, 2.5, 3.0]
OFFS = [-0.001, -0.0005, 0.0, 0.0, 0.0, 0.0005, 0.001]
FAR = -100000.0


SHRINK_TRIALS_PER_PROCESS = 60
# mechanisms seen on the unrepaired tree, rarest first (a case reports its rarest one; unlisted signatures win)
_COMMON_FIRST = [
    "C03:crash_KeyError_in_process_active_timed_switches_stale_wakeup",
    "C03:duplicate_timed_handler_survives_remove",
    "C03:timed_handler_fires_though_state_left",
    "C03:remove_by_callback_misses_return_info_handler",
    "C03:crash_KeyError_in_process_active_timed_switches_callback_changed_switch",
    "C03:timed_handler_added_after_deadline_fires",
]
_GENERATED = set()
_TRIALS = [0]


def _ops_digest(case):
    import json
    return hash(json.dumps([case.get("switches"), case.get("ops")], sort_keys=True))


# =============================================================================================
# generation
# =============================================================================================
def _gen_switches(rng):
    n = rng.randint(2, 5)
    iw_idx = rng.randrange(n) if rng.random() < 0.6 else -1
    out = []
    for i in range(n):
        s = {"nc": rng.random() < 0.45, "start": rng.random() < 0.25, "iw": 0, "tags": [], "on": [], "off": [],
             "on_t": [], "off_t": [], "dbg": None}
        if rng.random() < 0.3:
            # debug logging of the device: what the switch does must not depend on its log level
            s["dbg"] = rng.choice(["debug", "debug", "debug", "console", "file"])
        if i == iw_idx:
            s["iw"] = rng.choice([100, 300])
            if rng.random() < 0.5:
                s["tags"] = ["tr"]
        else:
            s["tags"] = [t for t in ("ta", "tb") if rng.random() < 0.4]
        if rng.random() < 0.5:
            s["on"] = ["e%d_on" % i]
        if rng.random() < 0.4:
            s["off"] = ["e%d_off" % i]
        if rng.random() < 0.4:
            s["on_t"] = [rng.choice(MS_SET)]
        if rng.random() < 0.3:
            s["off_t"] = [rng.choice(MS_SET)]
        out.append(s)
    return out


class _Sim:
    """The generator's rough idea of the timeline (ignores scheduled and in-callback operations)."""

    def __init__(self, switches):
        self.t = 0.0
        self.st = [1 if s["start"] else 0 for s in switches]
        self.lc = [None] * len(switches)
        self.sw = switches
        self.cbs = {}
        self.next_cb = 0
        self.mut = [set() for _ in switches]


def _gen_report(rng, sim, prefer=None):
    i = prefer if prefer is not None and rng.random() < 0.6 else rng.randrange(len(sim.sw))
    new = sim.st[i] if rng.random() < 0.3 else sim.st[i] ^ 1
    lg = rng.random() < 0.4
    v = new if lg else new ^ (1 if sim.sw[i]["nc"] else 0)
    return {"k": "rep", "sw": i, "v": v, "lg": lg, "via": rng.choice(["name", "num", "num", "obj"])}, i, new


def _gen_add(rng, sim, depth=0, untimed=False):
    i = rng.randrange(len(sim.sw))
    st = sim.st[i] if rng.random() < 0.55 else sim.st[i] ^ 1
    ms = 0 if untimed else rng.choice([0, 0, 0, 1, 50, 50, 100, 100, 1000, 2500])
    ri = rng.random() < 0.15
    kw = rng.random() < 0.15
    cb = sim.next_cb
    sim.next_cb += 1
    op = {"k": "add", "cb": cb, "sw": i, "st": st, "ms": ms, "ri": ri, "kw": kw,
          "via": rng.choice(["name", "obj", "dev"]), "act": None}
    sim.cbs[cb] = {"sw": i, "st": st, "ms": ms, "ri": ri, "kw": kw}
    if depth == 0 and rng.random() < 0.16:
        if rng.random() < 0.4:
            # the handler itself makes the switch leave (or re-enter) the state it is registered for
            new = st ^ 1 if rng.random() < 0.8 else st
            lg = rng.random() < 0.5
            op["act"] = {"k": "rep", "sw": i, "v": new if lg else new ^ (1 if sim.sw[i]["nc"] else 0), "lg": lg,
                         "via": rng.choice(["name", "num", "obj"])}
        else:
            same = [c for c, g in sim.cbs.items() if g["sw"] == i and g["st"] == st and not g["kw"]]
            if same and rng.random() < 0.35:
                # removes a handler of the same switch and state (possibly itself) while they are dispatched/pending
                op["act"] = {"k": "rm", "cb": rng.choice(same), "via": rng.choice(["key", "obj"])}
            else:
                op["act"] = _gen_basic(rng, sim, depth=1, prefer=i)
        op["act_n"] = rng.choice([1, 1, 1, 2])
    return op


def _gen_twin(rng, sim, cb):
    """Register the callback of timed handler `cb` for the OTHER state of the same switch too (same ms)."""
    g = sim.cbs[cb]
    new = sim.next_cb
    sim.next_cb += 1
    sim.cbs[new] = dict(g, st=g["st"] ^ 1, twin=cb)
    g["twin"] = new
    return {"k": "add", "cb": new, "sw": g["sw"], "st": g["st"] ^ 1, "ms": g["ms"], "ri": g["ri"], "kw": False,
            "via": rng.choice(["name", "obj", "dev"]), "act": None, "twin_of": cb}


def _gen_mute_motif(rng, sim):
    """un-muted change into X (hold handlers armed), mute INSIDE the hold interval, leave X while muted, go past
    the deadline (optionally un-muted again): nothing armed for X may fire."""
    cands = [c for c, g in sim.cbs.items() if g["ms"] >= 50 and not sim.sw[g["sw"]]["iw"]]
    tev = [(i, st, ms) for i, sw in enumerate(sim.sw) if not sw["iw"]
           for st, lst in ((1, sw["on_t"]), (0, sw["off_t"])) for ms in lst if ms >= 50]
    if not cands and not tev:
        return []
    if cands and (not tev or rng.random() < 0.6):
        g = sim.cbs[rng.choice(cands)]
        i, st, ms = g["sw"], g["st"], g["ms"]
    else:
        i, st, ms = rng.choice(tev)
    nc = 1 if sim.sw[i]["nc"] else 0
    out = [{"k": "unmute", "sw": i, "src": src} for src in sorted(sim.mut[i])]
    sim.mut[i].clear()

    def report(new):
        lg = rng.random() < 0.4
        sim.st[i], sim.lc[i] = new, sim.t
        return {"k": "rep", "sw": i, "v": new if lg else new ^ nc, "lg": lg, "via": rng.choice(["name", "num", "obj"])}
    if sim.st[i] == st:
        out.append(report(st ^ 1))
    out.append(report(st))
    dt = rng.choice([0.0, 0.001, round(ms / 2000.0, 3)])
    out.append({"k": "adv", "dt": dt})
    sim.t += dt
    src = rng.choice(["a", "b"])
    out.append({"k": "mute", "sw": i, "src": src})
    sim.mut[i].add(src)
    if rng.random() < 0.5:
        dt = rng.choice([0.0, 0.001, round(ms / 4000.0, 3)])
        out.append({"k": "adv", "dt": dt})
        sim.t += dt
    lc = sim.lc[i]
    out.append(report(st ^ 1))
    if rng.random() < 0.3:
        out.append(report(st))          # ... and back, still muted
        lc = None
    if rng.random() < 0.5:
        out.append({"k": "unmute", "sw": i, "src": src})
        sim.mut[i].discard(src)
    if lc is not None:
        # aim just past the deadline of the hold that was ended while muted
        dt = max(0.0, round(lc + ms / 1000.0 + 0.001 - sim.t, 4))
        out.append({"k": "adv", "dt": dt})
        sim.t += dt
    else:
        out.append({"k": "advd", "at": {"sw": i, "ms": ms, "off": 0.001}})
        sim.t = sim.lc[i] + ms / 1000.0 + 0.001
    return out


def _gen_twin_motif(rng, sim):
    """change into state X, then - inside X's hold interval - remove the registration of the same callback for
    the opposite state, then go past the deadline with the switch still in X."""
    pairs = [c for c, g in sim.cbs.items() if g.get("twin") is not None and g["ms"] >= 50]
    if not pairs:
        return []
    cb = rng.choice(pairs)
    g = sim.cbs[cb]
    i, ms = g["sw"], g["ms"]
    new = sim.st[i] ^ 1
    lg = rng.random() < 0.4
    out = [{"k": "rep", "sw": i, "v": new if lg else new ^ (1 if sim.sw[i]["nc"] else 0), "lg": lg,
            "via": rng.choice(["name", "num", "obj"])}]
    sim.st[i], sim.lc[i] = new, sim.t
    dt = rng.choice([0.0, 0.001, round(ms / 2000.0, 3), round(ms / 1000.0 - 0.001, 3)])
    out.append({"k": "adv", "dt": dt})
    sim.t += dt
    other = cb if g["st"] != new else g["twin"]          # the registration for the state the switch is NOT in
    via = rng.choice(["key", "key", "raw", "obj"] if sim.cbs[other]["ri"] else ["key", "keys", "raw", "obj", "dev"])
    out.append({"k": "rm", "cb": other, "via": via})
    out.append({"k": "advd", "at": {"sw": i, "ms": ms, "off": rng.choice([0.0, 0.0005, 0.001])}})
    sim.t = max(sim.t, sim.lc[i] + ms / 1000.0 + 0.001)
    if rng.random() < 0.5:
        out.append({"k": "readd", "cb": other})
    return out


def _gen_rm(rng, sim):
    if not sim.cbs:
        return None
    cb = rng.choice(sorted(sim.cbs))
    g = sim.cbs[cb]
    if g["kw"]:
        via = rng.choice(["key", "keys"])
    elif g["ri"]:
        via = rng.choice(["key", "key", "raw", "obj"])
    else:
        via = rng.choice(["key", "keys", "raw", "obj", "dev"])
    return {"k": "rm", "cb": cb, "via": via}


def _gen_basic(rng, sim, depth=0, prefer=None):
    r = rng.random()
    if r < 0.45:
        op, i, new = _gen_report(rng, sim, prefer)
        if depth == 0:
            if sim.st[i] != new:
                sim.st[i] = new
                sim.lc[i] = sim.t
        return op
    if r < 0.70 or not sim.cbs:
        return _gen_add(rng, sim, depth)
    if r < 0.78:
        return {"k": "readd", "cb": rng.choice(sorted(sim.cbs))}
    return _gen_rm(rng, sim)


def _gen_deadline(rng, sim):
    cands = [i for i in range(len(sim.sw)) if sim.lc[i] is not None]
    if not cands:
        return None
    i = rng.choice(cands)
    pool = [g["ms"] for g in sim.cbs.values() if g["sw"] == i and g["ms"]] + sim.sw[i]["on_t"] + sim.sw[i]["off_t"]
    if sim.sw[i]["iw"]:
        pool.append(sim.sw[i]["iw"])
    ms = rng.choice(pool) if pool and rng.random() < 0.8 else rng.choice(MS_SET)
    return {"sw": i, "ms": ms, "off": rng.choice(OFFS)}


def gen_case(rng, tier, index):
    switches = _gen_switches(rng)
    sim = _Sim(switches)
    n_ops = rng.randint(20, 120) if tier == "quick" else rng.randint(20, 200)
    ops = []
    mute_case = rng.random() < 0.4          # switches are muted/un-muted through Switch.mute()/unmute() in these
    for _ in range(rng.randint(2, 8)):      # prologue: handlers that are present for the whole timeline
        ops.append(_gen_add(rng, sim, untimed=rng.random() < 0.5))
    while len(ops) < n_ops:
        r = rng.random()
        # one callback registered for BOTH states of a switch with the same hold time (e.g. a debounced "changed")
        last = ops[-1]
        if last.get("k") == "add" and last["ms"] and not last["kw"] and last.get("twin_of") is None \
                and sim.cbs[last["cb"]].get("twin") is None and rng.random() < 0.25:
            ops.append(_gen_twin(rng, sim, last["cb"]))
            continue
        if mute_case and rng.random() < 0.07:
            i = rng.randrange(len(switches))
            if not switches[i]["iw"]:
                src = rng.choice(["a", "a", "b"])
                if src in sim.mut[i] or (sim.mut[i] and rng.random() < 0.6):
                    src = rng.choice(sorted(sim.mut[i]))
                    sim.mut[i].discard(src)
                    ops.append({"k": "unmute", "sw": i, "src": src})
                else:
                    sim.mut[i].add(src)
                    ops.append({"k": "mute", "sw": i, "src": src})
                continue
        if mute_case and rng.random() < 0.04:
            motif = _gen_mute_motif(rng, sim)
            if motif:
                ops.extend(motif)
                continue
        if r > 0.95:
            motif = _gen_twin_motif(rng, sim)
            if motif:
                ops.extend(motif)
                continue
        if r < 0.30:
            at = _gen_deadline(rng, sim) if rng.random() < 0.6 else None
            if at is not None:
                target = sim.lc[at["sw"]] + at["ms"] / 1000.0 + at["off"]
                if target >= sim.t:
                    sim.t = target
                    ops.append({"k": "advd", "at": at})
                    continue
            dt = rng.choice(DTS)
            sim.t += dt
            ops.append({"k": "adv", "dt": dt})
        elif r < 0.38:
            at = _gen_deadline(rng, sim) if rng.random() < 0.6 else None
            inner = _gen_basic(rng, sim, depth=1)
            if inner is None:
                continue
            if at is not None:
                ops.append({"k": "sched", "at": at, "op": inner})
            else:
                ops.append({"k": "sched", "dt": rng.choice(DTS), "op": inner})
        else:
            op = _gen_basic(rng, sim)
            if op is not None:
                ops.append(op)
    # operations performed by EVENT handlers (a switch_player / mode reacting to a switch event), first occurrence
    eacts = {}
    if rng.random() < 0.35:
        names = []
        for i, sw in enumerate(switches):
            names += ["s%d_active" % i, "s%d_inactive" % i]
            names += ["e%d_on_t%d" % (i, ms) for ms in sw["on_t"]] * 3
            names += ["e%d_off_t%d" % (i, ms) for ms in sw["off_t"]] * 3
        for _ in range(rng.randint(1, 2)):
            name = rng.choice(names)
            i = int(name[1:].split("_")[0])
            eacts[name] = _gen_basic(rng, sim, depth=1, prefer=i)
    case = {"switches": switches, "ops": ops, "eacts": eacts}
    _GENERATED.add(_ops_digest(case))
    return case


# =============================================================================================
# execution
# =============================================================================================
def _bk(t):
    return int(round(t * 2000.0))


class _Livelock(Exception):
    pass


class _Group:
    __slots__ = ("cb", "sw", "st", "ms", "ri", "kw", "act", "act_n", "fn", "inst", "fires", "calls", "pseudo",
                 "twin")

    def __init__(self, cb, sw, st, ms, ri=False, kw=False, act=None, act_n=1):
        self.cb, self.sw, self.st, self.ms, self.ri, self.kw = cb, sw, st, ms, ri, kw
        self.act, self.act_n = act, act_n
        self.fn = None
        self.inst = []      # dicts: qa, a, qr, r, key, nrm (how many registrations the removal covered)
        self.fires = []     # dicts: q, t, ctx
        self.calls = 0
        self.pseudo = False
        self.twin = None    # group registered with the SAME callback object for the other state (same switch, ms)


class _Rt:
    def __init__(self, case):
        self.case = case
        self.swcfg = case["switches"]
        self.n = len(self.swcfg)
        self.q = 0
        self.groups = {}
        self.reports = []
        self.rep_by_id = {}
        self.changes = [[] for _ in range(self.n)]
        self.stack = []
        self.events = {}
        self.crash = None
        self.harness_exc = None
        self.viol = []
        self.cl = {"state_mirror": 0, "hw_state": 0, "untimed_once": 0, "duplicate_silent": 0, "muted_silent": 0, "timed_fire": 0,
                   "removed_silent": 0, "events_once": 0, "recycle_events": 0, "no_crash": 0, "cb_args": 0}
        self.obs = {"reports": 0, "real_changes": 0, "duplicate_reports": 0, "raw_reports": 0, "nc_reports": 0,
                    "adds": 0, "adds_timed_in_state": 0, "removes": 0, "removes_of_pending": 0,
                    "ops_in_callbacks": 0, "switches_with_debug_logging": 0, "events_once_evals_on_debug_switches": 0, "mute_ops": 0, "changes_while_muted": 0, "muted_change_ends_pending_hold": 0, "twin_registrations": 0, "twin_removed_while_other_pending": 0, "ops_in_event_handlers": 0, "ops_scheduled": 0, "fires_untimed": 0, "fires_timed": 0,
                    "events_seen": 0, "timers_scheduled_in_the_past": 0, "timed_must_fire": 0, "timed_must_not_fire": 0, "timed_either": 0,
                    "timed_mid_interval_adds_decided": 0, "advances": 0}
        self.tr = []
        self.inner_budget = 25
        self.eacts = dict(case.get("eacts") or {})
        self.changed_once = [False] * self.n
        self.muted = [set() for _ in range(self.n)]
        self.done = False

    # -- helpers ------------------------------------------------------------------------
    def nq(self):
        self.q += 1
        return self.q

    def now(self):
        return self.vm.loop.time()

    def log(self, s):
        if len(self.tr) < 3000:
            self.tr.append((self.now(), "%d t=%.4f %s" % (self.q, self.now(), s)))

    def add_viol(self, clause, sig, detail):
        self.viol.append({"clause": clause, "sig": sig, "detail": detail})

    def record_crash(self, exc, where):
        import traceback
        tb = traceback.extract_tb(exc.__traceback__)
        frames = [f for f in tb if "/mpf/" in f.filename.replace("\\", "/") and "/mpf/tests/" not in f.filename]
        if not frames:
            # not raised inside mpf: a harness bug, never a verdict
            raise exc
        last = frames[-1]
        line = last.line or ""
        token = ""
        if "_timed_switch_handler_delay" in line or "for k in list(" in line:
            token = "_stale_wakeup"                  # a wake-up ran whose bookkeeping was already consumed/cancelled
        elif "_active_timed_switches" in line or "timed_switches[k]" in line:
            token = "_callback_changed_switch"       # pending table deleted under the running loop
        if self.crash is None:
            self.crash = {"type": type(exc).__name__, "exc": repr(exc)[:200], "func": last.name, "line": line[:160],
                          "token": token, "where": where, "t": self.now(),
                          "tb": ["%s:%d %s" % (f.filename.split("/mpf/")[-1], f.lineno, f.name) for f in frames[-6:]]}
            self.log("CRASH %s in %s (%s)" % (type(exc).__name__, last.name, where))

    # -- configuration ------------------------------------------------------------------
    def config(self):
        sws = {}
        start = []
        self.ev_src = {}      # untimed event -> list of (sw, state)
        self.ev_timed = []    # (event, sw, state, ms)
        for i, s in enumerate(self.swcfg):
            name = "s%d" % i
            d = {"number": str(i + 1), "type": "NC" if s["nc"] else "NO"}
            if s["tags"]:
                d["tags"] = ", ".join(s["tags"])
            if s["iw"]:
                d["ignore_window_ms"] = int(s["iw"])
            dbg = s.get("dbg")
            if dbg == "debug":
                d["debug"] = True
            elif dbg == "console":
                d["console_log"] = "full"
            elif dbg == "file":
                d["file_log"] = "full"
            on = list(s["on"])
            off = list(s["off"])
            for ms in s["on_t"]:
                ev = "e%d_on_t%d" % (i, ms)
                on.append("%s|%dms" % (ev, ms))
                self.ev_timed.append((ev, i, 1, ms))
            for ms in s["off_t"]:
                ev = "e%d_off_t%d" % (i, ms)
                off.append("%s|%dms" % (ev, ms))
                self.ev_timed.append((ev, i, 0, ms))
            if on:
                d["events_when_activated"] = ", ".join(on)
            if off:
                d["events_when_deactivated"] = ", ".join(off)
            sws[name] = d
            if s["start"]:
                start.append(name)
            self.ev_src.setdefault(name + "_active", []).append((i, 1))
            self.ev_src.setdefault(name + "_inactive", []).append((i, 0))
            for tag in s["tags"]:
                self.ev_src.setdefault("sw_" + tag, []).append((i, 1))
                self.ev_src.setdefault("sw_" + tag + "_active", []).append((i, 1))
                self.ev_src.setdefault("sw_" + tag + "_inactive", []).append((i, 0))
            for ev in s["on"]:
                self.ev_src.setdefault(ev, []).append((i, 1))
            for ev in s["off"]:
                self.ev_src.setdefault(ev, []).append((i, 0))
        cfg = {"switches": sws}
        if start:
            cfg["virtual_platform_start_active_switches"] = ", ".join(start)
        return cfg

    def _event_recorder(self, name):
        rt = self

        def handler(**kwargs):
            if rt.done:
                return
            try:
                rt.events[name].append((rt.nq(), rt.now()))
                rt.log("EVENT %s" % name)
                act = rt.eacts.pop(name, None)
                if act is not None and rt.crash is None:
                    rt.obs["ops_in_event_handlers"] += 1
                    rt.do_basic(act, "in-event-handler " + name)
            except BaseException:       # noqa
                import traceback
                if rt.harness_exc is None:
                    rt.harness_exc = traceback.format_exc()
        return handler

    # -- time ---------------------------------------------------------------------------
    def make_time_monotone(self):
        """TimeTravelLoop sets its clock to the `when` of the closest timer even if that lies in the past, i.e.
        virtual time runs BACKWARDS when production code calls call_at(<past>).  A real loop runs such a callback
        at once at the current time.  Register past-due timers at the current time instead (the handle keeps its
        own `when`), so that observations are stamped with the time at which they would really happen."""
        loop = self.vm.loop
        base_call_at = type(loop).__mro__[1].call_at
        rt = self

        spin = [None, 0]

        def call_at(when, callback, *args, **kwargs):
            now = loop.time()
            if when <= now:
                # livelock guard: a wake-up that re-arms itself for the present instant forever (virtual time
                # cannot pass; on a real clock it would fire one loop iteration late)
                if spin[0] != now:
                    spin[0], spin[1] = now, 0
                spin[1] += 1
                if spin[1] > 3000:
                    raise _Livelock("more than 3000 timers armed for the present instant t=%r" % now)
            if when < now:
                rt.obs["timers_scheduled_in_the_past"] += 1
                loop._timers.add(now)
            else:
                loop._timers.add(when)
            return base_call_at(loop, when, callback, *args, **kwargs)
        loop.call_at = call_at

    def advance_to(self, target):
        import asyncio
        loop = self.vm.loop
        t = self.vm.t
        if target < loop.time():
            target = loop.time()
        fut = loop.create_future()

        def _done():
            if not fut.done():
                fut.set_result(None)
        loop.call_at(target, _done)
        self.obs["advances"] += 1
        try:
            loop.run_until_complete(fut)
            for _ in range(20):
                if not loop._ready or t._exception:
                    break
                loop.run_until_complete(asyncio.sleep(0))
        except RuntimeError:
            if not t._exception:
                raise
        ctx = t._exception
        if ctx:
            t._exception = None
            exc = ctx.get("exception")
            if exc is None:
                raise RuntimeError("loop exception handler without exception: %r" % (ctx,))
            self.record_crash(exc, "loop")
        self.cl["no_crash"] += 1
        if self.crash is None:
            self.log("ADV -> %.4f" % self.now())
            self.check_states()

    def deadline_target(self, at):
        i = at["sw"]
        if i >= self.n:
            return None
        ch = self.changes[i]
        if not ch:
            return None
        return ch[-1]["t"] + at["ms"] / 1000.0 + at["off"]

    # -- state oracle -------------------------------------------------------------------
    def check_states(self, only=None):
        sc = self.m.switch_controller
        for i in (range(self.n) if only is None else [only]):
            sw = self.sw[i]
            want = self.mstate[i]
            got = (sw.state, bool(sc.is_active(sw)), bool(sc.is_inactive(sw)))
            self.cl["state_mirror"] += 1
            if got != (want, want == 1, want == 0):
                nc = self.swcfg[i]["nc"]
                last = self.last_rep[i]
                sig = "C03:state_differs_from_last_report"
                if last is not None and nc:
                    sig = "C03:nc_%s_report_state_wrong" % ("logical" if last["lg"] else "raw")
                self.add_viol("state_mirror", sig,
                              {"switch": sw.name, "nc": nc, "want_state": want, "got": list(got), "last_report": last,
                               "t": self.now(), "history": self.history(i)})
            if self.changed_once[i]:
                self.cl["hw_state"] += 1
                raw = want ^ (1 if self.swcfg[i]["nc"] else 0)
                if sw.hw_state != raw:
                    self.add_viol("hw_state", "C03:hw_state_differs_from_raw_state",
                                  {"switch": sw.name, "nc": self.swcfg[i]["nc"], "want_raw": raw, "got": sw.hw_state,
                                   "last_report": self.last_rep[i], "history": self.history(i)})

    def history(self, i=None, cb=None, limit=40, upto=None):
        """Log lines about switch i / callback cb (up to virtual time `upto`), newest last."""
        key = None if i is None else "s%d" % i
        out = [l for t, l in self.tr if (upto is None or t <= upto + EPS) and
               ((key is None or key in l or "CRASH" in l) or (cb is not None and ("cb%d " % cb) in l))]
        return out[-limit:]

    # -- operations ---------------------------------------------------------------------
    def do_basic(self, op, where):
        if self.crash is not None or not isinstance(op, dict):
            return
        k = op.get("k")
        if k == "rep":
            self.do_report(op, where)
        elif k == "add":
            self.do_add(op, where)
        elif k == "readd":
            g = self.groups.get(op["cb"])
            if g is not None and not g.pseudo:
                self.register(g, "obj", where)
        elif k == "rm":
            self.do_rm(op, where)
        elif k in ("mute", "unmute"):
            self.do_mute(op, where)

    def do_mute(self, op, where):
        i = op["sw"]
        if i >= self.n or self.swcfg[i]["iw"]:
            return          # the recycle rule of an ignore-window switch under mute is not modelled: never muted
        src = str(op.get("src", "a"))
        self.nq()
        try:
            if op["k"] == "mute":
                self.muted[i].add(src)
                self.sw[i].mute(src)
            else:
                self.muted[i].discard(src)
                self.sw[i].unmute(src)
        except Exception as e:      # noqa
            self.record_crash(e, "mute/" + where)
        self.obs["mute_ops"] += 1
        self.log("%s s%d source=%s -> %s (%s)" % (op["k"].upper(), i, src,
                                                  "MUTED" if self.muted[i] else "not muted", where))
        if self.crash is None and bool(self.sw[i].is_muted) != bool(self.muted[i]):
            self.add_viol("state_mirror", "C03:is_muted_differs_from_mute_calls",
                          {"switch": "s%d" % i, "sources": sorted(self.muted[i]), "is_muted": self.sw[i].is_muted})

    def do_report(self, op, where):
        i = op["sw"]
        if i >= self.n:
            return
        sw = self.sw[i]
        sc = self.m.switch_controller
        v, lg = int(op["v"]), bool(op["lg"])
        nc = 1 if self.swcfg[i]["nc"] else 0
        new = v if lg else v ^ nc
        real = self.mstate[i] != new
        rid = len(self.reports)
        rec = {"rid": rid, "sw": i, "new": new, "real": real, "t": self.now(), "qs": self.nq(), "qe": None,
               "v": v, "lg": lg, "via": op.get("via"), "where": where, "muted": bool(self.muted[i])}
        self.reports.append(rec)
        self.last_rep[i] = {"v": v, "lg": lg, "via": op.get("via"), "t": rec["t"]}
        self.obs["reports"] += 1
        self.obs["raw_reports"] += 0 if lg else 1
        self.obs["nc_reports"] += nc
        if real:
            if rec["muted"]:
                self.obs["changes_while_muted"] += 1
                for g in self.groups.values():
                    if g.sw == i and g.ms and g.st != new and self.changes[i] and not self.changes[i][-1]["muted"] \
                            and any(x["qr"] is None for x in g.inst) and \
                            self.changes[i][-1]["t"] + g.ms / 1000.0 > rec["t"] + EPS:
                        self.obs["muted_change_ends_pending_hold"] += 1
                        break
            self.mstate[i] = new
            self.changes[i].append(rec)
            self.changed_once[i] = True
            self.obs["real_changes"] += 1
        else:
            self.obs["duplicate_reports"] += 1
        self.log("REPORT#%d s%d v=%d %s -> state %d %s%s (%s)" % (rid, i, v, "logical" if lg else "raw", new,
                                                                  "CHANGE" if real else "duplicate",
                                                                  " while MUTED" if rec["muted"] else "", where))
        self.stack.append(rid)
        try:
            via = op.get("via")
            if via == "name":
                sc.process_switch(sw.name, v, logical=lg)
            elif via == "obj":
                sc.process_switch_obj(sw, v, lg)
            else:
                sc.process_switch_by_num(sw.hw_switch.number, v, sw.hw_switch.platform, logical=lg)
        except Exception as e:      # noqa
            self.record_crash(e, "report/" + where)
        finally:
            self.stack.pop()
            rec["qe"] = self.nq()
        if self.crash is None:
            self.check_states(only=i)

    def make_fn(self, g):
        rt = self

        def recorder(*args, **kwargs):
            # a callback shared by two registrations (one per state): return_info tells the state; otherwise a
            # hold-time handler can only be due for the state the switch is in (last report)
            tgt = g
            if g.twin is not None:
                st = kwargs.get("state") if g.ri and "state" in kwargs else rt.mstate[g.sw]
                tgt = g if st == g.st else g.twin
            rt.on_fire(tgt, args, kwargs)
        recorder.__name__ = "cb%d" % g.cb
        return recorder

    def do_add(self, op, where):
        cb = op["cb"]
        if op["sw"] >= self.n:
            return
        g = self.groups.get(cb)
        if g is None:
            g = _Group(cb, op["sw"], int(op["st"]), int(op["ms"]), bool(op.get("ri")), bool(op.get("kw")),
                       op.get("act"), int(op.get("act_n") or 1))
            o = self.groups.get(op.get("twin_of")) if op.get("twin_of") is not None else None
            if o is not None and o.twin is None and o.ms and not o.kw and not o.pseudo and \
                    (o.sw, o.ms, o.ri, o.kw, 1 - o.st) == (g.sw, g.ms, g.ri, g.kw, g.st):
                g.fn, g.twin, o.twin = o.fn, o, g       # the very same callback object, other state
                self.obs["twin_registrations"] += 1
            else:
                g.fn = self.make_fn(g)
            self.groups[cb] = g
        self.register(g, op.get("via"), where)

    def register(self, g, via, where):
        sc = self.m.switch_controller
        sw = self.sw[g.sw]
        idx = len(g.inst)
        inst = {"qa": self.nq(), "a": self.now(), "qr": None, "r": None, "key": None, "nrm": 0, "idx": idx,
                "rvia": None}
        g.inst.append(inst)
        self.obs["adds"] += 1
        if g.ms and self.mstate[g.sw] == g.st:
            self.obs["adds_timed_in_state"] += 1
        self.log("ADD cb%d #%d s%d st=%d ms=%d%s%s (%s)" % (g.cb, idx, g.sw, g.st, g.ms, " ri" if g.ri else "",
                                                           " kw" if g.kw else "", where))
        kwargs = {"inst": idx} if g.kw else None
        try:
            if via == "name":
                inst["key"] = sc.add_switch_handler(sw.name, g.fn, g.st, g.ms, g.ri, kwargs)
            elif via == "dev":
                inst["key"] = sw.add_handler(g.fn, g.st, g.ms, g.ri, kwargs)
            else:
                inst["key"] = sc.add_switch_handler_obj(sw, g.fn, g.st, g.ms, g.ri, kwargs)
        except Exception as e:      # noqa
            self.record_crash(e, "add/" + where)

    def do_rm(self, op, where):
        g = self.groups.get(op["cb"])
        if g is None or g.pseudo:
            return
        sc = self.m.switch_controller
        sw = self.sw[g.sw]
        via = op.get("via")
        live = [x for x in g.inst if x["qr"] is None]
        wrapped = g.ri or g.kw
        if via in ("key", "keys"):
            if not g.inst:
                return
            target = live[-1] if live else g.inst[-1]      # removing an already removed handler must be a no-op
            covered = ([target] if wrapped else live) if live else []
        else:
            if g.kw:
                return      # undocumented combination, never generated (see ASSUMPTIONS)
            target = None
            covered = live
        q, t = self.nq(), self.now()
        for x in covered:
            x["qr"], x["r"], x["nrm"], x["rvia"] = q, t, len(covered), via
        self.obs["removes"] += 1
        if g.ms and covered and self.mstate[g.sw] == g.st and self.changes[g.sw] and \
                self.changes[g.sw][-1]["t"] + g.ms / 1000.0 > t:
            self.obs["removes_of_pending"] += 1
        o = g.twin
        if o is not None and covered and self.mstate[o.sw] == o.st and self.changes[o.sw] and \
                any(x["qr"] is None for x in o.inst) and self.changes[o.sw][-1]["t"] + o.ms / 1000.0 > t + EPS:
            self.obs["twin_removed_while_other_pending"] += 1
        self.log("REMOVE cb%d via %s covering %d registration(s) (%s)" % (g.cb, via, len(covered), where))
        try:
            if via == "key":
                sc.remove_switch_handler_by_key(target["key"])
            elif via == "keys":
                sc.remove_switch_handler_by_keys([target["key"]])
            elif via == "raw":
                sc.remove_switch_handler(sw.name, g.fn, g.st, g.ms)
            elif via == "dev":
                sw.remove_handler(g.fn, g.st, g.ms)
            else:
                sc.remove_switch_handler_obj(sw, g.fn, g.st, g.ms)
        except Exception as e:      # noqa
            self.record_crash(e, "remove/" + where)

    def on_fire(self, g, args, kwargs):
        if self.done:
            return
        try:
            g.calls += 1
            f = {"q": self.nq(), "t": self.now(), "ctx": self.stack[-1] if self.stack else None,
                 "inst": kwargs.get("inst") if g.kw else None}
            g.fires.append(f)
            self.obs["fires_timed" if g.ms else "fires_untimed"] += 1
            self.log("FIRE cb%d (s%d st=%d ms=%d) ctx=%s" % (g.cb, g.sw, g.st, g.ms, f["ctx"]))
            if g.ri or g.kw:
                self.cl["cb_args"] += 1
                ok = not args
                if g.ri:
                    ok = ok and kwargs.get("switch_name") == "s%d" % g.sw and kwargs.get("state") == g.st and \
                        kwargs.get("ms") == g.ms
                if g.kw:
                    ok = ok and isinstance(kwargs.get("inst"), int)
                if not ok:
                    self.add_viol("cb_args", "C03:callback_arguments_wrong",
                                  {"cb": g.cb, "args": repr(args), "kwargs": repr(kwargs), "ri": g.ri, "kw": g.kw})
            elif args or kwargs:
                self.add_viol("cb_args", "C03:callback_arguments_wrong",
                              {"cb": g.cb, "args": repr(args), "kwargs": repr(kwargs), "ri": g.ri, "kw": g.kw})
            if g.act is not None and g.calls == g.act_n and self.inner_budget > 0 and self.crash is None:
                self.inner_budget -= 1
                self.obs["ops_in_callbacks"] += 1
                self.do_basic(g.act, "in-callback cb%d" % g.cb)
        except BaseException as e:      # noqa
            import traceback
            if self.harness_exc is None:
                self.harness_exc = traceback.format_exc()

    def schedule(self, op):
        inner = op.get("op")
        if "at" in op:
            target = self.deadline_target(op["at"])
            if target is None:
                target = self.now()
        else:
            target = self.now() + float(op.get("dt", 0.0))
        if target < self.now():
            target = self.now()
        rt = self

        def run_scheduled():
            if rt.done:
                return
            try:
                rt.obs["ops_scheduled"] += 1
                rt.do_basic(inner, "scheduled")
            except BaseException:       # noqa
                import traceback
                if rt.harness_exc is None:
                    rt.harness_exc = traceback.format_exc()
        self.vm.loop.call_at(target, run_scheduled)
        self.log("SCHEDULE at %.4f: %s" % (target, (inner or {}).get("k")))

    def top(self, op):
        k = op.get("k")
        if k == "adv":
            self.advance_to(self.now() + float(op["dt"]))
        elif k == "advd":
            target = self.deadline_target(op["at"])
            self.advance_to(self.now() if target is None else target)
        elif k == "sched":
            self.schedule(op)
        else:
            self.do_basic(op, "top")

    # -- run ----------------------------------------------------------------------------
    def run(self):
        from vlib.boot import VMachine
        cfg = self.config()
        with VMachine(config=cfg) as vm:
            self.vm = vm
            self.m = vm.machine
            self.sw = [self.m.switches["s%d" % i] for i in range(self.n)]
            self.mstate = [int(s.state) for s in self.sw]
            self.init_state = list(self.mstate)
            self.debug_sw = set(i for i, s in enumerate(self.sw) if getattr(s, "_debug", False))
            self.obs["switches_with_debug_logging"] += len(self.debug_sw)
            self.last_rep = [None] * self.n
            for name in list(self.ev_src) + [e[0] for e in self.ev_timed]:
                self.events[name] = []
                self.m.events.add_handler(name, self._event_recorder(name))
            self.t0 = self.now()
            self.make_time_monotone()
            self.check_states()
            for op in self.case["ops"]:
                if self.crash is not None or self.harness_exc:
                    break
                self.top(op)
            if self.crash is None and not self.harness_exc:
                self.advance_to(self.now() + HORIZONS["final_settle_s"])
            self.t_end = self.now()
            self.done = True        # tearing the machine down runs the loop again: nothing after t_end is an observation
        if self.harness_exc:
            raise RuntimeError("harness error inside a callback:\n" + self.harness_exc)
        return self.finish()

    # =========================================================================================
    # post-hoc oracle
    # =========================================================================================
    def episodes(self, i, st):
        """Intervals during which switch i was in state st: dicts c, qs, e, qe (e/qe None = still open)."""
        out = []
        cur = None
        if self.init_state[i] == st:
            cur = {"c": FAR, "qs": -1, "e": None, "qe": None, "initial": True, "muted": False}
        for ch in self.changes[i]:
            if cur is not None:
                cur["e"], cur["qe"] = ch["t"], ch["qs"]
                out.append(cur)
                cur = None
            if ch["new"] == st:
                cur = {"c": ch["t"], "qs": ch["qs"], "e": None, "qe": None, "initial": False,
                       "muted": ch["muted"]}
        if cur is not None:
            out.append(cur)
        return out

    def alt_instances(self, g):
        """The registrations of g as they would be if removing a return_info registration through the
        plain-callback API had had no effect (the mechanism of C03:remove_by_callback_misses_return_info_handler).
        None if that mechanism cannot be involved.  Used ONLY to choose the signature of a violation."""
        if g.pseudo or not g.ri or g.kw:
            return None
        if not any(x["rvia"] in ("raw", "obj", "dev") for x in g.inst):
            return None
        return [dict(x, qr=None, r=None) if x["rvia"] in ("raw", "obj", "dev") else x for x in g.inst]

    def eval_live(self, g, label):
        """removed_silent: every invocation needs a live registration.  Returns the fires that pass."""
        ok = []
        for f in g.fires:
            self.cl["removed_silent"] += 1
            cands = g.inst
            if g.kw and isinstance(f.get("inst"), int) and f["inst"] < len(g.inst):
                cands = [g.inst[f["inst"]]]         # callback_kwargs identify the registration
            live = [x for x in cands if x["qa"] < f["q"] and (x["qr"] is None or x["qr"] > f["q"])]
            if live:
                ok.append(f)
                continue
            before = [x for x in cands if x["qr"] is not None and x["qr"] < f["q"]]
            alt = self.alt_instances(g)
            if before and alt and any(x["qa"] < f["q"] and x["qr"] is None for x in alt):
                sig = "C03:remove_by_callback_misses_return_info_handler"
            elif before and max(x["nrm"] for x in before) >= 2 and g.ms:
                sig = "C03:duplicate_timed_handler_survives_remove"
            elif before and g.ms:
                sig = "C03:removed_timed_handler_fires"
            elif before:
                sig = "C03:removed_handler_fires"
            else:
                sig = "C03:handler_fires_before_registration"
            self.add_viol("removed_silent", sig,
                          {"handler": label, "switch": "s%d" % g.sw, "state": g.st, "ms": g.ms, "fire": f,
                           "registrations": [{k: v for k, v in x.items() if k != "key"} for x in g.inst],
                           "history": self.history(g.sw, g.cb, upto=f["t"])})
        return ok

    def timed_buckets(self, g, instances, count):
        ms = g.ms
        buckets = {}
        for inst in instances:
            for E in self.episodes(g.sw, g.st):
                if E["qe"] is not None and inst["qa"] >= E["qe"]:
                    continue
                if inst["qr"] is not None and inst["qr"] <= E["qs"]:
                    continue
                d = E["c"] + ms / 1000.0
                if d > self.t_end + EPS:
                    continue
                if E["initial"] and inst["qa"] < E["qs"]:
                    continue        # in the state since before boot and registered at boot: nothing to observe
                never, must, why = False, True, []
                if E["e"] is not None:
                    if E["e"] < d - EPS:
                        never = True
                        why.append("left_state_before_deadline")
                    elif E["e"] <= d + EPS:
                        must = False
                        why.append("change_at_deadline")
                if inst["qr"] is not None:
                    if inst["r"] < d - EPS:
                        never = True
                        why.append("removed_before_deadline")
                    elif inst["r"] <= d + EPS:
                        must = False
                        why.append("removed_at_deadline")
                mid = inst["qa"] > E["qs"]
                if mid:
                    if inst["a"] > d + EPS:
                        never = True
                        why.append("added_after_deadline")
                    elif inst["a"] >= d - EPS:
                        must = False
                        why.append("added_at_deadline")
                    else:
                        why.append("added_mid_interval")
                if abs(d - self.t_end) <= EPS:
                    must = False
                if E["muted"]:
                    # the switch entered the state while muted: that change dispatches nothing (mute docstring) and
                    # the statement is silent on hold handlers for it: 0 or 1.  Leaving the state, a removal or a
                    # late add still forbid the fire.
                    must = False
                    why.append("state_entered_while_muted")
                b = buckets.setdefault(_bk(d), {"lo": 0, "hi": 0, "n": 0, "pairs": [], "d": d})
                if never:
                    self.obs["timed_must_not_fire"] += count
                elif must:
                    b["lo"] += 1
                    b["hi"] += 1
                    self.obs["timed_must_fire"] += count
                else:
                    b["hi"] += 1
                    self.obs["timed_either"] += count
                if mid and (never or must):
                    self.obs["timed_mid_interval_adds_decided"] += count
                b["pairs"].append({"reg": inst["idx"], "removed_together": inst["nrm"],
                                   "change_t": E["c"], "left_t": E["e"], "added_t": inst["a"],
                                   "removed_t": inst["r"], "verdict": "never" if never else "must" if must else "either",
                                   "why": why})
        return buckets

    def eval_timed(self, label, g, fires):
        ms = g.ms
        buckets = self.timed_buckets(g, g.inst, 1)
        for f in fires:
            b = buckets.setdefault(_bk(f["t"]), {"lo": 0, "hi": 0, "n": 0, "pairs": [], "d": None})
            b["n"] += 1
            b.setdefault("fires", []).append(f)
        alt = self.alt_instances(g)
        alt_buckets = self.timed_buckets(g, alt, 0) if alt else {}
        for key, b in sorted(buckets.items()):
            self.cl["timed_fire"] += 1
            if b["lo"] <= b["n"] <= b["hi"]:
                continue
            whys = set(w for p in b["pairs"] for w in p["why"] if p["verdict"] == "never")
            if b["n"] < b["lo"]:
                mids = [p for p in b["pairs"] if p["verdict"] == "must" and "added_mid_interval" in p["why"]]
                sig = "C03:mid_interval_added_timed_handler_missed" if mids and len(mids) >= b["lo"] - b["n"] and \
                    all("added_mid_interval" in p["why"] for p in b["pairs"] if p["verdict"] == "must") \
                    else "C03:timed_handler_missed"
            elif key in alt_buckets and b["hi"] < b["n"] <= alt_buckets[key]["hi"]:
                sig = "C03:remove_by_callback_misses_return_info_handler"
            elif any(p["verdict"] == "never" and "removed_before_deadline" in p["why"] and
                     p["removed_together"] >= 2 for p in b["pairs"]):
                sig = "C03:duplicate_timed_handler_survives_remove"
            elif "left_state_before_deadline" in whys:
                sig = "C03:timed_handler_fires_though_state_left"
            elif "added_after_deadline" in whys:
                sig = "C03:timed_handler_added_after_deadline_fires"
            elif "removed_before_deadline" in whys:
                sig = "C03:removed_timed_handler_fires"
            elif not b["pairs"]:
                t = b["fires"][0]["t"]
                late = False
                for inst in g.inst:
                    if abs(inst["a"] - t) <= EPS:
                        for E in self.episodes(g.sw, g.st):
                            if E["qs"] < inst["qa"] and (E["qe"] is None or E["qe"] > inst["qa"]) and \
                                    E["c"] + ms / 1000.0 < inst["a"] - EPS:
                                late = True
                sig = "C03:timed_handler_added_after_deadline_fires" if late else \
                    "C03:timed_handler_fires_at_wrong_time"
            elif b["hi"] > 0:
                sig = "C03:timed_handler_fires_more_than_once"
            else:
                sig = "C03:timed_handler_fires_unexpectedly"
            self.add_viol("timed_fire", sig,
                          {"handler": label, "switch": "s%d" % g.sw, "state": g.st, "ms": ms,
                           "time_bucket_s": key / 2000.0, "deadline": b["d"], "fired": b["n"],
                           "allowed": [b["lo"], b["hi"]], "pairs": b["pairs"][:6], "fires": b.get("fires", [])[:4],
                           "history": self.history(g.sw, g.cb if not g.pseudo else None, upto=key / 2000.0)})

    @staticmethod
    def untimed_bounds(instances, rep):
        lo = hi = 0
        for x in instances:
            if x["qa"] < rep["qs"]:
                if x["qr"] is None or x["qr"] > rep["qe"]:
                    lo += 1
                    hi += 1
                elif x["qr"] > rep["qs"]:
                    hi += 1
            elif x["qa"] < rep["qe"]:
                hi += 1
        return lo, hi

    def eval_untimed(self, g):
        label = "cb%d" % g.cb
        by_ctx = {}
        for f in g.fires:
            by_ctx.setdefault(f["ctx"], []).append(f)
            rep = self.rep_by_id.get(f["ctx"])
            if rep is None or rep["sw"] != g.sw:
                self.add_viol("untimed_once", "C03:untimed_handler_invoked_outside_change",
                              {"handler": label, "switch": "s%d" % g.sw, "state": g.st, "fire": f,
                               "history": self.history(g.sw, g.cb)})
        for rep in self.reports_by_sw[g.sw]:
            n = len(by_ctx.get(rep["rid"], ()))
            if not rep["real"]:
                if n:
                    self.add_viol("duplicate_silent", "C03:duplicate_report_invokes_handler",
                                  {"handler": label, "switch": "s%d" % g.sw, "state": g.st, "report": rep, "calls": n,
                                   "history": self.history(g.sw, g.cb)})
                continue
            if rep["muted"]:
                self.cl["muted_silent"] += 1
                if n:
                    self.add_viol("muted_silent", "C03:change_of_muted_switch_invokes_handler",
                                  {"handler": label, "switch": "s%d" % g.sw, "state": g.st, "report": rep, "calls": n,
                                   "history": self.history(g.sw, g.cb, upto=rep["t"])})
                continue
            if rep["new"] != g.st:
                if n:
                    self.add_viol("untimed_once", "C03:handler_invoked_for_other_state",
                                  {"handler": label, "switch": "s%d" % g.sw, "state": g.st, "report": rep, "calls": n,
                                   "history": self.history(g.sw, g.cb)})
                continue
            lo, hi = self.untimed_bounds(g.inst, rep)
            if hi == 0 and n == 0:
                continue
            self.cl["untimed_once"] += 1
            if lo <= n <= hi:
                continue
            sig = "C03:untimed_handler_missed" if n < lo else "C03:untimed_handler_invoked_more_than_once"
            alt = self.alt_instances(g)
            if n > hi and alt:
                lo2, hi2 = self.untimed_bounds(alt, rep)
                if n <= hi2:        # every excess call is explained by a registration that could not be removed
                    sig = "C03:remove_by_callback_misses_return_info_handler"
            self.add_viol("untimed_once", sig,
                          {"handler": label, "switch": "s%d" % g.sw, "state": g.st, "report": rep, "calls": n,
                           "allowed": [lo, hi], "history": self.history(g.sw, g.cb, upto=rep["t"])})

    def eval_events(self):
        recycle = set(i for i, s in enumerate(self.swcfg) if s["iw"])
        for name, src in sorted(self.ev_src.items()):
            sws = set(i for i, _ in src)
            seen = self.events.get(name, [])
            self.obs["events_seen"] += len(seen)
            if sws & recycle:
                if len(sws) == 1:
                    self.eval_recycle(name, src[0][0], src[0][1], seen)
                continue
            exp = {}
            for i, st in src:
                for ch in self.changes[i]:
                    if ch["new"] == st and not ch["muted"]:      # a muted change dispatches nothing, also no events
                        exp[_bk(ch["t"])] = exp.get(_bk(ch["t"]), 0) + 1
                        if i in self.debug_sw:
                            self.obs["events_once_evals_on_debug_switches"] += 1
            got = {}
            for q, t in seen:
                got[_bk(t)] = got.get(_bk(t), 0) + 1
            for key in sorted(set(exp) | set(got)):
                e, n = exp.get(key, 0), got.get(key, 0)
                self.cl["events_once"] += max(e, 1)
                if e == n:
                    continue
                t = key / 2000.0
                dup = [r for i in sws for r in self.reports_by_sw[i] if not r["real"] and _bk(r["t"]) == key]
                if n > e and dup:
                    sig = "C03:duplicate_report_posts_event"
                elif n > e:
                    sig = "C03:event_posted_more_than_once" if e else "C03:event_posted_without_change"
                else:
                    sig = "C03:event_not_posted"
                self.add_viol("events_once", sig, {"event": name, "t": t, "expected": e, "seen": n,
                                                   "sources": src, "history": self.history(src[0][0], upto=t)})

    def eval_recycle(self, name, i, st, seen):
        w = self.swcfg[i]["iw"] / 1000.0
        posts = []
        clear = None
        open_state = None
        cur = self.init_state[i]
        taint = None
        for ch in self.changes[i]:
            t = ch["t"]
            if clear is not None and clear < t - EPS:
                if cur != open_state:
                    posts.append((clear, cur))
                clear = None
            if clear is not None and abs(clear - t) <= EPS:
                taint = t
                break
            if clear is None:
                posts.append((t, ch["new"]))
                clear = t + w
                open_state = ch["new"]
            cur = ch["new"]
        if taint is None and clear is not None:
            if clear < self.t_end - EPS:
                if cur != open_state:
                    posts.append((clear, cur))
            else:
                taint = clear
        limit = None if taint is None else _bk(taint) - 1
        exp, got = {}, {}
        for t, s in posts:
            if s == st:
                exp[_bk(t)] = exp.get(_bk(t), 0) + 1
        for q, t in seen:
            got[_bk(t)] = got.get(_bk(t), 0) + 1
        for key in sorted(set(exp) | set(got)):
            if limit is not None and key > limit:
                continue
            e, n = exp.get(key, 0), got.get(key, 0)
            self.cl["recycle_events"] += 1
            if e != n:
                sig = "C03:recycle_event_missing" if n < e else "C03:recycle_event_unexpected"
                self.add_viol("recycle_events", sig,
                              {"event": name, "switch": "s%d" % i, "ignore_window_ms": self.swcfg[i]["iw"],
                               "t": key / 2000.0, "expected": e, "seen": n, "model_posts": posts[:12],
                               "history": self.history(i, upto=key / 2000.0)})

    def finish(self):
        if self.crash is not None:
            c = self.crash
            sig = "C03:crash_%s_in_%s%s" % (c["type"], c["func"].strip("_"), c["token"])
            if c["type"] == "_Livelock":
                sig = "C03:timed_wakeup_rearms_itself_forever_in_%s" % c["func"].strip("_")
            self.viol = [v for v in self.viol if v["clause"] in ("state_mirror", "hw_state")]
            self.viol.insert(0, {"clause": "no_crash", "sig": sig,
                                 "detail": dict(c, history=self.history(limit=40))})
        else:
            self.rep_by_id = {r["rid"]: r for r in self.reports}
            self.reports_by_sw = [[r for r in self.reports if r["sw"] == i] for i in range(self.n)]
            for r in self.reports:
                if not r["real"]:
                    self.cl["duplicate_silent"] += 1
            for cb in sorted(self.groups):
                g = self.groups[cb]
                saved = g.fires
                g.fires = self.eval_live(g, "cb%d" % cb)
                if g.ms:
                    self.eval_timed("cb%d" % cb, g, g.fires)
                else:
                    self.eval_untimed(g)
                g.fires = saved
            for ev, i, st, ms in self.ev_timed:
                pg = _Group(-1, i, st, ms)
                pg.pseudo = True
                pg.inst = [{"qa": -2, "a": FAR * 2, "qr": None, "r": None, "key": None, "nrm": 0, "idx": 0, "rvia": None}]
                fires = [{"q": q, "t": t, "ctx": None} for q, t in self.events.get(ev, [])]
                self.obs["events_seen"] += len(fires)
                self.eval_timed("event " + ev, pg, fires)
            self.eval_events()
        seen, uniq = set(), []
        for v in self.viol:
            if v["sig"] not in seen:
                seen.add(v["sig"])
                uniq.append(v)
                self.obs["cases_with " + v["sig"]] = 1
        # ONE violation per case: vlib.worker shrinks a case for its FIRST signature only but files the shrunk
        # case under every signature of the record, so replays of the other signatures would not reproduce.
        # Order: signatures nobody has explained yet, then the rarer mechanisms, listed known findings last.
        # (the per-signature case counts of everything seen are in the evidence under observed["cases_with ..."])
        import os
        known = set(os.environ.get("VERIF_KNOWN_SIGS", "").split(","))
        uniq.sort(key=lambda v: (v["sig"] in known, _COMMON_FIRST.index(v["sig"]) if v["sig"] in _COMMON_FIRST else -1))
        all_sigs = [v["sig"] for v in uniq]
        uniq = uniq[:1]
        if uniq:
            uniq[0]["detail"]["all_signatures_in_this_case"] = all_sigs
        cl = self.cl
        nontrivial = (self.crash is None and cl["state_mirror"] > 0 and cl["untimed_once"] > 0 and
                      cl["duplicate_silent"] > 0 and cl["timed_fire"] > 0 and cl["events_once"] > 0)
        return {"violations": uniq, "clauses": cl, "shape": _shape(self.case), "nontrivial": nontrivial,
                "obs": self.obs, "trace": [l for _, l in self.tr[-25:]] if uniq else None}


def _shape(case):
    sw = "".join(("C" if s["nc"] else "O") + ("a" if s["start"] else "") + ("w" if s["iw"] else "") +
                 ("d" if s.get("dbg") else "") +
                 str(len(s["tags"])) for s in case["switches"])
    out = []
    for op in case["ops"][:160]:
        k = op.get("k")
        if k == "rep":
            out.append("L" if op["lg"] else "R")
        elif k in ("mute", "unmute"):
            out.append("M" if k == "mute" else "m")
        elif k == "add":
            out.append("A%d%s%s%s" % (op["ms"], "!" if op.get("act") else "",
                                      "w" if op.get("ri") or op.get("kw") else "", "=" if op.get("twin_of") is not None else ""))
        elif k == "readd":
            out.append("D")
        elif k == "rm":
            out.append("X")
        elif k == "adv":
            out.append("t")
        elif k == "advd":
            out.append("T%+d" % int(round(op["at"]["off"] * 2000)))
        elif k == "sched":
            out.append("S" + str((op.get("op") or {}).get("k", ""))[:2])
    return sw + "|" + "".join(out)


def run_case(case):
    # Bound the generic shrinker: vlib.worker shrinks EVERY violating case of an unlisted signature for up to 20 s;
    # on a tree where most cases violate that is hours.  A case that gen_case did not produce in this process is a
    # shrink candidate; after SHRINK_TRIALS_PER_PROCESS of them further candidates are answered "no violation"
    # without being run (the shrinker then keeps its best case so far).  Replays and generated cases always run.
    if _GENERATED and _ops_digest(case) not in _GENERATED:
        _TRIALS[0] += 1
        if _TRIALS[0] > SHRINK_TRIALS_PER_PROCESS:
            return {"violations": [], "clauses": {}, "shape": "", "nontrivial": False,
                    "obs": {"shrink_candidates_not_run": 1}}
    return _Rt(case).run()
