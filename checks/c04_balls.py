"""C04 — Ball counts agree with the physical machine and are conserved.

Runtime monitoring: the real ball devices / playfield / ball controller run on MPF's virtual clock against an
independent physical world (vlib/c04_world.py) that only sees coil commands at the platform driver interface and
only answers with raw switch reports.  Oracles (vlib/c04_common.py):
  rest_device_count / rest_playfield_count / rest_conservation : after the world has been frozen for H=200 virtual s
      and every device is idle, MPF's counts must equal the world's;
  range   : after EVERY loop iteration 0 <= device.balls <= capacity, playfield.balls not below the documented bound;
  no_room : at every coil-driven launch the physical target must have a free slot.
Case family "multi_pf" (vlib/c04_multipf.py, ~12% of the cases): 2-4 playfields each fed by its own trough, balls jump
into another playfield's trough; the rest oracles are the same clauses, the playfield clause is membership in the set of
count vectors a correct MPF can hold (the donor of a jumped ball is MPF's choice) plus at most one playfield_jump event
per trough entry that can be a jump.
"""
PROPERTY = "C04"
LEVEL = "exploration"
TECHNIQUE = ("runtime monitoring: real BallDevice/Playfield/BallController on TimeTravelLoop against an independent "
             "physical world (coil commands in, raw switch reports out); equality oracle at rest points, range "
             "invariants after every loop iteration, room check at every launch")
RULE = ("case = generated topology (trough 2-6 switches with pulse/enable coil, or Gottlieb-style entrance-counted "
        "trough with entrance_switch_full_timeout whose filling ball rests on the entrance switch; 1- or 2-ball coil "
        "launcher; optional three-device chain trough -> launcher -> staging device -> playfield with requests while "
        "the launcher's ball is in flight and fall-back/late faults on that hop; no/coil/mechanical/auto+manual plunger; "
        "switch-, entrance- or hold-coil lock; drain device; playfield VUK feeding the plunger; count delays, "
        "timeouts) x physics seed x holds of the balldevice_<src>_ball_eject_attempt queue event (0..10 s, as diverters "
        "do) x unsolicited entries (loose ball rolls back into the plunger lane, lock/VUK shots) while a source waits "
        "x fault schedule per device x script of game/player actions with rest points; distinct = topology kind, "
        "ball count, op-kind sequence, fault pattern; non-trivial = at least one rest point was reached with the "
        "world frozen for the full horizon and all three rest clauses were evaluated.  About 12% of the cases are "
        "of the family multi_pf (vlib/c04_multipf.py): 2-4 playfields, each fed by its own switch-counted 2-3 switch "
        "trough holding 1-3 balls, script of add (playfield.add_ball) / drain (loose ball falls into its own "
        "playfield's trough) / jump (loose ball falls into the trough of ANOTHER playfield) / rest with gaps 0-5 s, "
        "biased towards jumps into a playfield without a loose ball while two or more other playfields hold one")
LEVEL_TEXT = ("Exploration: thousands of generated timelines of the unmodified production classes; the world decides "
              "every physical outcome, the oracle compares MPF's counts with physical truth at rest points and checks "
              "range invariants after every loop iteration.  The space of timings is unbounded, hence sampling.")
LEVEL_NOTE = ("Trusts the world model (vlib/c04_world.py) as a faithful envelope of what a real machine can do, MPF's "
              "own TimeTravelLoop/TestClock, and the virtual platform's driver/switch interface.")
ASSUMPTIONS = [
    "all balls start in ball devices at boot (num_balls_known is then the number of balls that exist)",
    "one physical exit per device leading to one place: no diverters, no playfield transfers; every family except "
    "multi_pf has one playfield",
    "multi_pf family: each playfield is fed by its own trough (eject_targets / captures_from that playfield); a "
    "jumping ball lands in another playfield's trough; MPF cannot know which playfield a ball came from: a ball "
    "entering the trough of a playfield MPF counts > 0 is taken from that playfield, otherwise exactly ONE ball is "
    "taken from any other playfield that MPF counts > 0 - the donor choice is MPF's, the oracle tracks the set of all "
    "count vectors reachable that way and demands membership at rest (equality with the physical loose counts "
    "whenever the set is the single physical vector), at most one playfield_jump event per trough entry that can be "
    "a jump and never source == target; playfield counts may be transiently negative between rest points",
    "multi_pf family: an ejected ball rolls over its playfield's <pf>_active switch 0.7-1.2 s after leaving the "
    "trough; a loose ball only drains / jumps after MPF confirmed its eject, no ball enters any trough while any "
    "eject is requested / in flight / unconfirmed, and no ball is requested earlier than 2 s after the last trough "
    "entry (so confirmations and captures never interleave ambiguously); ejects of different troughs and entries "
    "into different troughs may overlap; no game is running",
    "a coil pulse / hold-coil release moves exactly one ball; no jam switches; no switch bounce shorter than the "
    "count delays; a resting ball closes exactly one ball switch",
    "entrance-counted devices get no undetectable faults (weak eject / fall back cannot be sensed by an entrance "
    "switch) and two balls never pass one entrance switch at the same time (the second queues behind the first)",
    "a launched ball never arrives later than eject timeout + 0.8 x ball_missing_timeout (later = 'stray': it ends "
    "loose on the playfield); an early fall back is back in the source and counted there before the eject timeout",
    "a ball that reaches a device without a free slot bounces out and ends loose on the playfield; the script never "
    "sends a loose ball into a physically full device",
    "playfield.balls may be transiently negative by at most (devices with an eject in progress) + (balls the player "
    "plunged less than exit_count_delay + 1.2 s ago): a ball MPF launched or has not yet missed can be captured by "
    "another device before its eject is confirmed; persisting to a rest point is a violation",
    "'no room' counts the target's balls that rest there for more than entrance_count_delay + 1 s plus balls MPF "
    "itself launched towards it that are on time (a late ball which MPF may already have given up is not counted)",
    "equality is only demanded when every ball device is idle after the world was frozen (no physical change and no "
    "coil command) for H virtual seconds; a device that is not idle then is C05's subject",
    "handlers hold the ball_eject_attempt queue event for at most 10 virtual s; a ball that rolled into a purely "
    "mechanical plunger lane rests there until the world's player plunges it (<= 40 s)",
    "Gottlieb trough: capacity == balls installed; the ball that fills it rests on the entrance switch until a ball "
    "is ejected, then the switch opens 50-150 ms later; drains into it are spaced around settle_time / full timeout",
    "coil test: the harness pulses a trough/lock eject coil 1-3 times through the public Driver API while the device "
    "is most likely idle; balls kicked out that way may leave playfield.balls negative until exit_count_delay + "
    "idle_missing_ball_timeout (+1.5 s) after the last such pulse of that device",
    "no ball enters an entrance-counted device during the 10-80 ms in which an ejected ball is on its way out (an "
    "entrance switch cannot tell such a ball from one that fills the device)",
    "'no room' also fires when MPF launches towards a device whose own most recent kick is physically falling back "
    "into it while MPF still has that eject unconfirmed (state ball_left/failed_confirm) and the returning ball fills "
    "the last slot; a fall back of an eject MPF already confirmed (e.g. by playfield timeout) is not counted",
    "entrance-counted locks may have two entrance lanes (one switch each) and an entrance_switch_ignore_window_ms; each "
    "entering ball takes one lane; two balls never pass the SAME lane closer together than the ignore window + 0.25 s "
    "(the second queues), different lanes are independent",
    "three-device chains may have a trough with confirm_eject_type switch (the ball rolls over a switch right behind "
    "the exit for ok/late/stray kicks) feeding a two-ball stager whose slow eject can outlast the trough's "
    "ball_missing_timeout; balls still expected at some target (pending incoming balls) widen the playfield lower bound",
    "ball search is left at its default (disabled); a loose ball at a rest point sits still (no switch hits)",
]
HORIZONS = {"rest_horizon_virtual_s": 200, "settle_cap_virtual_s": 4000}
TIERS = {"quick": {"cases": 640, "batch": 10, "case_timeout": 120},
         "thorough": {"cases": 12000, "batch": 50, "case_timeout": 120}}
MIN_EVALS = {"quick": {"rest_device_count": 1500, "rest_playfield_count": 800, "rest_conservation": 800,
                       "range": 500000, "no_room": 1000},
             "thorough": {"rest_device_count": 50000, "rest_playfield_count": 20000, "rest_conservation": 20000,
                          "range": 20000000, "no_room": 20000}}
SHRINK_KEYS = ["ops"]


def gen_case(rng, tier, index):
    from vlib import c04_common as C
    if rng.random() < 0.12:
        from vlib import c04_multipf as MP
        return MP.gen_case(rng, tier)
    r = rng.random()
    if r < 0.30:
        level, fault = 0, 0
    elif r < 0.55:
        level, fault = 1, 0
    elif r < 0.80:
        level, fault = rng.choice([0, 1]), 1
    else:
        level, fault = 1, 2
    topo = C.gen_topology(rng, level)
    n_ops = rng.randint(6, 22 if tier == "quick" else 40)
    ops = C.gen_ops(rng, topo, n_ops, rests=rng.randint(1, 3))
    phys = C.gen_phys(rng, topo, fault)
    return {"topo": topo, "phys": phys, "ops": ops, "level": level, "fault": fault}


def run_case(case):
    if case.get("family") == "multi_pf":
        from vlib import c04_multipf as MP
        return MP.run_case(case)
    from vlib import c04_common as C
    res = C.run_world_case(case, C.H_C04)
    viol = [v for v in res["violations"] if v["sig"].startswith("C04:")]
    clauses = {k: res["clauses"][k] for k in C.C04_CLAUSES}
    return {"violations": viol, "clauses": clauses, "shape": C.shape_of(case),
            "nontrivial": clauses["rest_device_count"] > 0 and clauses["rest_conservation"] > 0 and
            clauses["range"] > 0,
            "obs": res["obs"], "trace": res["trace"]}
