"""C05 — Ball requests make progress: no lost or stuck ejects (restated as bounded progress in virtual time).

Same world and runner as C04 (vlib/c04_world.py, vlib/c04_common.py).  After the last physical change the world is
frozen for H=300 virtual s (> max_eject_attempts x (eject + missing timeout) + 60 s incoming-ball timeout); then
  idle_or_broken  : every device is idle, or reported itself broken, or waits for something that physically cannot come;
  request_served  : no queued ball request remains while a source on a path has an available ball;
  delivery        : for every final target, requests issued <= balls physically delivered + still queued + reported
                    missing/failed;
  retry_or_report : every physically failed coil eject is followed by another coil command or a failed/missing/broken
                    event of that device;
  saved_delivered : every ball a ball save announced has physically arrived on the playfield since (or is still
                    queued / blocked / reported lost or failed); a running game whose devices are all idle with nothing
                    queued does not count more balls in play than there are balls outside trough and drain device;
  save_requested  : every ball a ball save announced (ball_save_<name>_saving_ball, balls=n) has been requested for the
                    playfield by that ball save (Playfield.add_ball called from BallSave) - eject_delay <= 8 s is far
                    inside the horizon.
"""
PROPERTY = "C05"
LEVEL = "exploration"
TECHNIQUE = ("runtime monitoring: real ball devices against an independent physical world; bounded-progress oracle "
             "in virtual time at frozen-world horizons, request/delivery accounting at the ball-request boundary")
RULE = ("case = generated topology x physics seed x fault schedule (failure runs 0..max_eject_attempts+1) x holds of "
        "the ball_eject_attempt queue event x script of requests (ball start, ball save with/without eject_delay and "
        "balls_to_save 1/2/3/unlimited, multiball start/add incl. bursts of close drains under an active save, lock "
        "release, request_ball, manual eject events incl. second/third requests while the first eject is still "
        "running on a 2-ball launcher whose first kicks fail, game end collect) with "
        "rest points; distinct = topology kind, ball count, op-kind sequence, fault pattern; non-trivial = a frozen "
        "horizon was reached and the idle and delivery clauses were evaluated with at least one request issued")
LEVEL_TEXT = ("Exploration of a liveness property restated as bounded progress: 'eventually' is decided H=300 virtual "
              "seconds after the world stopped changing; anything later is out of reach and not claimed.")
LEVEL_NOTE = ("Trusts the world model, MPF's TimeTravelLoop, and that H exceeds every configured timeout chain "
              "(eject timeout <= 10 s, missing timeout <= 30 s, incoming timeout 60 s, max 3 attempts).")
ASSUMPTIONS = [
    "liveness restated as bounded progress: verdict at H=300 virtual s after the last physical change / coil command",
    "the world's player always plunges a ball resting in a mechanical plunger within a bounded delay (<= 40 s)",
    "a device waiting for a ball while no device on any path to it physically holds one, or waiting for a target that "
    "is physically full, is not counted as stuck (the request cannot be served)",
    "after any device reported itself broken the remaining clauses are not evaluated for that case",
    "requests are counted at the outermost public entry point (Playfield.add_ball, BallDevice.eject/request_ball/"
    "setup_player_controlled_eject); MPF's own re-routing of unexpected balls and replacement requests after a lost "
    "ball are not requests; delivery is checked for under-delivery only",
    "each balldevice_*_ball_missing event, each final ball_eject_failed event, each eject still blocked by a full "
    "target, each late fall back (ball returns to its source after the eject timeout: indistinguishable from a new "
    "ball once MPF confirmed or gave up), each stray ball MPF takes for one that skipped a mechanical plunger and each "
    "failed eject MPF confirmed because another ball reached the target meanwhile excuses one request",
    "a physically failed eject counts as handled when the coil fires again, the player plunges again, MPF posts a "
    "failed/missing/broken event, MPF treats a stray ball as having skipped a mechanical plunger, or another ball "
    "reached the target and MPF confirmed with it",
    "a ball save's announced saves are matched against Playfield.add_ball calls made from BallSave code (caller "
    "identified on the call stack); ball saves are configured without ball_locks; about 30 % of the cases use "
    "delayed_eject_events (saved balls held back until an event) - the script fires that event, often after the "
    "save's enable event was fired again, and the runner fires it once more 0.5 s before every rest, so a held back "
    "ball has always been released when the world is frozen",
    "saved_delivered counts balls that physically arrived on the playfield after an MPF/player launch since the first "
    "announced save, with the same excuses as the delivery clause; its balls-in-play part is evaluated only with a "
    "running game, all devices idle, nothing queued/blocked, no ball reported missing/failed, no late fall back and no "
    "coil test, and counts every ball outside trough/drain device as possibly in play",
    "handlers hold balldevice_<dev>_ball_eject_attempt for 0..10 virtual s (like diverters do); never indefinitely",
    "request_served also flags a request parked in the private queue of a device nothing feeds (lock, playfield VUK) "
    "while an idle trough/plunger/drain device on a path to its target has an available ball - only in cases without "
    "lost-ball handling, coil-test pulses or ball_holds (which may legitimately leave such requests)",
    "multiballs with ball_locks are combined with a multiball_lock (mode device), not with a ball_hold",
    "while the loop spins at one instant the virtual clock is moved to the next scheduled timer (as real time would "
    "pass), for at most 120 forced seconds per episode; only a spin that survives that is a livelock",
    "locks accept a manual request_ball event that can never be served (nothing feeds a lock); such a request stays "
    "queued at the lock and is excused by the delivery/request_served clauses; it sits in front of the plunger/trough in "
    "handler registration order, so every balldevice_balls_available notification has to get past it",
    "the script may decide that the next kick of a device goes astray (op 'fault'); three-device chains get a burst "
    "'ball for the staging device lost between trough and launcher, drains back, then a further request'",
    "a stuck waiting_for_ball after ball_missing handling carries the known-finding signature only if a mechanical-eject "
    "device exists or a replacement request is parked at a device nothing feeds; otherwise "
    "'..._after_lost_ball_path_restore'",
    "with a confirm switch a lost ball is reported by the target (balldevice_<target>_ball_missing); the delivery clause "
    "is not evaluated for a mechanical plunger once MPF took a ball for one that skipped it",
    "zero_time_livelock: 100000 loop iterations without the virtual clock advancing (deterministic, not wall clock)",
    "same physical envelope as C04 (no diverters, one ball per pulse, no jam switches, entrance devices without "
    "undetectable faults, bounce on overflow)",
]
HORIZONS = {"progress_horizon_virtual_s": 300, "settle_cap_virtual_s": 4000}
TIERS = {"quick": {"cases": 640, "batch": 10, "case_timeout": 120},
         "thorough": {"cases": 12000, "batch": 50, "case_timeout": 120}}
MIN_EVALS = {"quick": {"idle_or_broken": 1500, "delivery": 600, "retry_or_report": 100, "save_requested": 150,
                       "saved_delivered": 300},
             "thorough": {"idle_or_broken": 40000, "delivery": 20000, "retry_or_report": 2500, "save_requested": 3000,
                          "saved_delivered": 5000}}
SHRINK_KEYS = ["ops"]


def gen_case(rng, tier, index):
    from vlib import c04_common as C
    r = rng.random()
    if r < 0.25:
        level, fault = rng.choice([0, 1]), 0
    elif r < 0.65:
        level, fault = rng.choice([0, 1]), 1
    else:
        level, fault = 1, 2
    topo = C.gen_topology(rng, level)
    if fault and rng.random() < 0.5:
        for d in topo["devices"]:
            if rng.random() < 0.5:
                d["max_eject_attempts"] = rng.randint(1, 3)
    n_ops = rng.randint(6, 22 if tier == "quick" else 40)
    ops = C.gen_ops(rng, topo, n_ops, rests=rng.randint(1, 2))
    phys = C.gen_phys(rng, topo, fault)
    _held_back_save(rng, topo, ops)      # last: the draws above stay what they were
    return {"topo": topo, "phys": phys, "ops": ops, "level": level, "fault": fault}


def _held_back_save(rng, topo, ops):
    """About 30 % of all cases: the ball save holds saved balls back until an event (delayed_eject_events), and the
    script drains a ball under the armed save, (often) fires the save's enable event again while the saved ball is
    still held back, and then fires the delayed eject event.  (The runner fires it once more before every rest.)"""
    import random
    r = random.Random(rng.getrandbits(32))
    bs = topo.get("logic", {}).get("ball_save")
    if not bs or r.random() >= 0.45:
        return
    bs["delayed_eject"] = True
    bs["eject_delay_ms"] = 0
    bs["balls_to_save"] = r.choice([1, 1, 1, 2, 2, -1])
    bs["auto_launch"] = r.random() < 0.7
    slow = any(d["name"] == "bd_plunger" and d["ejector"] in ("mech", "mech_coil") for d in topo["devices"])

    def held_back(start):
        seq = [["start"]] if start else []
        seq += [["wait", 45.0 if slow else r.choice([12.0, 12.0, 25.0])], ["ev", "ev_save_enable", 0.2]]
        for _ in range(r.choice([1, 1, 1, 2])):
            seq.append(["drain", r.choice([0.2, 0.6, 1.5, 4.0])])
            seq.append(["wait", r.choice([0.6, 1.5, 4.0])])
            if r.random() < 0.65:
                seq.append(["ev", "ev_save_enable", r.choice([0.0, 0.1, 0.6, 4.0])])    # armed again meanwhile
        if r.random() < 0.3:
            seq.append(["rest"])        # (the runner fires the delayed eject event before it freezes the world)
        else:
            seq += [["ev", "ev_save_eject", r.choice([0.1, 0.6, 4.0, 9.0])], ["wait", r.choice([12.0, 25.0, 45.0])]]
        return seq

    starts = [i for i, o in enumerate(ops) if o[0] == "start"]
    # right after the first game start (fresh game, ball 1) and sometimes again later in the script
    if starts and r.random() < 0.85:
        i = starts[0] + 1
        ops[i:i] = held_back(False)
    if not starts or r.random() < 0.4:
        i = r.randint(starts[0] + 1 if starts else 0, len(ops))
        ops[i:i] = held_back(True)
    for _ in range(r.randint(0, 2)):
        ops.insert(r.randint(0, len(ops)), ["ev", "ev_save_eject", r.choice(C_DTS)])


C_DTS = [0.0, 0.2, 1.5, 4.0, 9.0]


def run_case(case):
    from vlib import c04_common as C
    res = C.run_world_case(case, C.H_C05)
    viol = [v for v in res["violations"] if v["sig"].startswith("C05:")]
    clauses = {k: res["clauses"][k] for k in C.C05_CLAUSES}
    return {"violations": viol, "clauses": clauses, "shape": C.shape_of(case),
            "nontrivial": clauses["idle_or_broken"] > 0 and clauses["delivery"] > 0,
            "obs": res["obs"], "trace": res["trace"]}
