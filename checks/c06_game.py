"""C06 — Game lifecycle: turns, balls and lifecycle events are well-formed.

One case = one booted machine (real Game / Attract / Tilt modes, real EventManager, MPF's TimeTravelLoop; no ball
devices: balls are drained by posting the real `ball_drain` relay event) playing 1-3 generated games.  In ~40 % of
the cases `game: balls_per_game` is a dynamic template (operator setting `settings.balls_per_game` or machine variable
`machine.c06_bpg`) whose value is changed between the games played on the same booted machine; the reference
automaton takes balls_per_game as it evaluates when each game starts.  In ~35 % of the cases the playfield is
PHYSICAL (as in MPF's own MpfFakeGameTestCase: playfield.add_ball puts a ball on it, a drain takes the unsaved balls
off it), so a ball ended by request stays on the playfield, the next ball start has to wait for it
(wait_for_empty_playfields_on_ball_start) and must go on within a bounded time once it has drained.  Requests
(drain, saved drain, balls added to play, extra-ball award, player add with/without denial, end_ball, end_game,
slam tilt, tilt) are injected
  * from a mid-priority handler of a chosen occurrence of each lifecycle event (so they land inside every gap,
    including inside the queue events), and
  * from the top level after generated virtual-time steps (the loop is frequently stopped mid-instant),
while other handlers hold the lifecycle queue events (and player_adding) for generated delays.

Monitor: highest- and lowest-priority recording handlers on the 19 lifecycle events feed an ONLINE reference
automaton (vlib/c06_model.py): grammar/nesting, player and ball numbers, round-robin order, balls per turn vs
extra balls, legitimacy of every ball end and game end, bounded progress after a drain-to-zero / end request,
balls_in_play range sampled after every loop iteration, and machine.game / restart after game_ended.
"""

PROPERTY = "C06"
LEVEL = "exploration"
LEVEL_TEXT = ("Exploration: thousands of generated games on the real Game/Attract/Tilt modes in virtual time, each "
              "lifecycle event checked online against a reference automaton with player/ball counters. The space "
              "(requests x lifecycle gaps x queue delays x rosters) is unbounded; requests are injected into every "
              "gap of the lifecycle, but only sampled combinations of them are run.")
LEVEL_NOTE = ("Trusts MPF's EventManager ordering (C01/C02) to deliver the recording handlers in priority order, the "
              "TimeTravelLoop as clock, and a device-less playfield (ball_drain relay events stand for the drain "
              "device; balls_in_play is the game's own counter). Tolerances are listed in assumptions.")
TECHNIQUE = ("runtime monitoring: online reference automaton (push-down grammar + counters + set-valued balls-in-play "
             "model) over recorded lifecycle-event handler invocations, with request injection from inside handlers")
RULE = ("case = one machine, 1-3 games (balls_per_game constant, or a setting/machine-variable template changed "
        "between games), generated hook ops (event, occurrence, request), queue holds and a timed "
        "top-level script; distinct = roster/balls config + multiset of (lifecycle event, request kind) injections + "
        "top-level request kinds; non-trivial = a game ran to game_ended, at least one request was injected from "
        "inside a lifecycle handler, and the turn-order, ball-end-cause and grammar oracles were all evaluated")
ASSUMPTIONS = [
    "a drain or balls-in-play change that arrives between ball_will_start and ball_started may or may not count "
    "(the statement does not say when a starting ball becomes live); all splits are accepted",
    "an end_ball/end_game/tilt request that arrives while no ball exists (turn start, rotation gap, game start) may "
    "or may not end the next ball; a request between ball_will_start and ball_will_end must end that ball: "
    "ball_will_end has to be dispatched at the same virtual instant (1e-6 s) as the request / the drain to zero, "
    "or as ball_started if the ball was still starting (nothing but our own queue holds consumes virtual time)",
    "after end_game/slam tilt: pending extra balls may or may not be played; the open turn may finish; no further "
    "turn may start (one more turn is accepted if the request arrived between two turns)",
    "tilt/slam tilt is only required to end the ball if no tilt/slam/end_game was requested earlier in that game "
    "(Tilt.tilt() documents that it ignores requests while tilted/ending)",
    "requests that reach the game object before its game_will_start is dispatched only widen what is accepted",
    "an extra ball awarded after the last handler of ball_ended may be played in this turn, the player's next "
    "turn, or (last turn) never; one awarded earlier must be played before the turn ends",
    "player-add requests are accepted or refused at the game's discretion (max_players is not part of the "
    "statement; roster > max_players is only counted in obs); an accepted add must still leave the turn order "
    "round-robin by ball number with every ball number <= balls_per_game",
    "a new game is requested only >= 1 virtual second after game_ended; the first automatic player add is never denied",
    "queue holds (0-2.5 s) are placed on the six lifecycle queue events only; player_adding is never held (it is not "
    "one of the lifecycle events the statement quantifies over), requests are still injected from inside it",
    "no ball devices; num_balls_known is fixed per case (1-4). Cases without a physical playfield: add_ball is a "
    "no-op and drains of balls that do not exist are posted too (clamp). Cases with a physical playfield: add_ball "
    "/ balls-added-to-play put balls on it, only balls that are on it can drain, saved balls stay on it, tilt and "
    "slam tilt are not generated (Tilt waits for drain-tagged ball devices, which do not exist here)",
    "physical playfield: once the playfield is empty and the handlers of ball_will_start are done, ball_starting "
    "must be dispatched within 5 virtual seconds (the game polls once per second)",
    "a dynamic balls_per_game (setting / machine variable) is only changed while no game is active (>= 1 s after "
    "game_ended, before the start request); each game must use the value configured when it starts",
]
HORIZONS = {"ball_end_s": 1e-6, "ball_start_after_playfield_empty_s": 5.0, "final_drain_step_s": 3, "after_end_settle_s": 1, "max_queue_hold_s": 2.5}
TIERS = {
    "quick": {"cases": 1600, "batch": 25, "case_timeout": 60},
    "thorough": {"cases": 40000, "batch": 250, "case_timeout": 120},
}
MIN_EVALS = {"quick": {"grammar": 90000, "turn_order": 6000, "ball_number": 6000, "extra_ball": 7000, "args": 60000,
                       "ball_end_cause": 7000, "ball_end_progress": 7000, "game_end_legit": 1600,
                       "end_request_honoured": 6000, "bip_range": 500000, "after_end": 2400, "nesting": 90000,
                       "game_progress": 1600, "bpg_change": 400,
                       "ball_start_progress": 600},
             "thorough": {"grammar": 2000000, "turn_order": 130000, "ball_number": 130000, "extra_ball": 150000,
                          "args": 1300000, "ball_end_cause": 150000, "ball_end_progress": 150000,
                          "game_end_legit": 36000, "end_request_honoured": 130000, "bip_range": 10000000,
                          "after_end": 50000, "nesting": 2000000, "game_progress": 36000, "bpg_change": 10000,
                          "ball_start_progress": 15000}}
SHRINK_KEYS = ["hooks", "holds", "timeline"]

_LC = [
    "game_will_start", "game_starting", "game_started",
    "player_turn_will_start", "player_turn_starting", "player_turn_started",
    "ball_will_start", "ball_starting", "ball_started",
    "ball_will_end", "ball_ending", "ball_ended",
    "player_turn_will_end", "player_turn_ending", "player_turn_ended",
    "game_will_end", "game_ending", "game_ended",
]
_HOOK_EVENTS = _LC + ["player_adding"]
# player_adding is NOT held: the statement quantifies over delays on the *lifecycle* queue events only
_QUEUE = ["game_starting", "player_turn_starting", "ball_starting", "ball_ending", "player_turn_ending", "game_ending"]
_ABBR = {"game_will_start": "gws", "game_starting": "gsg", "game_started": "gsd", "player_turn_will_start": "tws",
         "player_turn_starting": "tsg", "player_turn_started": "tsd", "ball_will_start": "bws", "ball_starting": "bsg",
         "ball_started": "bsd", "ball_will_end": "bwe", "ball_ending": "beg", "ball_ended": "bed",
         "player_turn_will_end": "twe", "player_turn_ending": "teg", "player_turn_ended": "ted",
         "game_will_end": "gwe", "game_ending": "geg", "game_ended": "ged", "player_adding": "pag"}

TILT_MODE = {"tilt": {"tilt_slam_tilt_events": "do_slam", "tilt_events": "do_tilt", "settle_time": "0"}}
# two ordinary game modes so that the mode controller's ball_starting/ball_ending queue handlers (stop modes at ball
# end, restart_on_next_ball bookkeeping in the player) take part in every ball
GAME_MODE_1 = {"mode": {"start_events": "ball_started", "priority": 100}}
GAME_MODE_2 = {"mode": {"start_events": "ball_started", "priority": 110, "restart_on_next_ball": True}}


# =============================================================================================
def _gen_op(rng, hook):
    if hook:
        kinds = [("drain", 20), ("add_balls", 8), ("extra_ball", 15), ("add_player", 25), ("end_ball", 12),
                 ("end_game", 7), ("slam", 4), ("tilt", 3)]
    else:
        kinds = [("drain", 52), ("add_balls", 8), ("extra_ball", 10), ("add_player", 12), ("end_ball", 9),
                 ("end_game", 3), ("slam", 2), ("tilt", 2)]
    tot = sum(w for _, w in kinds)
    x = rng.random() * tot
    for kind, w in kinds:
        x -= w
        if x < 0:
            break
    if kind == "drain":
        n = rng.choice([1, 1, 1, 2, 3])
        return ["drain", n, rng.choice([0, 0, 0, 1, n])]
    if kind == "add_balls":
        return ["add_balls", rng.choice([1, 1, 2, 4])]
    if kind == "extra_ball":
        return ["extra_ball"]
    if kind == "add_player":
        return ["add_player", rng.choice(["call", "event"]), rng.random() < 0.15]
    if kind in ("end_ball", "end_game"):
        return [kind, rng.choice(["call", "event"])]
    return [kind]


def gen_case(rng, tier, index):
    balls = rng.choice([1, 1, 2, 2, 3, 3, 3, 4, 5])
    case = {"balls_per_game": balls, "max_players": rng.choice([1, 2, 3, 4, 4]), "balls_known": rng.choice([1, 2, 3, 4]),
            "games": rng.choice([1, 2, 2]), "hooks": [], "holds": [], "timeline": []}
    big = tier != "quick"
    # balls_per_game as a dynamic template whose value is changed between games on the same machine
    k = rng.random()
    case["bpg_mode"] = "const" if k < 0.6 else ("setting" if k < 0.85 else "machine_var")
    if case["bpg_mode"] != "const":
        case["games"] = rng.choice([2, 3, 3])
        vals = [balls]
        while len(vals) < case["games"]:
            vals.append(rng.choice([v for v in (1, 2, 3, 4, 5) if v != vals[-1]] + [vals[-1]]))
        case["bpg"] = vals
    case["pf_mode"] = rng.random() < 0.35
    for g in range(case["games"]):
        for _ in range(rng.choice([0, 0, 1, 1, 2, 3])):
            case["timeline"].append([g, rng.choice([None, 0, 0.5]), ["add_player", rng.choice(["call", "event"]), False]])
        body = []
        for _ in range(rng.randint(3, 22 if big else 14)):
            body.append([g, rng.choice([None, 0, 0, 0.001, 0.05, 0.5, 1.0, 1.0, 2.0, 3.0]), _gen_op(rng, False)])
        if case["pf_mode"]:
            # a ball ended by request while it is still on the playfield; it drains some seconds later
            for _ in range(rng.choice([0, 1, 1, 2])):
                i = rng.randint(0, len(body))
                body[i:i] = [[g, rng.choice([0.5, 1.0, 2.0]), ["end_ball", rng.choice(["call", "event"])]],
                             [g, rng.choice([0.5, 1.0, 2.0, 3.0, 6.0]), ["drain", 1, 0]]]
        case["timeline"].extend(body)
        for _ in range(rng.randint(1, 12 if big else 8)):
            case["hooks"].append([g, rng.choice(_HOOK_EVENTS), rng.choice([0, 0, 0, 1, 1, 2, 3, 4, 6]),
                                  _gen_op(rng, True)])
        if rng.random() < 0.5:
            # roster changes right at a turn boundary decide who plays next: sample them deliberately
            case["hooks"].append([g, rng.choice(_LC[3:6] + _LC[12:15]), rng.choice([0, 0, 1, 1, 2, 3]),
                                  ["add_player", rng.choice(["call", "event"]), False]])
        for _ in range(rng.randint(0, 5)):
            case["holds"].append([g, rng.choice(_QUEUE), rng.choice([0, 0, 1, 1, 2, 3]),
                                  rng.choice([0, 0.2, 1.0, 2.5])])
    return case


# =============================================================================================
def _crash_sig(exc):
    import traceback
    e = exc
    while getattr(e, "__cause__", None) is not None:
        e = e.__cause__
    fn = "unknown"
    tb = traceback.extract_tb(e.__traceback__) if getattr(e, "__traceback__", None) else []
    for fr in reversed(tb):
        if "/mpf/" in fr.filename and "/tests/" not in fr.filename:
            fn = "%s_%s" % (fr.filename.rsplit("/", 1)[-1].replace(".py", ""), fr.name)
            break
    return "C06:crash_%s_in_%s" % (type(e).__name__, fn), repr(e)[:400]


def run_case(case):
    from vlib.boot import VMachine, MpfCrash
    from vlib.c06_model import Oracle

    K = case["balls_known"]
    bpg_mode = case.get("bpg_mode", "const")
    bpg = case.get("bpg") or []

    def b_of(g):
        return bpg[g] if bpg_mode != "const" and g < len(bpg) else case["balls_per_game"]

    cfg = {"modes": ["tilt", "c06_m1", "c06_m2"],
           "game": {"balls_per_game": case["balls_per_game"], "max_players": case["max_players"],
                    "add_player_event": "req_add"}}
    if bpg_mode == "setting":
        cfg["game"]["balls_per_game"] = "settings.balls_per_game"
        cfg["settings"] = {"balls_per_game": {"label": "Balls per game", "values": {v: str(v) for v in range(1, 6)},
                                              "default": 3, "key_type": "int", "sort": 100}}
    elif bpg_mode == "machine_var":
        cfg["game"]["balls_per_game"] = "machine.c06_bpg"
        cfg["machine_vars"] = {"c06_bpg": {"initial_value": 3, "value_type": "int", "persist": False}}
    pf_mode = bool(case.get("pf_mode", False))
    orc = Oracle(b_of(0), K, HORIZONS["ball_end_s"], HORIZONS["ball_start_after_playfield_empty_s"])
    obs = {"hook_ops": 0, "top_ops": 0, "holds": 0, "hold_secs_x10": 0, "saves": 0, "loop_iterations": 0,
           "roster_exceeded_max_players": 0, "final_drains": 0, "physical_playfield_cases": int(pf_mode),
           "final_end_ball_fallbacks": 0}
    shape_hooks, shape_top = set(), []

    hooks, holds, timeline = {}, {}, {}
    for h in case.get("hooks", []):
        hooks.setdefault((h[0], h[1], h[2]), []).append(h[3])
    for h in case.get("holds", []):
        holds.setdefault((h[0], h[1], h[2]), h[3])
    for t in case.get("timeline", []):
        timeline.setdefault(t[0], []).append((t[1], t[2]))
    n_awards = sum(1 for h in case.get("hooks", []) if h[3][0] == "extra_ball") + \
        sum(1 for t in case.get("timeline", []) if t[2][0] == "extra_ball")

    with VMachine(cfg, modes={"tilt": TILT_MODE, "c06_m1": GAME_MODE_1, "c06_m2": GAME_MODE_2}, kind="fake") as vm:
        m = vm.machine
        ev = m.events
        gmode = m.modes["game"]
        pf = m.playfield
        m.ball_controller.num_balls_known = K
        st = {"g": -1, "occ": {}, "deny": 0, "saves": [], "pf_pending": 0}

        def pf_put(n):
            pf.balls += n
            pf.available_balls += n
            orc.playfield(pf.available_balls, vm.loop.time())

        if pf_mode:
            # physical playfield, as in MpfFakeGameTestCase.start_game
            pf.add_ball = lambda **kwargs: pf_put(1)
            orc.playfield(pf.available_balls, vm.loop.time())
        else:
            pf.add_ball = lambda **kwargs: None      # no devices: nothing is physically ejected

        def pf_free():
            return pf.available_balls - st["pf_pending"]

        def now():
            return vm.loop.time()

        def sample():
            g = m.game
            if g is not None:
                v = g.balls_in_play
                orc.clauses["bip_range"] += 1
                if not (0 <= v <= m.ball_controller.num_balls_known):
                    orc.V("bip_range", "C06:balls_in_play_out_of_range", value=v,
                          known=m.ball_controller.num_balls_known)

        orig_run_once = vm.loop._run_once

        def run_once():
            orig_run_once()
            obs["loop_iterations"] += 1
            sample()
        vm.loop._run_once = run_once

        # ---- requests ------------------------------------------------------------------------
        def post_drain(n, saved):
            if pf_mode:
                n = min(n, pf_free())       # only balls which are on the playfield can drain
                if n <= 0:
                    return False
                st["pf_pending"] += n
            st["saves"].append(min(saved, n))
            ev.post_relay("ball_drain", balls=n, _c06_n=n)
            return True

        def do_op(op):
            kind = op[0]
            if pf_mode and kind in ("slam", "tilt"):
                return
            if kind == "drain":
                post_drain(op[1], op[2])
            elif kind == "add_balls":
                g = m.game
                n = op[1]
                if pf_mode:
                    n = min(n, K - pf.available_balls)
                if g is not None and n > 0:
                    if pf_mode:
                        pf_put(n)
                    g.balls_in_play += n
                    if orc.active():
                        orc.ball_op("add", n, now())
            elif kind == "extra_ball":
                g = m.game
                if g is not None and g.player:
                    g.player.extra_balls += 1
                    if orc.active():
                        orc.award(g.player.number, now())
            elif kind == "add_player":
                if op[2] and orc.N >= 1:
                    st["deny"] += 1
                if op[1] == "call":
                    g = m.game
                    if g is not None and g.request_player_add() and orc.active():
                        orc.add_requested(now())
                else:
                    ev.post("req_add")
            elif kind in ("end_ball", "end_game"):
                if op[1] == "call":
                    g = m.game
                    if g is not None:
                        orc.request(kind, now())
                        getattr(g, kind)()
                else:
                    ev.post(kind)
            elif kind == "slam":
                ev.post("do_slam")
            elif kind == "tilt":
                ev.post("do_tilt")
            sample()

        def notice(kind):
            def h(**kwargs):
                if kind == "add":
                    if m.game is not None and orc.active():
                        orc.add_requested(now())
                else:
                    orc.request(kind, now(), deliverable=m.game is not None)
            return h

        for name, kind in (("end_ball", "end_ball"), ("end_game", "end_game"), ("do_slam", "slam"), ("do_tilt", "tilt"),
                           ("req_add", "add")):
            ev.add_handler(name, notice(kind), priority=10 ** 9)

        def on_drain(balls=0, **kwargs):
            s = st["saves"].pop(0) if st["saves"] else 0
            s = min(s, balls)
            if s:
                obs["saves"] += 1
            if orc.active():
                orc.ball_op("drain", balls - s, now())
            return {"balls": balls - s}
        ev.add_handler("ball_drain", on_drain, priority=10 ** 9)

        def on_drain_done(balls=0, **kwargs):
            # the unsaved balls have left the playfield (saved ones are still on it)
            if pf_mode:
                st["pf_pending"] = max(0, st["pf_pending"] - kwargs.get("_c06_n", 0))
                n = min(balls, pf.available_balls)
                pf.balls -= n
                pf.available_balls -= n
                orc.playfield(pf.available_balls, now())
        ev.add_handler("ball_drain", on_drain_done, priority=-10 ** 9)

        def on_add_request(**kwargs):
            if st["deny"] > 0 and orc.N >= 1:
                st["deny"] -= 1
                orc.add_denied(now())
                return False
            return None
        ev.add_handler("player_add_request", on_add_request, priority=10 ** 9)

        def on_will_add(number=None, **kwargs):
            orc.player_will_add(number, now())
            if isinstance(number, int) and number > case["max_players"]:
                obs["roster_exceeded_max_players"] += 1
        ev.add_handler("player_will_add", on_will_add, priority=10 ** 9)

        def on_mode_stopped(**kwargs):
            orc.pre_req = []
        ev.add_handler("mode_game_stopped", on_mode_stopped, priority=10 ** 9)

        # ---- recorders and hooks -------------------------------------------------------------
        def mk_first(name):
            def h(**kwargs):
                if name == "game_will_start":
                    st["occ"] = {}
                st["occ"][name] = st["occ"].get(name, -1) + 1
                orc.first(name, kwargs, now())
                sample()
            return h

        def mk_last(name):
            def h(**kwargs):
                orc.last(name, kwargs, now())
                sample()
            return h

        def mk_hook(name):
            def h(**kwargs):
                if name == "player_adding":
                    st["occ"][name] = st["occ"].get(name, -1) + 1
                key = (st["g"], name, st["occ"].get(name, 0))
                for op in hooks.get(key, ()):
                    obs["hook_ops"] += 1
                    shape_hooks.add("%s:%s" % (_ABBR[name], op[0]))
                    do_op(op)
                d = holds.get(key)
                queue = kwargs.get("queue")
                if d is not None and queue is not None:
                    obs["holds"] += 1
                    obs["hold_secs_x10"] += int(d * 10)
                    queue.wait()
                    if d <= 0:
                        vm.loop.call_soon(queue.clear)
                    else:
                        vm.loop.call_later(d, queue.clear)
            return h

        for name in _LC:
            ev.add_handler(name, mk_first(name), priority=10 ** 9)
            ev.add_handler(name, mk_last(name), priority=-10 ** 9)
        for name in _HOOK_EVENTS:
            ev.add_handler(name, mk_hook(name), priority=500)

        # ---- driver --------------------------------------------------------------------------
        def adv(d):
            vm.advance(d)
            orc.tick(now())
            sample()

        try:
            for g in range(case["games"]):
                st["g"] = g
                B = b_of(g)
                if bpg_mode == "setting":
                    m.settings.set_setting_value("balls_per_game", B)
                elif bpg_mode == "machine_var":
                    m.variables.set_machine_var("c06_bpg", B)
                if bpg_mode != "const":
                    adv(0.5)
                    got = m.config["game"]["balls_per_game"].evaluate([])
                    if got != B:
                        raise RuntimeError("balls_per_game template evaluates to %r, expected %r (harness)" % (got, B))
                orc.set_balls_per_game(B)
                started_before = orc.obs["games_started"]
                vm.t.hit_and_release_switch("s_start")
                adv(1.0)
                if g > 0:
                    orc.clauses["after_end"] += 1
                if orc.obs["games_started"] == started_before:
                    if g == 0:
                        raise RuntimeError("first game did not start (harness)")
                    orc.V("after_end", "C06:new_game_refused_after_game_ended", machine_game=repr(m.game),
                          game_mode_active=gmode.active, attract_active=m.modes["attract"].active)
                    break
                for dt, op in timeline.get(g, ()):
                    if dt is not None:
                        adv(dt)
                    if not orc.active():
                        break
                    obs["top_ops"] += 1
                    shape_top.append(op[0][:3] if op[0] != "end_game" else "eg")
                    do_op(op)
                # final phase: drain whatever is in play until the game is over
                limit = (4 if pf_mode else 2) * (B * max(4, orc.N + 1) + n_awards) + 30
                for _ in range(limit):
                    if not orc.active():
                        break
                    if not pf_mode:
                        if orc.ball == "live":
                            obs["final_drains"] += 1
                            post_drain(K, 0)
                    elif pf_free() > 0:
                        # drain what is on the playfield (the live ball, or one left over by an end request)
                        obs["final_drains"] += 1
                        post_drain(pf_free(), 0)
                    elif orc.ball == "live" and m.game is not None:
                        # nothing physical to drain (should not happen): keep the game going by request
                        obs["final_end_ball_fallbacks"] += 1
                        orc.request("end_ball", now())
                        m.game.end_ball()
                    adv(HORIZONS["final_drain_step_s"])
                orc.clauses["game_progress"] += 1
                if orc.active():
                    if orc.st in ("game_will_start", "game_starting") and orc.end_any:
                        sig = "C06:game_start_hangs_after_end_request"
                    else:
                        sig = "C06:game_never_ended"
                    orc.V("game_progress", sig, machine_game=repr(m.game), players=len(gmode.player_list),
                          game_ending_flag=gmode.ending)
                    break
                adv(HORIZONS["after_end_settle_s"])
                orc.clauses["after_end"] += 1
                if m.game is not None or gmode.active:
                    orc.V("after_end", "C06:game_still_active_after_game_ended", machine_game=repr(m.game),
                          game_mode_active=gmode.active)
                    break
        except MpfCrash as e:
            sig, txt = _crash_sig(e)
            orc.V("grammar", sig, exc=txt)

    obs.update(orc.obs)
    cl = orc.clauses
    nontrivial = (orc.obs["games_ended"] >= 1 and obs["hook_ops"] >= 1 and cl["turn_order"] > 0 and
                  cl["ball_end_cause"] > 0 and cl["grammar"] > 0)
    shape = "%sB%s%sM%dK%dG%d|%s|%s" % ("P" if pf_mode else "", "".join(str(b_of(g)) for g in range(case["games"])),
                                        bpg_mode[0],
                                      case["max_players"], K, case["games"], ",".join(sorted(shape_hooks)),
                                      "".join(shape_top)[:60])
    # unknown/unexplained signatures first
    order = {"C06:player_add_after_first_round_rotation": 1}
    viol = sorted(orc.viol, key=lambda v: order.get(v["sig"], 0))
    seen, uniq = set(), []
    for v in viol:
        if v["sig"] not in seen:
            seen.add(v["sig"])
            uniq.append(v)
    return {"violations": uniq, "clauses": cl, "shape": shape, "nontrivial": nontrivial, "obs": obs,
            "trace": orc.trace[-40:]}
