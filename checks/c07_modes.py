"""C07 — Mode lifecycle is well-formed and leaves nothing behind.

Real machines (plain and fake-game) are booted in virtual time with 1..3 GENERATED modes (game / non-game, wait queue,
tied and distinct priorities, start/stop events that are shared, private or the lifecycle events of other modes or of
the mode itself, logic blocks with timeouts and hit windows, timers, combo/timed switches, shots, config players,
delayed control events) and driven by generated request sequences: direct start()/stop(), start/stop events, starts
from inside queue events, requests issued by handlers of the mode's OWN lifecycle events (hooks), waits that hold
mode_*_starting / mode_*_stopping open while other requests and control events arrive, repeated cycles, ball/game ends.
About a quarter of the modes run custom code derived from mpf.core.async_mode.AsyncMode (vlib/c07_async.py); the
'ostop' op issues stop(callback) three times (2nd/3rd while a handler holds mode_<m>_stopping; the 3rd may be the stop
event, a ball end or a game end instead).

Monitors (all at the boundary the property names):
  * EventManager._post wrapper  : post order of mode_<m>_{will_start,starting,started,will_stop,stopping,stopped}
                                  -> cyclic order oracle + reference state machine (stopped/starting/active/stopping)
  * top-priority observers      : every posted lifecycle event is dispatched exactly once
  * Mode.start / Mode.stop wrappers : which requests were made and accepted (a will_start / will_stop post during the
                                  call) vs. what the reference state machine says must be accepted/rejected
  * mode_controller.active_modes vs {m : m.active} vs the reference states, at every observer call and rest point
  * completion callbacks handed to Mode.stop(callback=..) by the driver, by hooks, by ball end and game end are
    wrapped in the Mode.stop wrapper: each runs exactly once, at the completion of the stop it was handed to
  * registry snapshots (vlib/c07_snap.py): event handlers, switch handlers, pending timed-switch entries and pending
    loop timers attributable to a mode, before the first start vs. at every rest point where the mode is stopped;
    on plain machines additionally the COMPLETE handler registries whenever all generated modes are stopped.
"""

PROPERTY = "C07"
LEVEL = "exploration"
LEVEL_TEXT = ("Exploration: thousands of generated mode sets x request histories on real machines in exact virtual "
              "time, checked online by a 4-state reference machine per mode and by registry snapshots at every rest "
              "point. Histories, timings and configurations are unbounded, so seeded sampling (biased to requests "
              "landing inside lifecycle events and to held-open queue events) is what this family reaches.")
LEVEL_NOTE = ("Trusts MPF's TimeTravelLoop, the wrappers around Mode.start/Mode.stop/EventManager._post (installed before "
              "boot so that handlers bound at boot are wrapped too; the completion callback of mode_<m>_stopped is "
              "wrapped to learn when the stop has been finalised) and vlib/c07_snap.py's attribution of registry "
              "entries to modes. 'Eventually' is restated as: 10 virtual s after the last held wait was released no "
              "mode is still starting or stopping.")
TECHNIQUE = ("runtime monitoring: online reference state machine over observed posts/requests + registry snapshot "
             "differential (before first start vs. after every stop) on booted machines in virtual time")
ENGINES = ["vlib"]
RULE = ("case = generated mode set (1..3 modes, devices, players, hooks on lifecycle events) + request history; "
        "distinct = machine kind, per-mode option flags, hook (phase, action) set and the op-kind sequence; non-trivial = "
        "at least one mode completed a full cycle, at least one request was judged by the reference machine and at "
        "least one after-stop registry comparison was made")
ASSUMPTIONS = [
    "lifecycle ORDER is judged on the order of posting (EventManager._post); dispatch order may legally differ because "
    "events posted from a handler are dispatched before events already queued",
    "a request is 'accepted' iff the call posts mode_<m>_will_start / mode_<m>_will_stop; the reference machine expects "
    "start to be accepted exactly in state stopped (and, for game modes, only while MPF's own game/player guard holds) "
    "and stop exactly in state active",
    "a configured stop (start) event posted by the driver at a rest point while the mode is active (any state) is a "
    "request: Mode.stop (Mode.start) must be invoked for it at least once before the next rest point",
    "active_modes order: only non-increasing priority is demanded (ties in any order)",
    "config player plays: the trigger event of a mode's event_player posted by the driver at a rest point must make "
    "every matching entry (plain, conditional, priority-suffixed) play exactly once while the mode is active and not "
    "at all while it is stopped; judged only when no lifecycle event of that mode was posted and no start was "
    "requested between the post and the next rest point",
    "stop callbacks: a callback handed to Mode.stop() that returned True belongs to the stop whose mode_<m>_stopped is "
    "posted next; it must run exactly once, not before that post, not after a later mode_<m>_stopped post, and by the "
    "first rest point after the completion callback of that mode_<m>_stopped event ran; order among several callbacks "
    "of one stop and whether they run before or after a restart requested from the stopped event are free; a callback "
    "handed to a stop() that returned False must never run",
    "overlapping stop requests: Mode.stop(callback=cb) on a mode that is already stopping returns True and only "
    "registers cb (mode.py: 'do not stop twice. only register callback in that case'); exactly that is demanded for "
    "plain modes and for modes whose code derives from mpf.core.async_mode.AsyncMode (vlib/c07_async.py, ~27% of the "
    "generated modes; their requests are observed at AsyncMode.stop): cb runs once with the stop in progress "
    "(clause stop_callback_overlap counts these judgements)",
    "registry comparison is made at rest points only (event queue and callback queue empty) and only for modes whose "
    "reference state is stopped; entries are compared without uuids/ids/non-scalar kwargs",
    "loop timers are compared by attribution only (callback bound to the mode, its DelayManager, one of its devices or "
    "that device's DelayManager); delayed posts of the event_player, light fades and shows own their timers and are "
    "outside the claim, as are light stacks, player variables and config-player subscriptions",
    "Counter control_events / Accrual / Sequence step handlers are registered at boot and stay for the life of the "
    "machine (same before and after); counter control_events are not generated (they crash while the mode is "
    "stopped, which is a C18 matter)",
    "bounded progress horizon: 10 virtual seconds after the last scheduled release of a held wait",
    "a game mode that is (re)started while the game is ending trips Game.mode_stop's own assertion ('Mode .. is not "
    "supposed to run outside of game'); that fail-stop belongs to the game lifecycle (C06) and ends the case without "
    "a verdict",
    "a game mode whose accepted start is still waiting in mode_<m>_starting when the game ends becomes active without "
    "game/player (Game only stops ACTIVE game modes); an unclassified crash while such a mode runs (player-scoped "
    "players) is counted, not judged: outside this property's envelope",
    "generated reaction graphs are acyclic (a mode reacts to lifecycle events of lower-numbered modes, to its own "
    "only in one direction; hooks have budgets) so that every history is finite",
]
HORIZONS = {"settle_s": 10, "boot_settle_s": 1}
TIERS = {
    "quick": {"cases": 3200, "batch": 40, "case_timeout": 90},
    "thorough": {"cases": 80000, "batch": 400, "case_timeout": 180},
}
MIN_EVALS = {
    "quick": {"lifecycle_order": 40000, "dispatch_once": 280000, "request_guard": 22000, "progress": 13000,
              "active_list": 60000, "registry_mode": 27000, "registry_full": 5000, "request_delivered": 38000,
              "stop_callback": 8000, "stop_callback_overlap": 3000, "player_plays": 1200},
    "thorough": {"lifecycle_order": 5000000, "dispatch_once": 18000000, "request_guard": 2400000, "progress": 1600000,
                 "active_list": 6000000, "registry_mode": 1800000, "registry_full": 340000,
                 "request_delivered": 2400000, "stop_callback": 400000,
                 "stop_callback_overlap": 60000, "player_plays": 50000},
}


class _BudgetedKeys(list):
    """SHRINK_KEYS that run dry: the harness shrinks every violating case (up to 20 s each); on a tree with a
    frequent defect that is minutes of wall clock for nothing.  Only the first two violating cases of a worker
    process are shrunk."""
    uses = 0

    def __iter__(self):
        _BudgetedKeys.uses += 1
        if _BudgetedKeys.uses > 2:
            return iter(())
        return list.__iter__(self)


SHRINK_KEYS = _BudgetedKeys(["ops", "hooks"])

PHASES = ["will_start", "starting", "started", "will_stop", "stopping", "stopped"]
STATE_AFTER = {"will_start": "starting", "starting": "starting", "started": "active", "will_stop": "stopping",
               "stopping": "stopping", "stopped": "stopped"}
ADV = [0.0, 0.0, 0.001, 0.05, 0.05, 0.2, 0.3, 0.5, 0.6, 1.0, 1.2, 2.5]
HOOK_ACTIONS = ["start_self", "stop_self", "post_go_self", "post_halt_self", "start_other", "stop_other", "wait",
                "wait", "post_ctl", "register_code"]
RUNAWAY_LIMIT = 1500

_MON = [None]
_ORIG = {}


# =============================================================================================== generation
def _gen_mode(rng, i, kind, tier):
    name = "m%d" % i
    game_mode = kind == "game" and rng.random() < 0.6
    md = {"name": name, "priority": rng.choice([100, 200, 300, 300, 500]), "game_mode": game_mode,
          "use_wait_queue": rng.random() < 0.4,
          "start_priority": rng.choice([0, 0, 0, 5]), "stop_priority": rng.choice([0, 0, 0, 5]),
          "start_events": ["go%d" % i], "stop_events": ["halt%d" % i], "ews": [], "ewst": []}
    if rng.random() < 0.6:
        md["start_events"].append("go")
    if rng.random() < 0.6:
        md["stop_events"].append("halt")
    if rng.random() < 0.25:
        md["start_events"].append("flip")       # same event starts some modes and stops others
    elif rng.random() < 0.25:
        md["stop_events"].append("flip")
    # reactions to lifecycle events of lower-numbered modes
    for j in range(i):
        if rng.random() < 0.3:
            md["start_events"].append("mode_m%d_%s" % (j, rng.choice(["started", "stopped", "will_stop", "stopping",
                                                                        "starting"])))
        if rng.random() < 0.3:
            md["stop_events"].append("mode_m%d_%s" % (j, rng.choice(["started", "stopped", "will_start", "stopping",
                                                                       "will_stop"])))
    # reactions to its own lifecycle: one direction only (no configured infinite loop)
    k = rng.random()
    if k < 0.22:
        how = rng.choice(["stopped", "stopped", "ewst", "will_stop", "stopping"])
        if how == "ewst":
            md["ewst"].append("go%d" % i)          # events_when_stopped re-posts the private start event
        else:
            md["start_events"].append("mode_%s_%s" % (name, how))
    elif k < 0.36:
        how = rng.choice(["started", "ews", "starting", "will_start"])
        if how == "ews":
            md["ews"].append("halt%d" % i)         # events_when_started posts the private stop event
        else:
            md["stop_events"].append("mode_%s_%s" % (name, how))
    if rng.random() < 0.3:
        md["ews"].append("ews_%s" % name)
    if rng.random() < 0.3:
        md["ewst"].append("ewst_%s" % name)
    dev = {}
    if rng.random() < 0.6:
        dev["counter"] = {"timeout": rng.choice([None, 500, 2000]), "window": rng.choice([None, None, 300]),
                          "delayed_restart": rng.choice([None, 300, 500]), "delayed_reset": rng.choice([None, 300]),
                          "persist": game_mode and rng.random() < 0.4,
                          "reset_on_complete": rng.random() < 0.5, "disable_on_complete": rng.random() < 0.5}
    if rng.random() < 0.3:
        dev["accrual"] = {"timeout": rng.choice([None, 500, 2000]), "delayed_reset": rng.choice([None, 300])}
    if rng.random() < 0.3:
        dev["sequence"] = {"timeout": rng.choice([None, 500, 2000])}
    if rng.random() < 0.5:
        dev["timer"] = {"start_running": rng.random() < 0.6, "tick": rng.choice(["250ms", "1s"]),
                        "end": rng.choice([None, 3, 5]), "restart_on_complete": rng.random() < 0.3,
                        "direction": rng.choice(["up", "up", "down"])}
    if rng.random() < 0.25:
        dev["combo"] = {"hold": rng.choice([0, 200]), "release": rng.choice([0, 100])}
    if rng.random() < 0.2:
        dev["timed_switch"] = {"time": 500}
    if game_mode and rng.random() < 0.5:
        # by_event: enabled/disabled by control events; the enable state then persists per player (persist_enable is
        # the default for shots) and is RESTORED when the mode starts again for the same player
        dev["shot"] = {"delay_switch": rng.random() < 0.4, "by_event": rng.random() < 0.65,
                       "persist": rng.random() < 0.85}
        if rng.random() < 0.4:
            md["start_events"].append("ball_started")
    md["dev"] = dev
    pl = {}
    for p, prob in (("event", 0.5), ("queue_relay", 0.3), ("light", 0.3), ("show", 0.3), ("coil", 0.2),
                    ("random_event", 0.2)):
        if rng.random() < prob:
            pl[p] = True
    # several entries of ONE player section on the same base event (they differ by condition / priority suffix only)
    if "event" in pl and rng.random() < 0.65:
        pl["event_multi"] = True
    if "light" in pl and rng.random() < 0.5:
        pl["light_multi"] = True
    md["players"] = pl
    # custom mode code built on mpf.core.async_mode.AsyncMode (vlib/c07_async.py)
    md["async"] = rng.choice(["forever", "forever", "finite"]) if rng.random() < 0.27 else None
    return md


def _event_pool(modes):
    """(plain events, queue-capable events) the driver may post."""
    plain = ["go", "halt", "flip"]
    queue = ["go", "flip"]
    for i, md in enumerate(modes):
        n = md["name"]
        plain += ["go%d" % i, "halt%d" % i, "go%d" % i, "halt%d" % i]
        queue += ["go%d" % i]
        d = md["dev"]
        if "counter" in d:
            plain += ["hit_" + n, "hit_" + n, "rs_" + n, "rst_" + n, "dis_" + n, "en_" + n]
        if "accrual" in d:
            plain += ["ae0_" + n, "ae1_" + n, "arst_" + n]
        if "sequence" in d:
            plain += ["qe0_" + n, "qe1_" + n]
        if "timer" in d:
            plain += ["tstart_" + n, "tstop_" + n, "tpause_" + n, "tjump_" + n]
        if "shot" in d and d["shot"].get("by_event"):
            plain += ["shen_" + n, "shen_" + n, "shdis_" + n, "shrs_" + n, "shrst_" + n]
        p = md["players"]
        if "event" in p:
            plain += ["ep_" + n, "ep_" + n]
        if "queue_relay" in p:
            queue += ["qr_" + n, "qr_" + n]
            plain += ["qrd_" + n]
        for k, e in (("light", "lp_"), ("show", "sp_"), ("coil", "cp_"), ("random_event", "rp_")):
            if k in p:
                plain += [e + n]
    return plain, queue


def gen_case(rng, tier, index):
    kind = "game" if index % 3 == 2 else "plain"
    nm = rng.choice([1, 2, 2, 3])
    modes = [_gen_mode(rng, i, kind, tier) for i in range(nm)]
    hooks = []
    for _ in range(rng.choice([0, 1, 1, 2, 3, 4])):
        mi = rng.randrange(nm)
        if rng.random() < 0.3:
            # hold the mode's own queue event open while the history goes on
            phase, action, delay = rng.choice(["starting", "stopping"]), "wait", rng.choice([0.05, 0.3, 1.0, 1.0])
        else:
            phase, delay = rng.choice(PHASES), 0.0
            action = rng.choice([a for a in HOOK_ACTIONS if a != "wait"])
        hooks.append([mi, phase, action, rng.choice([1, 150, 250, 400, 2000000]), rng.choice([1, 1, 2, 3]),
                      delay, rng.randrange(nm)])
    chain = nm >= 2 and rng.random() < 0.15
    if chain:
        # wait-queue modes chained on a lifecycle event, the first one started from inside a queue event
        modes[0]["use_wait_queue"] = True
        modes[1]["use_wait_queue"] = True
        e = "mode_m0_%s" % rng.choice(["started", "will_start", "starting"])
        if e not in modes[1]["start_events"]:
            modes[1]["start_events"].append(e)
    plain, queue = _event_pool(modes)
    ops = []
    if chain:
        ops.append(["qpost", "go0"])
        ops.append(["adv", rng.choice([0.05, 0.5])])
    n = rng.randint(10, 36 if tier == "quick" else 70)
    for _ in range(n):
        k = rng.random()
        mi = rng.randrange(nm)
        if k < 0.14:
            ops.append(["start", mi, rng.choice([None, None, None, 50, 250, 700])])
        elif k < 0.26:
            ops.append(["stop", mi, rng.random() < 0.6])
        elif k < 0.52:
            ops.append(["post", rng.choice(plain)])
        elif k < 0.60:
            ops.append(["qpost", rng.choice(queue)])
        elif k < 0.64:
            ops.append(["sw", rng.choice(["s_a", "s_b", "s_c", "s_d"]), rng.choice([1, 1, 0])])
        elif k < 0.67:
            ops.append(["cycle", mi, rng.choice([2, 3, 5] if tier == "quick" else [3, 10, 25, 50]),
                        rng.random() < 0.5])
        elif k < 0.72 and kind == "game":
            ops.append([rng.choice(["drain", "drain", "end_game", "start_game"])])
        else:
            ops.append(["adv", rng.choice(ADV)])
        if ops[-1][0] != "adv" and rng.random() < 0.55:
            ops.append(["adv", rng.choice(ADV)])
    # persisted device state across runs of a game mode for the SAME player: control event, mode stops (ball end or stop
    # within the turn), mode starts again (state restored from the player), control events again, mode stops
    for i, md in enumerate(modes):
        sh = md["dev"].get("shot")
        if kind != "game" or not sh or not sh.get("by_event") or rng.random() < 0.3:
            continue
        n_ = md["name"]
        ev = lambda: rng.choice(["shen_", "shen_", "shen_", "shrs_", "shdis_"]) + n_      # noqa: E731
        seq = [["post", "go%d" % i], ["adv", 0.05], ["post", "shen_" + n_], ["adv", 0.05]]
        seq += [["drain"]] if rng.random() < 0.5 else [["post", "halt%d" % i], ["adv", rng.choice([0.05, 0.6])]]
        seq += [["post", "go%d" % i], ["adv", 0.05], ["post", ev()], ["adv", rng.choice([0.0, 0.05])], ["post", ev()],
                ["adv", 0.05]]
        if rng.random() < 0.5:
            seq += [["sw", "s_d", 1], ["adv", 0.05], ["sw", "s_d", 0], ["adv", 0.05]]
        seq += [["post", "halt%d" % i] if rng.random() < 0.6 else ["drain"], ["adv", 0.3]]
        at = rng.randint(0, len(ops))
        ops[at:at] = seq
    # overlapping stop requests WITH completion callbacks while a handler holds mode_<m>_stopping open
    for i, md in enumerate(modes):
        if rng.random() < (0.85 if md.get("async") else 0.3):
            for _ in range(rng.choice([1, 1, 2])):
                third = rng.choice(["stop", "stop", "event", "drain", "drain", "end_game"] if kind == "game" else
                                   ["stop", "stop", "event"])
                seq = [["ostop", i, rng.choice([0.3, 0.6, 1.5, 2.5]), [rng.choice([0.0, 0.0, 0.05]),
                                                                       rng.choice([0.0, 0.05, 0.2])], third],
                       ["adv", rng.choice([0.05, 0.3])]]
                at = rng.randint(0, len(ops))
                ops[at:at] = seq
    return {"kind": kind, "modes": modes, "hooks": hooks, "ops": ops}


# =============================================================================================== configs
def _machine_cfg(case):
    return {
        "modes": [md["name"] for md in case["modes"]],
        "switches": {"s_a": {"number": "1"}, "s_b": {"number": "2"}, "s_c": {"number": "3"}, "s_d": {"number": "4"},
                     "s_e": {"number": "5"}},
        "lights": {"l1": {"number": "1", "subtype": "led", "type": "rgb"}},
        "coils": {"c1": {"number": "1", "default_pulse_ms": 10}},
    }


SHOWS = {"c07show": [{"duration": "500ms", "lights": {"l1": "red"}}, {"duration": "500ms", "lights": {"l1": "blue"}}]}


def _ms(v):
    return "%dms" % v


def _mode_cfg(md):
    n = md["name"]
    mode = {"start_events": list(md["start_events"]), "stop_events": list(md["stop_events"]),
            "game_mode": bool(md["game_mode"]), "priority": md["priority"], "use_wait_queue": bool(md["use_wait_queue"]),
            "start_priority": md["start_priority"], "stop_priority": md["stop_priority"]}
    if not md["game_mode"]:
        mode["stop_on_ball_end"] = False
    if md.get("async"):
        mode["code"] = "vlib.c07_async.C07Async" + md["async"].capitalize()
    if md["ews"]:
        mode["events_when_started"] = list(md["ews"])
    if md["ewst"]:
        mode["events_when_stopped"] = list(md["ewst"])
    cfg = {"mode": mode}
    d = md["dev"]
    if "counter" in d:
        c = d["counter"]
        cc = {"count_events": "hit_" + n, "starting_count": 0, "count_complete_value": 3, "start_enabled": True,
              "enable_events": "en_" + n, "disable_events": "dis_" + n,
              "restart_events": {"rs_" + n: _ms(c["delayed_restart"] or 0)},
              "reset_events": {"rst_" + n: _ms(c["delayed_reset"] or 0)},
              "reset_on_complete": c["reset_on_complete"], "disable_on_complete": c["disable_on_complete"]}
        if c["timeout"]:
            cc["logic_block_timeout"] = _ms(c["timeout"])
        if c["window"]:
            cc["multiple_hit_window"] = _ms(c["window"])
        if c["persist"]:
            cc["persist_state"] = True
        cfg["counters"] = {"c_" + n: cc}
    if "accrual" in d:
        a = d["accrual"]
        ac = {"events": ["ae0_" + n, "ae1_" + n],
              "reset_events": {"arst_" + n: _ms(a["delayed_reset"] or 0)}}
        if a["timeout"]:
            ac["logic_block_timeout"] = _ms(a["timeout"])
        cfg["accruals"] = {"a_" + n: ac}
    if "sequence" in d:
        sc = {"events": ["qe0_" + n, "qe1_" + n]}
        if d["sequence"]["timeout"]:
            sc["logic_block_timeout"] = _ms(d["sequence"]["timeout"])
        cfg["sequences"] = {"q_" + n: sc}
    if "timer" in d:
        t = d["timer"]
        down = t["direction"] == "down"
        tc = {"direction": t["direction"], "start_value": 5 if down else 0, "tick_interval": t["tick"],
              "start_running": t["start_running"], "restart_on_complete": t["restart_on_complete"],
              "control_events": [{"event": "tstart_" + n, "action": "start"}, {"event": "tstop_" + n, "action": "stop"},
                                 {"event": "tpause_" + n, "action": "pause", "value": 1},
                                 {"event": "tjump_" + n, "action": "jump", "value": 2}]}
        if t["end"] is not None and not down:
            tc["end_value"] = t["end"]
        cfg["timers"] = {"t_" + n: tc}
    if "combo" in d:
        cfg["combo_switches"] = {"cs_" + n: {"switches_1": "s_a", "switches_2": "s_b",
                                             "hold_time": _ms(d["combo"]["hold"]), "max_offset_time": "500ms",
                                             "release_time": _ms(d["combo"]["release"])}}
    if "timed_switch" in d:
        cfg["timed_switches"] = {"ts_" + n: {"switches": "s_c", "time": _ms(d["timed_switch"]["time"])}}
    if "shot" in d:
        sh = {"switch": "s_d"}
        if d["shot"]["delay_switch"]:
            sh["delay_switch"] = {"s_e": "500ms"}
        if d["shot"].get("by_event"):
            sh["enable_events"] = "shen_" + n
            sh["disable_events"] = "shdis_" + n
            sh["restart_events"] = "shrs_" + n
            sh["reset_events"] = "shrst_" + n
        if not d["shot"].get("persist", True):
            sh["persist_enable"] = False
        cfg["shots"] = {"sh_" + n: sh}
    p = md["players"]
    if "event" in p:
        cfg["event_player"] = {"ep_" + n: "epo_" + n, "mode_%s_started" % n: "epstarted_" + n}
        if p.get("event_multi"):
            cfg["event_player"].update({"ep_%s{value>5}" % n: "epbig_" + n, "ep_%s{value<=5}" % n: "epsmall_" + n,
                                        "ep_%s.2" % n: "epprio_" + n})
    if "queue_relay" in p:
        cfg["queue_relay_player"] = {"qr_" + n: {"post": "qrp_" + n, "wait_for": "qrd_" + n}}
    if "light" in p:
        cfg["light_player"] = {"lp_" + n: {"l1": "red"}}
        if p.get("light_multi"):
            cfg["light_player"].update({"lp_%s{value>5}" % n: {"l1": "blue"}, "lp_%s.3" % n: {"l1": "green"}})
    if "show" in p:
        cfg["show_player"] = {"sp_" + n: {"c07show": {"loops": -1}}}
    if "coil" in p:
        cfg["coil_player"] = {"cp_" + n: {"c1": "pulse"}}
    if "random_event" in p:
        cfg["random_event_player"] = {"rp_" + n: {"events": ["rpa_" + n, "rpb_" + n],
                                                   "scope": "player" if md["game_mode"] else "machine"}}
    return cfg


# =============================================================================================== patches
class _Runaway(BaseException):
    pass


def _install_patches():
    """Class-level wrappers, installed once per worker process BEFORE any machine boots (Mode.start is bound into the
    handler registry at boot).  They are pass-through unless a monitor is active."""
    from mpf.core.mode import Mode
    from mpf.core.events import EventManager
    from mpf.core.async_mode import AsyncMode
    if getattr(Mode.start, "_c07", False):
        return
    o_start, o_stop, o_post = Mode.start, Mode.stop, EventManager._post
    o_astop = AsyncMode.__dict__["stop"]
    _ORIG.update(start=o_start, stop=o_stop, post=o_post)

    def start(self, mode_priority=None, callback=None, **kwargs):
        mon = _MON[0]
        if mon is None or self.name not in mon.models or self.machine is not mon.m:
            return o_start(self, mode_priority, callback, **kwargs)
        return mon.on_start_call(self, o_start, mode_priority, callback, kwargs)

    def stop(self, callback=None, **kwargs):
        mon = _MON[0]
        if mon is None or self.name not in mon.models or self.machine is not mon.m or isinstance(self, AsyncMode):
            # AsyncMode overrides stop(): its requests are observed at AsyncMode.stop (the public entry point)
            return o_stop(self, callback, **kwargs)
        return mon.on_stop_call(self, o_stop, callback, kwargs)

    def astop(self, callback=None, **kwargs):
        mon = _MON[0]
        if mon is None or self.name not in mon.models or self.machine is not mon.m:
            return o_astop(self, callback, **kwargs)
        return mon.on_stop_call(self, o_astop, callback, kwargs)

    def _post(self, event, ev_type, callback, **kwargs):
        mon = _MON[0]
        if mon is not None and self.machine is mon.m:
            callback = mon.on_post(event, callback)
        return o_post(self, event, ev_type, callback, **kwargs)

    start._c07 = True
    start.__doc__ = o_start.__doc__
    stop.__doc__ = o_stop.__doc__
    Mode.start = start
    astop.__doc__ = o_astop.__doc__
    astop.__name__ = "stop"      # registry snapshots name bound handlers by function name
    Mode.stop = stop
    AsyncMode.stop = astop
    EventManager._post = _post


# =============================================================================================== monitor
class _Model:
    def __init__(self, name):
        self.name = name
        self.idx = 0                # next expected phase index
        self.state = "stopped"
        self.posted = {p: 0 for p in PHASES}
        self.dispatched = {p: 0 for p in PHASES}
        self.history = []
        self.start_calls = 0
        self.stop_calls = 0
        self.call_posts = None      # phases posted during the Mode.start/stop call being executed
        self.cycles = 0
        self.accepted_starts = 0
        self.accepted_stops = 0
        self.t_state = 0.0
        self.finalising = 0         # mode_<m>_stopped posted, its completion callback not yet run
        self.restarted_while_finalising = 0
        self.run_restarted = False      # the current (or last) run was started while the previous stop was finalising
        self.stopped_run_restarted = False  # ... same for the run that stopped last
        self.restart_cycles = set()     # stop numbers whose finalisation saw an accepted start


class _Monitor:
    def __init__(self, vm, case):
        self.vm = vm
        self.m = vm.machine
        self.case = case
        self.kind = case["kind"]
        self.models = {md["name"]: _Model(md["name"]) for md in case["modes"]}
        self.cfg = {md["name"]: md for md in case["modes"]}
        self.evmap = {}
        for n in self.models:
            for p in PHASES:
                self.evmap["mode_%s_%s" % (n, p)] = (n, p)
        self.viol = []
        self.seen = set()
        self.clauses = {"lifecycle_order": 0, "dispatch_once": 0, "request_guard": 0, "progress": 0, "active_list": 0,
                        "registry_mode": 0, "registry_full": 0, "request_delivered": 0, "stop_callback": 0,
                        "stop_callback_overlap": 0, "player_plays": 0, "no_crash": 0}
        self.obs = {"lifecycle_posts": 0, "start_calls": 0, "stop_calls": 0, "accepted_starts": 0, "accepted_stops": 0,
                    "rejected_requests": 0, "requests_from_lifecycle_handlers": 0, "hook_fires": 0, "held_waits": 0,
                    "requests_while_queue_held": 0, "full_cycles": 0, "snapshots": 0, "rest_points": 0,
                    "sum_max_active_modes": 0, "delayed_control_events": 0, "game_starts": 0, "ball_ends": 0,
                    "registry_entries_compared": 0, "runaway": 0, "starts_while_stop_is_finalising": 0,
                    "progress_unjudged": 0, "code_registrations": 0,
                    "game_fail_stop_on_game_mode_restarted_at_game_end": 0,
                    "crash_with_game_mode_running_outside_game": 0, "stop_callbacks_handed_in": 0,
                    "stop_callbacks_run": 0, "stop_callbacks_while_already_stopping": 0,
                    "async_modes": 0, "async_mode_stop_calls": 0, "async_stop_callbacks_while_already_stopping": 0,
                    "async_stop_callbacks_while_already_stopping_run": 0, "overlap_stop_ops": 0,
                    "overlap_stop_ops_held": 0, "ball_or_game_end_while_async_game_mode_stopping": 0}
        self.ctx = "boot"
        self.lifecycle_posts = 0
        self.last_release = 0.0
        self.held = 0
        self.pending_delivery = []
        self.attr = None
        self.S0 = None
        self.in_lifecycle_handler = 0
        self.hooks_enabled = True
        self.reported_entries = set()
        self.cb_tokens = []
        self.play_counts = {n: {"epo": 0, "epbig": 0, "epsmall": 0, "epprio": 0} for n in self.models}
        self.pending_plays = {}
        self.done = False           # set before the machine is shut down: nothing is monitored after that

    # ---------------------------------------------------------------------------------------
    def V(self, clause, sig, **detail):
        if self.done or sig in self.seen or len(self.viol) >= 12:
            return
        self.seen.add(sig)
        detail["t"] = round(self.vm.now(), 6)
        detail["ctx"] = str(self.ctx)
        self.viol.append({"clause": clause, "sig": "C07:" + sig, "detail": detail})

    # ---------------------------------------------------------------------------------------
    def on_post(self, event, callback=None):
        hit = self.evmap.get(event)
        if hit is None:
            return callback
        n, phase = hit
        M = self.models[n]
        self.lifecycle_posts += 1
        self.obs["lifecycle_posts"] += 1
        if self.lifecycle_posts > RUNAWAY_LIMIT:
            raise _Runaway()
        M.posted[phase] += 1
        M.history.append(phase)
        if M.call_posts is not None:
            M.call_posts.append(phase)
        self.clauses["lifecycle_order"] += 1
        expected = PHASES[M.idx]
        if phase != expected:
            self.V("lifecycle_order", "lifecycle_event_out_of_order", mode=n, posted=phase, expected=expected,
                   state=M.state, history=M.history[-8:])
        M.idx = (PHASES.index(phase) + 1) % 6
        M.state = STATE_AFTER[phase]
        M.t_state = self.vm.now()
        if phase == "stopped":
            M.stopped_run_restarted = M.run_restarted
            M.cycles += 1
            self.obs["full_cycles"] += 1
            if callback is not None:
                # the completion callback of mode_<m>_stopped finalises the stop (handler/device removal)
                M.finalising += 1
                inner = callback

                def c07_stopped_done(**kwargs):
                    try:
                        return inner(**kwargs)
                    finally:
                        M.finalising -= 1
                return c07_stopped_done
        return callback

    def on_start_call(self, mo, orig, mode_priority, callback, kwargs):
        M = self.models[mo.name]
        M.start_calls += 1
        self.obs["start_calls"] += 1
        if self.in_lifecycle_handler:
            self.obs["requests_from_lifecycle_handlers"] += 1
        if self.held:
            self.obs["requests_while_queue_held"] += 1
        state = M.state
        game_ok = (not mo.is_game_mode) or bool(self.m.game and mo.player)
        expected = state == "stopped" and game_ok
        outer = M.call_posts
        M.call_posts = []
        try:
            res = orig(mo, mode_priority, callback, **kwargs)
        finally:
            posts = M.call_posts
            M.call_posts = outer
        accepted = "will_start" in posts
        self.clauses["request_guard"] += 1
        if accepted:
            M.accepted_starts += 1
            self.obs["accepted_starts"] += 1
            M.run_restarted = bool(M.finalising)
            if M.finalising:
                M.restart_cycles.add(M.cycles)
                M.restarted_while_finalising += 1
                self.obs["starts_while_stop_is_finalising"] += 1
        else:
            self.obs["rejected_requests"] += 1
        if accepted and not expected:
            self.V("request_guard", "start_accepted_while_" + (state if state != "stopped" else "no_game"),
                   mode=mo.name, state=state, game_ok=game_ok, history=M.history[-8:])
        elif expected and not accepted:
            self.V("request_guard", "start_rejected_while_stopped", mode=mo.name, state=state,
                   real_active=mo.active, real_starting=mo.starting, real_stopping=mo.stopping,
                   history=M.history[-8:])
        return res

    def on_stop_call(self, mo, orig, callback, kwargs):
        M = self.models[mo.name]
        M.stop_calls += 1
        self.obs["stop_calls"] += 1
        if self.cfg[mo.name].get("async"):
            self.obs["async_mode_stop_calls"] += 1
        if self.in_lifecycle_handler:
            self.obs["requests_from_lifecycle_handlers"] += 1
        if self.held:
            self.obs["requests_while_queue_held"] += 1
        state = M.state
        expected = state == "active"
        tok = None
        if callback:
            # the stop this request belongs to is the one whose mode_<m>_stopped is posted next
            tok = {"id": len(self.cb_tokens), "mode": mo.name, "k": M.cycles + 1, "state": state, "runs": 0,
                   "returned": None, "ctx": str(self.ctx), "judged": False, "async": bool(self.cfg[mo.name].get("async"))}
            callback = self._wrap_stop_callback(tok, callback)
        outer = M.call_posts
        M.call_posts = []
        try:
            res = orig(mo, callback, **kwargs)
        finally:
            posts = M.call_posts
            M.call_posts = outer
        if tok is not None:
            tok["returned"] = bool(res)
            self.cb_tokens.append(tok)
            self.obs["stop_callbacks_handed_in"] += 1
            if tok["returned"] and state == "stopping":
                self.obs["stop_callbacks_while_already_stopping"] += 1
                if tok["async"]:
                    self.obs["async_stop_callbacks_while_already_stopping"] += 1
        accepted = "will_stop" in posts
        self.clauses["request_guard"] += 1
        if accepted:
            M.accepted_stops += 1
            self.obs["accepted_stops"] += 1
        else:
            self.obs["rejected_requests"] += 1
        if accepted and not expected:
            self.V("request_guard", "stop_accepted_while_" + state, mode=mo.name, state=state,
                   history=M.history[-8:])
        elif expected and not accepted:
            self.V("request_guard", "stop_rejected_while_active", mode=mo.name, state=state,
                   real_active=mo.active, real_stopping=mo.stopping, history=M.history[-8:])
        return res

    def request_stop(self, mo, with_callback):
        """Driver/hook side of a direct stop request, optionally with a completion callback (public API)."""
        if with_callback:
            def c07_user_stop_callback():
                pass
            return mo.stop(callback=c07_user_stop_callback)
        return mo.stop()

    def _wrap_stop_callback(self, tok, inner):
        def c07_stop_callback(*args, **kwargs):
            self.on_stop_callback(tok)
            return inner(*args, **kwargs)
        return c07_stop_callback

    def on_stop_callback(self, tok):
        if self.done:
            return
        M = self.models[tok["mode"]]
        tok["runs"] += 1
        tok["run_cycles"] = M.cycles
        self.clauses["stop_callback"] += 1
        self.obs["stop_callbacks_run"] += 1
        if tok["async"] and tok["state"] == "stopping" and tok["returned"]:
            self.obs["async_stop_callbacks_while_already_stopping_run"] += 1
        info = dict(mode=tok["mode"], handed_in_at=tok["ctx"], state_when_handed_in=tok["state"], belongs_to_stop=tok["k"],
                    stops_completed_now=M.cycles, state_now=M.state, history=M.history[-10:])
        if tok["returned"] is False:
            self.V("stop_callback", "stop_callback_ran_although_stop_returned_false", **info)
        elif tok["runs"] > 1:
            self.V("stop_callback", "stop_callback_ran_twice", runs=tok["runs"], **info)
        elif tok["returned"] is None or M.cycles < tok["k"]:
            self.V("stop_callback", "stop_callback_ran_before_its_stop_completed", **info)
        elif M.cycles > tok["k"]:
            self.V("stop_callback", "stop_callback_ran_at_a_later_stop",
                   restarted_while_finalising=tok["k"] in M.restart_cycles, **info)

    def check_stop_callbacks(self, final=False):
        """Rest point: the stop a callback belongs to has completed (mode_<m>_stopped posted, its completion callback
        run, queues empty) -> the callback has run."""
        for tok in self.cb_tokens:
            if tok["judged"]:
                continue
            M = self.models[tok["mode"]]
            if not tok["returned"]:
                if final:
                    tok["judged"] = True
                    self.clauses["stop_callback"] += 1      # watched to the end: must never run (judged when it runs)
                continue
            if M.cycles >= tok["k"] and not M.finalising:
                tok["judged"] = True
                self.clauses["stop_callback"] += 1
                if tok["state"] == "stopping":
                    # request which overlapped a stop in progress: accepted (returned True) -> completes with it
                    self.clauses["stop_callback_overlap"] += 1
                if tok["runs"] == 0:
                    sig = "stop_callback_never_ran_for_its_stop"
                    if tok["k"] in M.restart_cycles:
                        sig = "stop_callback_lost_when_mode_restarted_while_stop_is_finalising"
                    elif tok["state"] == "stopping":
                        sig = "stop_callback_never_called_for_stop_request_while_already_stopping"
                    mo = self.m.modes[tok["mode"]]
                    self.V("stop_callback", sig, mode=tok["mode"], handed_in_at=tok["ctx"],
                           state_when_handed_in=tok["state"], belongs_to_stop=tok["k"], stops_completed_now=M.cycles,
                           state_now=M.state, pending_in_mode_stop_callbacks=len(mo.stop_callbacks),
                           mode_class=type(mo).__name__, async_mode=tok["async"],
                           history=M.history[-10:])

    # ---------------------------------------------------------------------------------------
    def check_active(self, where):
        mc = self.m.mode_controller
        lst = list(mc.active_modes)
        real = [mo for mo in self.m.modes.values() if mo.active]
        self.clauses["active_list"] += 1
        self._max_active = max(getattr(self, "_max_active", 0), len(lst))
        self.obs["sum_max_active_modes"] = self._max_active
        names = [x.name for x in lst]
        if len(set(names)) != len(names) or set(names) != set(x.name for x in real):
            self.V("active_list", "active_modes_differs_from_active_flags", where=where, active_modes=names,
                   active_flags=sorted(x.name for x in real))
        prios = [x.priority for x in lst]
        if any(prios[i] < prios[i + 1] for i in range(len(prios) - 1)):
            self.V("active_list", "active_modes_not_sorted_by_priority", where=where,
                   active_modes=[[x.name, x.priority] for x in lst])
        for n, M in self.models.items():
            mo = self.m.modes[n]
            model_active = M.state in ("active", "stopping")
            if bool(mo.active) != model_active:
                self.V("active_list", "active_flag_differs_from_lifecycle_state", where=where, mode=n,
                       real_active=mo.active, state=M.state, history=M.history[-8:])
            if mc.is_active(n) != model_active:
                self.V("active_list", "is_active_differs_from_lifecycle_state", where=where, mode=n,
                       is_active=mc.is_active(n), state=M.state)

    # ---------------------------------------------------------------------------------------
    def install_observers(self):
        ev = self.m.events
        for n in self.models:
            for p in PHASES:
                ev.add_handler("mode_%s_%s" % (n, p), self._make_observer(n, p), priority=10 ** 7)
        for n in self.models:
            if "event" in self.cfg[n]["players"]:
                for out in ("epo", "epbig", "epsmall", "epprio"):
                    ev.add_handler("%s_%s" % (out, n), self._make_play_counter(n, out), priority=10 ** 7)
        for hid, hk in enumerate(self.case["hooks"]):
            mi, phase, action, prio, budget, delay, other = hk
            if mi >= len(self.case["modes"]):
                continue
            n = self.case["modes"][mi]["name"]
            on = self.case["modes"][other % len(self.case["modes"])]["name"]
            ev.add_handler("mode_%s_%s" % (n, phase), self._make_hook(hid, n, mi, phase, action, budget, delay, on),
                           priority=prio)

    def _make_play_counter(self, n, out):
        def c07_play_counter(**kwargs):
            self.play_counts[n][out] += 1
        return c07_play_counter

    def expect_plays(self, n, value, at_rest):
        """Driver posts the trigger event of mode n's event_player (judged if every post of the window was at rest)."""
        if n not in self.models or "event" not in self.cfg[n]["players"]:
            return
        M = self.models[n]
        pend = self.pending_plays.get(n)
        if pend is None:
            if not at_rest:
                return      # events are in flight: the mode's state at dispatch is not known; counts start later
            pend = self.pending_plays[n] = {"posts": [], "counts": dict(self.play_counts[n]), "dirty": False,
                                            "lifecycle": sum(M.posted.values()), "calls": M.start_calls}
        pend["posts"].append((value, M.state))

    def check_plays(self):
        """While its mode is active every entry of the player plays exactly once per matching post; while the mode is
        stopped it does not play.  Judged only if the mode's lifecycle did not move between post and rest point."""
        pending, self.pending_plays = self.pending_plays, {}
        for n, pend in pending.items():
            M = self.models[n]
            states = set(st for _v, st in pend["posts"])
            if sum(M.posted.values()) != pend["lifecycle"] or M.start_calls != pend["calls"] or len(states) != 1:
                continue        # the mode's lifecycle moved inside the window
            state = states.pop()
            if state not in ("active", "stopped"):
                continue
            multi = bool(self.cfg[n]["players"].get("event_multi"))
            exp = {"epo": 0, "epbig": 0, "epsmall": 0, "epprio": 0}
            if state == "active":
                for v, _st in pend["posts"]:
                    exp["epo"] += 1
                    if multi:
                        exp["epprio"] += 1
                        exp["epbig" if v > 5 else "epsmall"] += 1
            got = {k: self.play_counts[n][k] - pend["counts"][k] for k in exp}
            self.clauses["player_plays"] += len(exp)
            if got != exp:
                more = any(got[k] > exp[k] for k in exp)
                self.V("player_plays", "config_player_entry_played_%s_than_once_per_post" % ("more" if more else "less")
                       if state == "active" else "config_player_entry_played_while_mode_stopped",
                       mode=n, state=state, posts=pend["posts"], expected=exp, got=got, cycles=M.cycles,
                       handlers_on_trigger=len(self.m.events.registered_handlers.get("ep_" + n, ())))

    def _make_observer(self, n, p):
        def c07_observer(**kwargs):
            if self.done:
                return
            M = self.models[n]
            M.dispatched[p] += 1
            self.check_active("dispatch:%s:%s" % (n, p))
        return c07_observer

    def _make_hook(self, hid, n, mi, phase, action, budget, delay, other_name):
        left = [budget]

        def c07_hook(queue=None, **kwargs):
            if left[0] <= 0 or not self.hooks_enabled or self.done:
                return
            left[0] -= 1
            self.obs["hook_fires"] += 1
            saved = self.ctx
            self.ctx = "hook:%s:%s:%s" % (n, phase, action)
            self.in_lifecycle_handler += 1
            try:
                m = self.m
                if action == "start_self":
                    m.modes[n].start()
                elif action == "stop_self":
                    self.request_stop(m.modes[n], hid % 2 == 1)
                elif action == "post_go_self":
                    m.events.post("go%d" % mi)
                elif action == "post_halt_self":
                    m.events.post("halt%d" % mi)
                elif action == "start_other":
                    m.modes[other_name].start()
                elif action == "stop_other":
                    self.request_stop(m.modes[other_name], hid % 2 == 1)
                elif action == "register_code":
                    # what code-based modes do in mode_start(): register through the mode's own facilities
                    self._register_like_mode_code(n)
                elif action == "post_ctl":
                    # control events of the mode's own devices (some configured with a delay), posted from a
                    # handler of its lifecycle event
                    for e in ("rs_", "rst_", "arst_", "hit_", "tpause_", "tstart_"):
                        m.events.post(e + n)
                    self.obs["delayed_control_events"] += 1
                elif action == "wait" and queue is not None and not queue.waiter:
                    queue.wait()
                    self.held += 1
                    self.obs["held_waits"] += 1
                    self.last_release = max(self.last_release, self.vm.now() + delay)

                    def release():
                        self.held -= 1
                        queue.clear()
                    self.vm.loop.call_later(delay, release)
            finally:
                self.in_lifecycle_handler -= 1
                self.ctx = saved
        return c07_hook

    def _register_like_mode_code(self, n):
        import functools
        mo = self.m.modes[n]
        M = self.models[n]
        if M.state not in ("starting", "active"):
            return      # mode code only registers while its mode runs
        self.obs["code_registrations"] += 1
        run = M.cycles

        def c07_code_cb(mode=None, what=None, **kwargs):
            # a delay / handler registered through the mode's facilities must never run after that run stopped
            self.clauses["registry_mode"] += 1
            if what == "delay" and (M.cycles > run) and not M.finalising:
                self.V("registry_mode", "mode_delay_fired_after_stop", mode=n, registered_in_cycle=run,
                       cycles=M.cycles, state=M.state)
        sw = self.m.switches["s_e"]
        cb = functools.partial(c07_code_cb, mode=mo, what="switch")
        mo.switch_handlers.append(self.m.switch_controller.add_switch_handler_obj(sw, cb, state=1, ms=0))
        mo.switch_handlers.append(self.m.switch_controller.add_switch_handler_obj(sw, cb, state=1, ms=300))
        mo.add_mode_event_handler("code_ev_" + n, c07_code_cb, priority=3, what="event")
        mo.delay.add(ms=1500, callback=c07_code_cb, mode=mo, what="delay")

    # ---------------------------------------------------------------------------------------
    def baseline(self):
        from vlib import c07_snap as S
        self.attr = S.Attribution(self.m, list(self.models))
        self.S0 = S.take(self.m, self.vm.loop, self.attr)

    def quiescent(self):
        ev = self.m.events
        return not ev.event_queue and not ev.callback_queue

    def expect_delivery(self, event):
        """Driver posts `event` at a rest point: remember which modes must see a request for it."""
        for n, M in self.models.items():
            md = self.cfg[n]
            if event in md["stop_events"] and M.state == "active":
                self.pending_delivery.append(("stop", n, event, M.stop_calls, str(self.ctx)))
            if event in md["start_events"]:
                self.pending_delivery.append(("start", n, event, M.start_calls, str(self.ctx)))

    def rest_point(self, where):
        """Event queue drained: evaluate the oracles that need a rest point."""
        from vlib import c07_snap as S
        if not self.quiescent():
            return
        self.obs["rest_points"] += 1
        self.check_active("rest:" + where)
        # every posted lifecycle event was dispatched exactly once (queue events in flight excepted)
        for n, M in self.models.items():
            for p in PHASES:
                self.clauses["dispatch_once"] += 1
                if M.dispatched[p] > M.posted[p] or (M.dispatched[p] < M.posted[p] and not self.m.events._queue_tasks):
                    self.V("dispatch_once", "lifecycle_event_not_dispatched_exactly_once", mode=n, phase=p,
                           posted=M.posted[p], dispatched=M.dispatched[p])
        self.check_stop_callbacks()
        self.check_plays()
        # requests by event
        pend, self.pending_delivery = self.pending_delivery, []
        for what, n, event, before, ctx in pend:
            M = self.models[n]
            self.clauses["request_delivered"] += 1
            calls = M.stop_calls if what == "stop" else M.start_calls
            if calls <= before:
                mo = self.m.modes[n]
                sig = "%s_event_not_delivered_to_%s_mode" % (what, "active" if what == "stop" else "loaded")
                if what == "stop" and M.run_restarted:
                    sig = "restart_while_stop_is_finalising_loses_stop_handlers"
                self.V("request_delivered", sig, restarted_while_finalising=M.restarted_while_finalising,
                       mode=n, event=event, posted_at=ctx, state_now=M.state, history=M.history[-10:],
                       mode_event_handlers=len(mo.event_handlers), mode_devices=len(mo.mode_devices))
        # registries
        snap = S.take(self.m, self.vm.loop, self.attr)
        self.obs["snapshots"] += 1
        # an active (not stopping) mode can be reached by each of its stop events
        for n, M in self.models.items():
            if M.state != "active":
                continue
            have = set(e[1] for e in (snap.per_mode.get(n) or {}) if e[0] == "E" and e[2] == "%s:%s.stop" % (type(self.m.modes[n]).__name__, n))
            for event in self.cfg[n]["stop_events"]:
                self.clauses["request_delivered"] += 1
                if event not in have:
                    sig = "active_mode_has_no_handler_for_its_stop_event"
                    mo = self.m.modes[n]
                    if M.run_restarted:
                        sig = "restart_while_stop_is_finalising_loses_stop_handlers"
                    self.V("request_delivered", sig, mode=n, event=event, history=M.history[-10:],
                           restarted_while_finalising=M.restarted_while_finalising,
                           mode_event_handlers=len(mo.event_handlers), mode_devices=len(mo.mode_devices))
        all_stopped = True
        for n, M in self.models.items():
            if M.state != "stopped":
                all_stopped = False
                continue
            if any(M.dispatched[p] != M.posted[p] for p in PHASES):
                all_stopped = False
                continue
            cur = snap.per_mode.get(n) or {}
            base = self.S0.per_mode.get(n) or {}
            self.clauses["registry_mode"] += 1
            self.obs["registry_entries_compared"] += sum(cur.values()) if cur else 0
            from collections import Counter
            left, missing = S.diff(Counter(cur), Counter(base))
            for entry, cnt in left.items():
                self._registry_violation(n, entry, cnt, "left", snap.kinds.get(entry), M)
            for entry, cnt in missing.items():
                self._registry_violation(n, entry, cnt, "missing", self.S0.kinds.get(entry), M)
        if all_stopped and self.kind == "plain" and not self.m.events._queue_tasks:
            self.clauses["registry_full"] += 1
            left, missing = S.diff(snap.all, self.S0.all)
            for entry, cnt in left.items():
                self._registry_violation(None, entry, cnt, "left", snap.kinds.get(entry), None)
            for entry, cnt in missing.items():
                self._registry_violation(None, entry, cnt, "missing", self.S0.kinds.get(entry), None)

    def _registry_violation(self, n, entry, cnt, direction, owner_kind, M):
        if entry[0] == "T" and ("S",) + tuple(entry[1:]) in self.S0.all:
            return      # pending timed entry of a switch handler that exists before and after: switch activity
        if (direction, entry) in self.reported_entries:
            return      # one report per entry (a leak stays visible at every later rest point)
        self.reported_entries.add((direction, entry))
        cat = {"E": "event_handler", "S": "switch_handler", "T": "timed_switch_entry", "L": "timer"}[entry[0]]
        ok = owner_kind or ""
        text = " ".join(str(x) for x in entry)
        if entry[0] == "L" and ok == "mode.delay":
            sig = "mode_delay_pending_after_stop"
        elif entry[0] == "L" and (ok.endswith(":counter") or ok.endswith(":accrual") or ok.endswith(":sequence")):
            sig = "logic_block_delay_survives_mode_stop"
        elif "TimedSwitch" in text and entry[0] in ("S", "T"):
            sig = "timed_switch_%s_%s_after_stop" % (cat, direction)
        elif M is not None and M.stopped_run_restarted and direction == "left":
            # the removal of the previous run hit the registrations of the run started meanwhile; its own were lost
            sig = "restart_while_stop_is_finalising_leaks_registrations"
        else:
            sig = "%s_%s_after_stop" % (cat, direction)
            if ok.startswith("device"):
                sig += "_" + ok.split(":", 1)[1]
        self.V("registry_mode" if n else "registry_full", sig, mode=n, entry=[str(x) for x in entry], count=cnt,
               owner=owner_kind, cycles=M.cycles if M else None, history=M.history[-8:] if M else None)

    # ---------------------------------------------------------------------------------------
    def final(self):
        self.check_stop_callbacks(final=True)
        holders = [n for n, M in self.models.items()
                   if self.cfg[n]["use_wait_queue"] and M.state != "stopped"]
        for n, M in self.models.items():
            mo = self.m.modes[n]
            if M.state in ("starting", "stopping") and [h for h in holders if h != n]:
                # another wait-queue mode is still running and may hold the queue event this mode waits for
                self.obs["progress_unjudged"] += 1
                continue
            self.clauses["progress"] += M.accepted_starts + M.accepted_stops
            if M.state == "starting":
                self.V("progress", "accepted_start_never_became_active", mode=n, since=M.t_state,
                       history=M.history[-8:], real_starting=mo.starting, real_active=mo.active,
                       queue_tasks=len(self.m.events._queue_tasks))
            elif M.state == "stopping":
                self.V("progress", "accepted_stop_never_completed", mode=n, since=M.t_state, history=M.history[-8:],
                       real_stopping=mo.stopping, real_active=mo.active, queue_tasks=len(self.m.events._queue_tasks))


# =============================================================================================== driver
def _crash_sig(exc):
    """Name the mechanism of an exception that reached the loop from its traceback."""
    import traceback
    names = []
    e = exc
    seen = 0
    while e is not None and seen < 6:
        tb = e.__traceback__
        for fs in traceback.extract_tb(tb):
            names.append(fs.name)
        e = e.__cause__ or e.__context__
        seen += 1
    text = repr(exc)
    if "is not supposed to run outside of game" in text:
        return None, names      # Game.mode_stop's own fail-stop (see ASSUMPTIONS): game lifecycle, not judged here
    if ("Double lock" in text or "Not locked" in text) and "start" in names:
        return "crash_start_event_queue_reposted_to_lifecycle_event", names
    if "_logic_block_timeout" in names or "stop_ignoring_hits" in names:
        return "crash_logic_block_delay_fired_after_mode_stop", names
    if "_process_delay_callback" in names and any(x in names for x in ("event_reset", "event_restart", "event_enable",
                                                                       "event_disable")):
        return "crash_delayed_control_event_fired_after_mode_stop", names
    return "crash_during_mode_lifecycle", names


def run_case(case):
    from vlib.boot import VMachine, MpfCrash, guard_import
    guard_import()
    _install_patches()
    _MON[0] = None
    modes = {md["name"]: _mode_cfg(md) for md in case["modes"]}
    kind = "fake" if case["kind"] == "game" else "plain"
    shape = []
    mon = None
    with VMachine(_machine_cfg(case), modes=modes, shows=SHOWS, kind=kind) as vm:
        m = vm.machine
        mon = _Monitor(vm, case)
        pf = getattr(m, "playfield", None)

        def start_game():
            if m.game:
                return
            def _add_ball(**kwargs):
                pf.balls += 1
                pf.available_balls += 1
            pf.add_ball = _add_ball
            m.ball_controller.num_balls_known = 3
            m.switch_controller.process_switch("s_start", 1, True)
            vm.advance(0.05)
            m.switch_controller.process_switch("s_start", 0, True)
            vm.advance(1.0)
            mon.obs["game_starts"] += 1

        def drain():
            g = m.game
            if not g or g.balls_in_play < 1:
                return
            res = []
            for _ in range(g.balls_in_play):
                m.events.post_relay("ball_drain", callback=lambda **kw: res.append(kw.get("balls", 0)), balls=1)
                vm.advance(0)
            pf.balls -= sum(res)
            pf.available_balls -= sum(res)
            mon.obs["ball_ends"] += 1
            vm.advance(1.0)

        def end_game():
            if not m.game:
                return
            m.game.end_game()
            vm.advance(1.0)
            pf.balls = 0
            pf.available_balls = 0

        def overlapping_stops(op):
            """stop(cb) on a running mode, a handler holds mode_<m>_stopping, then two more requests (stop(cb), and
            stop(cb) / the mode's stop event / ball end / game end) while it is stopping; then the hold is released."""
            _k, mi, hold, gaps, third = op
            md = case["modes"][mi]
            n = md["name"]
            mo = m.modes[n]
            M = mon.models[n]
            mon.obs["overlap_stop_ops"] += 1
            if M.state == "stopped":
                mo.start()
                vm.advance(0.05)
            state = {"armed": True, "held": False}

            def c07_hold_stopping(queue=None, **kwargs):
                if not state["armed"] or mon.done or queue is None or queue.waiter:
                    return
                state["armed"] = False
                state["held"] = True
                queue.wait()
                mon.held += 1
                mon.obs["held_waits"] += 1
                mon.last_release = max(mon.last_release, vm.now() + hold)

                def release():
                    mon.held -= 1
                    queue.clear()
                vm.loop.call_later(hold, release)
            key = m.events.add_handler("mode_%s_stopping" % n, c07_hold_stopping, priority=2)
            try:
                mon.request_stop(mo, True)
                vm.advance(gaps[0])
                if state["held"] and M.state == "stopping":
                    mon.obs["overlap_stop_ops_held"] += 1
                mon.request_stop(mo, True)
                vm.advance(gaps[1])
                if md.get("async") and md["game_mode"] and M.state == "stopping" and third in ("drain", "end_game") \
                        and m.game:
                    mon.obs["ball_or_game_end_while_async_game_mode_stopping"] += 1
                if third == "stop":
                    mon.request_stop(mo, True)
                elif third == "event":
                    m.events.post("halt%d" % mi)
                elif third == "drain":
                    drain()
                elif third == "end_game":
                    end_game()
                vm.advance(max(0.0, mon.last_release - vm.now()) + 0.1)
            finally:
                state["armed"] = False
                m.events.remove_handler_by_key(key)

        try:
            mon.install_observers()
            mon.obs["async_modes"] += sum(1 for md in case["modes"] if md.get("async"))
            vm.advance(HORIZONS["boot_settle_s"])
            mon.baseline()
            _MON[0] = mon
            mon.ctx = "start"
            if case["kind"] == "game":
                start_game()
                mon.rest_point("game_started")
            for i, op in enumerate(case["ops"]):
                k = op[0]
                mon.ctx = "op%d:%s" % (i, ":".join(str(x) for x in op[1:3]))
                if k == "adv":
                    shape.append("a" if op[1] < 0.1 else "A" if op[1] < 1 else "L")
                    vm.advance(op[1])
                    mon.rest_point("adv")
                    continue
                if k in ("start", "stop", "cycle") and op[1] >= len(case["modes"]):
                    continue
                if k == "start":
                    shape.append("s")
                    mo = m.modes[case["modes"][op[1]]["name"]]
                    if op[2] is None:
                        mo.start()
                    else:
                        mo.start(mode_priority=op[2])
                elif k == "stop":
                    with_cb = len(op) > 2 and bool(op[2])
                    shape.append("T" if with_cb else "t")
                    mon.request_stop(m.modes[case["modes"][op[1]]["name"]], with_cb)
                elif k == "post":
                    shape.append("p" if op[1][:2] in ("go", "ha", "fl") else "d")
                    if mon.quiescent():
                        mon.expect_delivery(op[1])
                    if any(op[1].startswith(x) for x in ("rs_", "rst_", "arst_")):
                        mon.obs["delayed_control_events"] += 1
                    if op[1][:3] in ("ep_", "lp_"):
                        val = (7 * i + 3) % 11
                        if op[1][:3] == "ep_":
                            mon.expect_plays(op[1][3:], val, mon.quiescent())
                        m.events.post(op[1], value=val)
                    else:
                        m.events.post(op[1])
                elif k == "qpost":
                    shape.append("q")
                    m.events.post_queue(op[1], callback=lambda **kwargs: None)
                elif k == "sw":
                    shape.append("w")
                    m.switch_controller.process_switch(op[1], op[2], True)
                elif k == "cycle":
                    shape.append("c")
                    mo = m.modes[case["modes"][op[1]]["name"]]
                    for _ in range(op[2]):
                        mo.start()
                        vm.advance(0.05)
                        mon.request_stop(mo, len(op) > 3 and bool(op[3]))
                        vm.advance(0.05)
                        mon.rest_point("cycle")
                elif k == "ostop":
                    shape.append("O" + op[4][0])
                    overlapping_stops(op)
                    mon.rest_point("ostop")
                elif k == "drain":
                    shape.append("B")
                    drain()
                    mon.rest_point("drain")
                elif k == "end_game":
                    shape.append("E")
                    end_game()
                    mon.rest_point("end_game")
                elif k == "start_game":
                    shape.append("G")
                    start_game()
                    mon.rest_point("start_game")
            # ---- wind down: hooks off, release every wait, stop what holds a queue, settle
            mon.ctx = "wind_down"
            mon.hooks_enabled = False
            vm.advance(max(0.0, mon.last_release - vm.now()) + 0.5)
            mon.rest_point("released")
            for _ in range(8):
                if all(M.state in ("stopped", "active") for M in mon.models.values()):
                    break
                # a wait-queue mode started from another mode's queue event legitimately holds it until it stops
                for md in case["modes"]:
                    mo = m.modes[md["name"]]
                    if mo.active and not mo.stopping:
                        mon.request_stop(mo, True)
                vm.advance(max(0.0, mon.last_release - vm.now()) + 1.0)
            for md in case["modes"]:
                mo = m.modes[md["name"]]
                if mo.active and not mo.stopping:
                    mon.request_stop(mo, True)
            mon.ctx = "final"
            vm.advance(max(0.0, mon.last_release - vm.now()) + HORIZONS["settle_s"])
            mon.clauses["no_crash"] += 1
            mon.rest_point("final")
            mon.final()
        except MpfCrash as e:
            cause = e.__cause__
            if isinstance(cause, _Runaway) or "_Runaway" in repr(e):
                mon.obs["runaway"] += 1
                _MON[0] = None
                return {"violations": [], "clauses": mon.clauses, "shape": "runaway", "nontrivial": False,
                        "obs": mon.obs}
            sig, names = _crash_sig(cause) if cause is not None else ("crash_during_mode_lifecycle", [])
            outside = [n for n, md in mon.cfg.items()
                       if md["game_mode"] and (m.modes[n].active or m.modes[n].starting) and
                       not (m.game and m.modes[n].player)]
            if sig is None:
                mon.obs["game_fail_stop_on_game_mode_restarted_at_game_end"] += 1
            elif sig == "crash_during_mode_lifecycle" and outside:
                # a game mode whose start was still in flight when the game ended runs without game/player; what
                # player-scoped config does then is the game lifecycle's matter (see ASSUMPTIONS)
                mon.obs["crash_with_game_mode_running_outside_game"] += 1
            else:
                mon.clauses["no_crash"] += 1
                mon.V("no_crash", sig, exc=repr(e)[:500], frames=names[-12:],
                      states={n: M.state for n, M in mon.models.items()})
        except _Runaway:
            mon.obs["runaway"] += 1
            _MON[0] = None
            mon.done = True
            return {"violations": [], "clauses": mon.clauses, "shape": "runaway", "nontrivial": False, "obs": mon.obs}
        finally:
            _MON[0] = None
            mon.done = True
    # ---------------------------------------------------------------------------------------
    flags = []
    for md in case["modes"]:
        f = ("G" if md["game_mode"] else "n") + ("W" if md["use_wait_queue"] else "") + \
            ({"forever": "A", "finite": "a"}.get(md.get("async"), "")) + \
            "".join(sorted(k[0] + k[-1] for k in md["dev"])) + "/" + "".join(sorted(k[0] for k in md["players"]))
        own = [e for e in md["start_events"] + md["stop_events"] if e.startswith("mode_" + md["name"])]
        if own or any(e.startswith("go") for e in md["ewst"]) or any(e.startswith("halt") for e in md["ews"]):
            f += "!"
        flags.append(f)
    hk = ",".join(sorted("%s:%s" % (h[1][:6], h[2]) for h in case["hooks"]))
    ops = "".join(shape)
    shape_s = "%s|%s|%s|%s" % (case["kind"][0], ";".join(flags), hk, ops[:60])
    nontrivial = mon.obs["full_cycles"] > 0 and mon.clauses["request_guard"] > 0 and mon.clauses["registry_mode"] > 0
    # unknown / most specific signatures first
    order = {"no_crash": 2}
    mon.viol.sort(key=lambda v: order.get(v["clause"], 0))
    return {"violations": mon.viol, "clauses": mon.clauses, "shape": shape_s, "nontrivial": nontrivial, "obs": mon.obs}
