"""C08 — Coils are never driven beyond their configured safety limits.

Runtime monitoring of the real Driver / PlatformController / coil player / dual-wound / digital output /
driver light / flipper / autofire / kickback / ball-device ejector code on the virtual platform in virtual time.
Monitors and oracles live in vlib/c08_mon.py:

* hw_limits / rule_limits : every command that reaches VirtualDriver.pulse/enable/timed_enable or
  VirtualHardwarePlatform.set_*_rule is compared with the coil's envelope (read from the validated config).
* refusal / rule_refusal   : every call of Driver.pulse/enable/timed_enable and PlatformController.set_*_rule
  (whoever the caller is) is classified by an independent rule table; a request above a limit or with a
  negative duration/power must raise and must not leave a driver command (refusal_no_leak).
* sw_pulse_off / hold_limit: offline scan of the driver log: a software-timed pulse and a hold on a coil with
  max_hold_duration are followed by `disable` by their deadline (virtual time).
* dout_limits              : pulses of driver-type digital outputs against the DriverConfig they registered; a
  negative duration must be refused.
* dout_sw_pulse_off        : a driver-type digital output switched on for a software-timed pulse (enable issued from
  inside DigitalOutput.pulse) sees `disable` by t+pulse_ms whatever requests (short hardware pulses included)
  arrive in between; only a later software-timed pulse, enable() or disable() replaces the deadline.
"""

PROPERTY = "C08"
LEVEL = "exploration"
LEVEL_TEXT = ("Exploration: the real actuation code is run on generated coil-limit configurations x hostile parameter "
              "values x interleavings with pending software timers; oracles at the platform-driver boundary and at the "
              "public actuation API decide after every call. Parameters, configurations and interleavings are "
              "unbounded, so sampling with boundary/hostile value classes is the level this family reaches.")
LEVEL_NOTE = ("Trusts MPF's TimeTravelLoop/TestClock for virtual time, the virtual platform as the platform-interface "
              "boundary (serial encodings of FAST/OPP are not observed), and the config validator for the coil's "
              "envelope as read by the monitor.")
TECHNIQUE = ("runtime monitoring: class-level wrappers on VirtualDriver.* / VirtualHardwarePlatform.set_*_rule "
             "(envelope invariant) and on Driver.pulse/enable/timed_enable / PlatformController.set_*_rule "
             "(independent refusal rule table), offline switch-off oracle over the driver log")
RULE = ("case = one generated machine (3-5 coils over the limit lattice + dual-wound coil, digital output, driver light, "
        "flipper/autofire/kickback, coil_player, show; or a ball-device machine with pulse/hold/enable ejectors) and a "
        "generated op list (direct calls, control-event handlers with arbitrary kwargs, posted events, rule installs, "
        "switch changes, machine-variable changes, time steps); distinct = set of (entry point, refusal reasons or "
        "parameter classes, accepted/refused) tokens + coil-limit signature; non-trivial = the refusal table AND the "
        "driver-envelope invariant were both evaluated")
ASSUMPTIONS = [
    "limits configured as 0/None (max_pulse_ms, max_pulse_power, max_hold_power, max_hold_duration) are 'unset': no "
    "statement is made for them; max_pulse_power/max_hold_power 0.0 are not generated",
    "holding is 'allowed by the configuration' iff allow_enable or max_hold_power or default_hold_power is set; without "
    "max_hold_power the only upper bound demanded for hold power is 1.0 (MPF is stricter: default_hold_power); a "
    "hardware-timed hold (timed_enable) on a coil that does not allow holding is not 'left held on': no statement",
    "NaN powers are neither 'above a limit' nor 'negative': no statement on the value itself; but an enable of a coil "
    "whose configuration forbids holding must be refused whatever the hold power is (own signature for NaN)",
    "digital outputs of type driver are not coils with an owner-configured envelope: their commands are judged (own "
    "clause dout_limits / own signature) only against the DriverConfig they registered with the platform "
    "(max_pulse_ms 255) and against 'negative duration'",
    "digital outputs: a short (hardware-timed) pulse request does not replace the pending switch-off of a "
    "software-timed pulse (on /repo the disable comes at the original deadline); a later software-timed pulse "
    "restarts the time, enable() makes the output permanent, disable() ends it",
    "an enable sent straight to the platform driver by SoftwareEosRepulseManager is judged like any other hold "
    "(own signature), although a hardware rule would hold the coil just as long",
    "non-numeric / fractional-ms parameters: either refusal or an in-envelope command is accepted",
    "a later on-command (another software-timed pulse or an enable) issued before the deadline of a software-timed "
    "pulse supersedes that deadline (re-trigger); MPF's extra disable at the old deadline is accepted too",
    "a hold on a coil with max_hold_duration must see `disable` within max_hold_duration of the FIRST enable of an "
    "uninterrupted hold (re-enabling does not extend); hardware pulse/timed_enable commands do not end a hold",
    "max_hold_duration is seconds, timed_enable_ms milliseconds: MPF compares the raw numbers (over-refusal) - "
    "refusing an in-range request is not a violation of this property",
    "defaults (None parameters) are only judged at the platform-driver boundary",
    "after MPF raised into the loop (crash) the case ends; only deadlines that had already passed are judged",
    "exact-instant coincidences: a disable in the same virtual instant as the deadline is in time (eps 1e-6 s)",
]
HORIZONS = {"settle_after_last_deadline_s": 0.5, "max_settle_s": 1500}
TIERS = {"quick": {"cases": 2000, "batch": 50, "case_timeout": 60},
         "thorough": {"cases": 30000, "batch": 250, "case_timeout": 120}}
MIN_EVALS = {"quick": {"hw_limits": 20000, "refusal": 40000, "refusal_no_leak": 8000, "sw_pulse_off": 800,
                       "hold_limit": 800, "rule_limits": 500, "rule_refusal": 2000, "dout_limits": 500,
                       "dout_sw_pulse_off": 800},
             "thorough": {"hw_limits": 300000, "refusal": 600000, "refusal_no_leak": 120000, "sw_pulse_off": 12000,
                          "hold_limit": 12000, "rule_limits": 8000, "rule_refusal": 30000, "dout_limits": 8000,
                          "dout_sw_pulse_off": 12000}}
SHRINK_KEYS = ["ops"]

GEN_VERSION = 2

# The harness shrinks EVERY violating case (20 s budget each).  While a defect that almost every case trips is still
# unrepaired that would cost minutes, so shrink candidates (= run_case calls whose case object is not the one gen_case
# just returned, in a process that generates cases) are only really executed up to this many times per worker
# process; beyond that they return "not reproduced" at once.  Verdicts never come from shrink candidates.
SHRINK_RUNS_PER_PROCESS = {"common": 25, "other": 250}     # COMMON_SIGS share the small budget
_STATE = {"fresh": None, "generating": False, "shrink_runs": {"common": 0, "other": 0}, "chasing": "other"}

MS_LIMITS = [None, None, None, 10, 30, 100, 255, 256, 400, 1000, 3000]
ADV = [0, 0, 0.001, 0.01, 0.05, 0.1, 0.1, 0.2, 0.25, 0.3, 0.5, 0.5, 0.7, 1.0, 1.0, 2.5, 5, 10]


# =================================================================================================
# generation
# =================================================================================================
def _gen_coil(rng, i):
    c = {"number": str(i)}
    mp = rng.choice(MS_LIMITS)
    if mp:
        c["max_pulse_ms"] = mp
    mpp = rng.choice([None, None, 0.25, 0.5, 1.0])
    if mpp:
        c["max_pulse_power"] = mpp
    if rng.random() < 0.4 or (mpp or 1.0) < 1.0:
        # (MPF refuses to boot a coil whose implicit default pulse power 1.0 exceeds max_pulse_power)
        c["default_pulse_power"] = rng.choice([x for x in (0.1, 0.25, 0.5, 1.0) if x <= (mpp or 1.0)])
    k = rng.random()
    if k < 0.4:
        c["default_pulse_ms"] = rng.choice([x for x in (1, 5, 10, 30, 100, 255, 256, 300, 1000) if x <= (mp or 10 ** 9)])
    elif k < 0.55:
        c["default_pulse_ms"] = "machine.c08_ms_%d" % i      # dynamic default (machine variable)
    if rng.random() < 0.4:
        c["allow_enable"] = True
    mhp = rng.choice([None, None, None, 0.1, 0.5, 1.0])
    if mhp:
        c["max_hold_power"] = mhp
    if rng.random() < 0.3:
        c["default_hold_power"] = rng.choice([x for x in (0.05, 0.1, 0.5, 1.0) if x <= (mhp or 1.0)])
    mhd = rng.choice([None, None, None, 0.2, 0.5, 1, 2.5, 10])
    if mhd:
        c["max_hold_duration"] = mhd
    if rng.random() < 0.12:
        c["pulse_with_timed_enable"] = True
    if rng.random() < 0.3:
        # MPF compares default_timed_enable_ms (ms) with max_hold_duration (s) numerically at boot
        pool = [x for x in (0, 1, 2, 5, 50, 300, 2000) if mhd is None or x <= mhd]
        c["default_timed_enable_ms"] = rng.choice(pool)
    if rng.random() < 0.25:
        c["psu"] = "psu2"
    return c


def _hold_ok(c):
    return bool(c.get("allow_enable") or c.get("max_hold_power") or c.get("default_hold_power"))


def _pick_ms(rng, c):
    mp = c.get("max_pulse_ms")
    k = rng.random()
    if k < 0.28:
        return None
    if k < 0.60:
        pool = [1, 5, 10, 20, 30, 100, 255, 256, 300, 500, 1000, 3000]
        if mp:
            pool = [x for x in pool if x <= mp] + [mp, mp, max(1, mp - 1)]
        return rng.choice(pool)
    pool = [0, -1, -5, -1000, 10 ** 6, 1.5, 0.5, -0.5, True, False, "10", "abc", 256, 1000, 5000]
    if mp:
        pool += [mp + 1, mp + 1, mp * 2, mp + 1000]
    return rng.choice(pool)


def _pick_pow(rng, limit):
    k = rng.random()
    if k < 0.35:
        return None
    if k < 0.62:
        return rng.choice([x for x in (0.05, 0.1, 0.25, 0.5, 1.0, 1, limit, round(limit - 0.01, 4)) if x <= limit])
    return rng.choice([0, 0.0, -0.5, -0.0001, -1, -100, 1.0001, 2, 100, round(limit + 0.01, 4), round(limit + 0.01, 4),
                       "#-inf", "#inf", "#nan", True, "0.5", -0.0])


def _pick_te(rng, c):
    mhd = c.get("max_hold_duration")
    k = rng.random()
    if k < 0.3:
        return None
    pool = [0, 1, 2, 5, 50, 300, 1000, -1, -50, -100000, 10 ** 6, 1.5, "5"]
    if mhd:
        pool += [int(mhd * 1000), int(mhd * 1000) + 1, int(mhd), int(mhd) + 1, int(mhd * 1000) * 2]
    return rng.choice(pool)


def _pick_wait(rng):
    return rng.choice([None, None, None, None, None, 0, 10, 100, 1000])


def _hold_limit(c):
    return c.get("max_hold_power") or 1.0


def _gen_kwargs_noise(rng):
    kw = {}
    if rng.random() < 0.3:
        kw[rng.choice(["priority", "foo", "value", "mode", "player", "milliseconds", "power"])] = \
            rng.choice([0, 1, -5, "x", None, 2.5])
    return kw


def _gen_dout_req(rng):
    """[how, what, pulse_ms]: how = api | handler (event_* called with kwargs) | post (real control event)."""
    how = rng.choice(["api", "handler", "post"])
    k = rng.random()
    if k < 0.40:
        return [how, "pulse", rng.choice([256, 300, 500, 1000, 3000])]        # software-timed
    if k < 0.70:
        return [how, "pulse", rng.choice([1, 20, 100, 255])]                    # hardware-timed
    if k < 0.80:
        return [how, "enable", None]
    if k < 0.90:
        return [how, "disable", None]
    if how == "post":       # a refusal inside the event system would crash MPF and end the case
        return [how, "pulse", rng.choice([0, 255, 256, 10 ** 5])]
    return [how, "pulse", rng.choice([0, -5, -1000, 10 ** 5, 1.5, "10", True])]


def _gen_api_ops(rng, case, n_ops):
    coils = case["coils"]
    names = sorted(coils)
    ops = []
    ex = case["extras"]
    for _ in range(n_ops):
        k = rng.random()
        name = rng.choice(names)
        c = coils[name]
        if k < 0.16:
            ops.append(["adv", rng.choice(ADV)])
        elif k < 0.30:
            ops.append(["pulse", name, _pick_ms(rng, c), _pick_pow(rng, c.get("max_pulse_power") or 1.0),
                        _pick_wait(rng)])
        elif k < 0.42:
            ops.append(["enable", name, _pick_ms(rng, c), _pick_pow(rng, c.get("max_pulse_power") or 1.0),
                        _pick_pow(rng, _hold_limit(c)), _pick_wait(rng)])
        elif k < 0.52:
            ops.append(["timed_enable", name, _pick_te(rng, c), _pick_pow(rng, _hold_limit(c)), _pick_ms(rng, c),
                        _pick_pow(rng, c.get("max_pulse_power") or 1.0), _pick_wait(rng)])
        elif k < 0.58:
            ops.append(["disable", name])
        elif k < 0.70:
            # control-event handler called the way the event system calls it: keyword arguments only
            which = rng.choice(["pulse", "pulse", "enable", "timed_enable", "disable"])
            kw = _gen_kwargs_noise(rng)
            if which in ("pulse", "enable", "timed_enable"):
                if rng.random() < 0.7:
                    kw["pulse_ms"] = _pick_ms(rng, c)
                if rng.random() < 0.6:
                    kw["pulse_power"] = _pick_pow(rng, c.get("max_pulse_power") or 1.0)
            if which in ("enable", "timed_enable") and rng.random() < 0.6:
                kw["hold_power"] = _pick_pow(rng, _hold_limit(c))
            if which == "timed_enable" and rng.random() < 0.7:
                kw["timed_enable_ms"] = _pick_te(rng, c)
            if which in ("pulse", "timed_enable") and rng.random() < 0.2:
                kw["max_wait_ms"] = _pick_wait(rng)
            ops.append(["ev", which, name, kw])
        elif k < 0.74:
            # long pulse that is certainly legal on this coil -> software-timed pulse with a pending timer
            mp = c.get("max_pulse_ms")
            pool = [x for x in (256, 300, 500, 1000, 3000) if not mp or x <= mp]
            if pool:
                ops.append(["pulse", name, rng.choice(pool), None, rng.choice([None, None, 100])])
            else:
                ops.append(["pulse", name, None, None, None])
        elif k < 0.78:
            if _hold_ok(c):
                ops.append(["enable", name, None, None, None, rng.choice([None, None, 100])])
            else:
                ops.append(["disable", name])
        elif k < 0.82:
            which = rng.choice(["pulse", "pulse", "enable", "disable"])
            ops.append(["dual", which, rng.choice([None, 10, 300, -5, 10 ** 5]),
                        rng.choice([None, 0.5, 1.0, -0.5, 2])])
        elif k < 0.85:
            # driver-type digital outputs: single request, or a burst of requests inside one software-timed window
            do = rng.choice(["do1", "do2"])
            if rng.random() < 0.5:
                ops.append(["dout", do] + _gen_dout_req(rng))
            else:
                ops.append(["dout_burst", do, [_gen_dout_req(rng) + [rng.choice([0, 0.05, 0.1, 0.1, 0.3, 1.0])]
                                               for _ in range(rng.choice([2, 3, 3, 4]))]])
        elif k < 0.88:
            if ex.get("light"):
                ops.append(["light", rng.choice([0, 0.0, 0.05, 0.1, 0.5, 1.0, 1.0])])
            else:
                ops.append(["adv", rng.choice(ADV)])
        elif k < 0.93:
            rule = rng.choice(["set_pulse_on_hit_rule", "set_pulse_on_hit_and_release_rule",
                               "set_pulse_on_hit_and_enable_and_release_rule",
                               "set_pulse_on_hit_and_release_and_disable_rule",
                               "set_pulse_on_hit_and_enable_and_release_and_disable_rule"])
            ops.append(["rule", rule, name, _pick_ms(rng, c), _pick_pow(rng, c.get("max_pulse_power") or 1.0),
                        _pick_pow(rng, _hold_limit(c)), rng.random() < 0.3])
        elif k < 0.955:
            ops.append(["dev", rng.choice(["flipper", "flipper", "autofire", "kickback"]),
                        rng.choice(["enable", "enable", "disable", "sw_flip", "sw_release", "search"])])
        elif k < 0.968:
            ops.append(["switch", rng.choice(["s_flip", "s_flip", "s_eos", "s_eos", "s_af", "s_kb"]),
                        rng.choice([0, 1])])
        elif k < 0.975:
            # button held, EOS closes long enough and opens again (software EOS repulse), button released later
            ops.append(["eos_cycle", rng.choice([0.05, 0.15, 0.15, 0.3]), rng.choice([0.1, 0.5, 1.0, 3.0, 12.0])])
        elif k < 0.985:
            ops.append(["setvar", "c08_ms_%s" % name[1:], rng.choice([1, 10, 20, 100, 255, 256, 500, 3000, 0, -5, 2.5])])
        elif k < 0.992:
            ops.append(["setting", rng.choice(ex["power_values"])])
        else:
            # real event through the event system; in-envelope kwargs (a refusal would crash MPF and end the case)
            which = rng.choice(["pulse", "enable", "disable", "timed_enable", "cp", "show"])
            ops.append(["post", which, name, {}])
    # last op: possibly one hostile request through the real event system / coil player
    if rng.random() < 0.5:
        name = rng.choice(names)
        c = coils[name]
        which = rng.choice(["pulse", "enable", "timed_enable", "cp", "cp", "show"])
        kw = {}
        if which != "cp" and which != "show":
            kw["pulse_ms"] = _pick_ms(rng, c)
            kw["pulse_power"] = _pick_pow(rng, c.get("max_pulse_power") or 1.0)
            if which != "pulse":
                kw["hold_power"] = _pick_pow(rng, _hold_limit(c))
        ops.append(["adv", rng.choice(ADV)])
        ops.append(["post", which, name, kw])
        ops.append(["adv", 1.0])
    return ops


def _jsonable_num(v):
    return v


def gen_case(rng, tier, index):
    case = _gen_case(rng, tier, index)
    case["salt"] = rng.randrange(1 << 30)
    _STATE["fresh"] = case
    _STATE["generating"] = True
    return case


def _gen_case(rng, tier, index):
    kind = "balldev" if rng.random() < 0.12 else "api"
    if kind == "balldev":
        return _gen_balldev(rng, tier, index)
    n = rng.choice([3, 3, 4, 5])
    coils = {"c%d" % i: _gen_coil(rng, i) for i in range(n)}
    names = sorted(coils)
    ex = {}
    # coil player entries (config-level parameters are NOT range-validated by the spec: hostile values boot fine)
    cps = {}
    for nm in names:
        c = coils[nm]
        hostile = rng.random() < 0.5
        act = rng.choice(["pulse", "pulse", "enable", "disable"])
        s = {"action": act}
        if act != "disable":
            if hostile:
                ms = rng.choice([None, -5, 10 ** 5, 0] + ([c["max_pulse_ms"] + 1] if c.get("max_pulse_ms") else []))
                pw = rng.choice([None, -0.5, 2.0, round((c.get("max_pulse_power") or 1.0) + 0.01, 4)])
            else:
                ms = rng.choice([None, 5, 10] + ([c["max_pulse_ms"]] if c.get("max_pulse_ms") else [300]))
                pw = rng.choice([None, c.get("max_pulse_power") or 1.0, 0.1])
            if ms is not None:
                s["pulse_ms"] = ms
            if pw is not None:
                s["pulse_power"] = pw
            if act == "enable":
                hp = rng.choice([None, -0.5, 1.5]) if hostile else rng.choice([None, _hold_limit(c)])
                if hp is not None:
                    s["hold_power"] = hp
        cps[nm] = s
    ex["coil_player"] = cps
    ex["show_coil"] = rng.choice(names)
    ex["show_hostile"] = rng.random() < 0.3
    ex["dual"] = [rng.choice(names), rng.choice(names)]
    ex["light"] = rng.choice(names) if rng.random() < 0.6 else None
    # flipper layout
    fl = {"main": rng.choice(names), "hold": rng.choice([None, rng.choice(names)]),
          "use_eos": rng.random() < 0.5, "repulse": rng.random() < 0.6,
          "power_setting": rng.random() < 0.4,
          "main_ow": {}, "hold_ow": {}}
    if fl["hold"] == fl["main"]:
        fl["hold"] = None
    for key in ("main_ow", "hold_ow"):
        if rng.random() < 0.5:
            ow = {}
            if rng.random() < 0.7:
                ow["pulse_ms"] = rng.choice([1, 10, 30, 100, 255, 300, 2000])
            if rng.random() < 0.5:
                ow["pulse_power"] = rng.choice([0.0, 0.1, 0.5, 1.0])
            if rng.random() < 0.5:
                ow["hold_power"] = rng.choice([0.0, 0.1, 0.5, 1.0])
            fl[key] = ow
    ex["flipper"] = fl
    ex["autofire"] = {"coil": rng.choice(names),
                      "ow": rng.choice([{}, {"pulse_ms": rng.choice([5, 30, 300, 2000])},
                                        {"pulse_power": rng.choice([0.1, 0.5, 1.0])}])}
    ex["kickback"] = {"coil": rng.choice(names), "ow": rng.choice([{}, {"pulse_ms": rng.choice([5, 30, 300])}])}
    ex["power_values"] = [-1.0, 0.0, 0.5, 1.0, 2.0, 50.0]
    ex["psu_release"] = rng.choice([10, 10, 50, 500])
    case = {"v": GEN_VERSION, "kind": "api", "platform": rng.choice(["virtual", "virtual", "smart_virtual"]),
            "coils": coils, "extras": ex}
    n_ops = 140 if tier == "quick" else rng.choice([140, 250, 400])
    case["ops"] = _gen_api_ops(rng, case, n_ops)
    return case


def _gen_balldev(rng, tier, index):
    def ej_coil(i, hold=False):
        c = {"number": str(i)}
        mp = rng.choice([None, None, 20, 30, 100, 400])
        if mp:
            c["max_pulse_ms"] = mp
        c["default_pulse_ms"] = rng.choice([x for x in (10, 20, 30) if x <= (mp or 10 ** 9)])
        if rng.random() < 0.3:
            c["max_pulse_power"] = rng.choice([0.5, 1.0])
            c["default_pulse_power"] = 0.5
        if hold:
            k = rng.random()
            if k < 0.5:
                c["allow_enable"] = True
            elif k < 0.8:
                c["max_hold_power"] = rng.choice([0.2, 0.5])
            # else: holding not allowed -> ejector must be refused
            if rng.random() < 0.5:
                c["max_hold_duration"] = rng.choice([0.2, 1, 2.5])
        if rng.random() < 0.2:
            c["psu"] = "psu2"
        return c
    ms_pool = [5, 10, 15, 20, 30, 50, 100, 300, 500]
    case = {"v": GEN_VERSION, "kind": "balldev", "platform": rng.choice(["virtual", "smart_virtual", "smart_virtual"]),
            "coils": {"c0": ej_coil(0), "c1": ej_coil(1, hold=True), "c2": ej_coil(2, hold=True), "c3": ej_coil(3)},
            "extras": {
                "trough": {"eject_times": rng.choice([None, [rng.choice(ms_pool)], [rng.choice(ms_pool), rng.choice(ms_pool)]]),
                           "jam": rng.choice([None, [rng.choice(ms_pool)]]),
                           "retry": rng.choice([None, [rng.choice(ms_pool)], [rng.choice(ms_pool), rng.choice(ms_pool)]]),
                           "reorder": rng.choice([None, rng.choice(ms_pool)]),
                           "max_wait": rng.choice([0, 200, 1000]),
                           "retries": rng.choice([1, 2, 4])},
                "enable_time": rng.choice([[100], [300], [1000, 500], [3000]]),
                "hold_release": rng.choice([100, 500, 1000]),
                "start_active": rng.sample(["s_t1", "s_t2", "s_t3", "s_en", "s_hold", "s_pl"], rng.randint(0, 5)),
                "psu_release": rng.choice([10, 50, 500])}}
    ops = []
    n_ops = 60 if tier == "quick" else rng.choice([60, 120])
    sw = ["s_t1", "s_t2", "s_t3", "s_jam", "s_en", "s_hold", "s_pl", "s_pf"]
    for _ in range(n_ops):
        k = rng.random()
        if k < 0.30:
            ops.append(["adv", rng.choice([0, 0.01, 0.1, 0.2, 0.5, 1, 1, 2.5, 5, 10, 30])])
        elif k < 0.60:
            ops.append(["switch", rng.choice(sw), rng.choice([0, 1])])
        elif k < 0.66:
            ops.append(["hit", rng.choice(sw)])
        elif k < 0.80:
            ops.append(["bd", rng.choice(["bd_trough", "bd_enable", "bd_hold", "bd_plunger"]),
                        rng.choice(["eject", "eject", "eject_all", "request_ball"])])
        elif k < 0.86:
            ops.append(["pf", rng.choice(["add_ball", "add_ball", "search_start", "search_stop"])])
        elif k < 0.90:
            ops.append(["post", rng.choice(["c08_hold_ev", "c08_hold_ev", "c08_pulse_c0", "c08_disable_c1"])])
        else:
            name = rng.choice(["c0", "c1", "c2", "c3"])
            c = case["coils"][name]
            ops.append(rng.choice([["pulse", name, _pick_ms(rng, c), None, rng.choice([None, 100])],
                                   ["disable", name],
                                   ["enable", name, None, None, None, None]]))
    case["ops"] = ops
    return case


# =================================================================================================
# machine configs
# =================================================================================================
def _num(v):
    if isinstance(v, str) and v.startswith("#"):
        return float(v[1:])
    return v


def _api_config(case):
    coils = {}
    mvars = {}
    ex = case["extras"]
    for name, c in case["coils"].items():
        cc = dict(c)
        cc["pulse_events"] = "c08_pulse_%s" % name
        cc["enable_events"] = "c08_enable_%s" % name
        cc["disable_events"] = "c08_disable_%s" % name
        cc["timed_enable_events"] = "c08_timed_enable_%s" % name
        coils[name] = cc
        mvars["c08_ms_%s" % name[1:]] = {"initial_value": 20 if (c.get("max_pulse_ms") or 20) >= 20 else 5,
                                          "value_type": "int", "persist": False}
    cfg = {
        "psus": {"default": {"release_wait_ms": ex.get("psu_release", 10)}, "psu2": {"release_wait_ms": 100}},
        "machine_vars": mvars,
        "coils": coils,
        "switches": {"s_flip": {"number": "1"}, "s_eos": {"number": "2"}, "s_af": {"number": "3"},
                     "s_kb": {"number": "4"}, "s_r1": {"number": "5"}, "s_r2": {"number": "6"}},
        "settings": {"c08_power": {"label": "c08 power", "sort": 1, "key_type": "float", "default": 1.0,
                                   "values": {v: "v%s" % i for i, v in enumerate(ex["power_values"])}}},
        "dual_wound_coils": {"dw": {"main_coil": ex["dual"][0], "hold_coil": ex["dual"][1]}},
        "digital_outputs": {nm: {"number": str(40 + i), "type": "driver",
                                 "enable_events": "c08_do_enable_%s" % nm,
                                 "disable_events": "c08_do_disable_%s" % nm}
                            for i, nm in enumerate(("do1", "do2"))},
        "coil_player": {"c08_cp_%s" % nm: {nm: s} for nm, s in ex["coil_player"].items()},
        "show_player": {"c08_show_start": {"c08_show": {"loops": 0}}},
    }
    if ex.get("light"):
        cfg["lights"] = {"l1": {"number": ex["light"], "platform": "drivers"}}
    fl = ex["flipper"]
    f = {"main_coil": fl["main"], "activation_switch": "s_flip", "enable_events": "c08_never",
         "disable_events": "c08_never2"}
    if fl["hold"]:
        f["hold_coil"] = fl["hold"]
    if fl["use_eos"]:
        f["use_eos"] = True
        f["eos_switch"] = "s_eos"
        f["repulse_on_eos_open"] = bool(fl["repulse"])
        f["eos_active_ms_before_repulse"] = 100
    if fl["power_setting"]:
        f["power_setting_name"] = "c08_power"
    if fl["main_ow"]:
        f["main_coil_overwrite"] = fl["main_ow"]
    if fl["hold_ow"]:
        f["hold_coil_overwrite"] = fl["hold_ow"]
    f["include_in_ball_search"] = True
    cfg["flippers"] = {"fl": f}
    af = {"coil": ex["autofire"]["coil"], "switch": "s_af", "enable_events": "c08_never", "disable_events": "c08_never2"}
    if ex["autofire"]["ow"]:
        af["coil_overwrite"] = ex["autofire"]["ow"]
    cfg["autofire_coils"] = {"af": af}
    kb = {"coil": ex["kickback"]["coil"], "switch": "s_kb", "disable_events": "c08_never2"}
    if ex["kickback"]["ow"]:
        kb["coil_overwrite"] = ex["kickback"]["ow"]
    cfg["kickbacks"] = {"kb": kb}
    sc = ex["show_coil"]
    step2 = {"action": "pulse", "pulse_power": -0.25} if ex["show_hostile"] else {"action": "pulse"}
    shows = {"c08_show": [{"time": 0, "coils": {sc: "pulse"}},
                          {"time": "+0.3", "coils": {sc: step2}},
                          {"time": "+0.3", "coils": {sc: "disable"}}]}
    return cfg, shows


def _balldev_config(case):
    ex = case["extras"]
    coils = {}
    for name, c in case["coils"].items():
        cc = dict(c)
        cc["pulse_events"] = "c08_pulse_%s" % name
        cc["disable_events"] = "c08_disable_%s" % name
        coils[name] = cc
    tr = ex["trough"]
    trough = {"ball_switches": "s_t1, s_t2, s_t3", "jam_switch": "s_jam", "eject_coil": "c0", "tags": "trough, home, drain",
              "eject_targets": "bd_plunger", "eject_timeouts": "2s", "eject_coil_max_wait_ms": tr["max_wait"],
              "retries_before_increasing_pulse": tr["retries"]}
    if tr["eject_times"]:
        trough["ejector"] = {"class": "mpf.devices.ball_device.pulse_coil_ejector.PulseCoilEjector",
                             "eject_times": ", ".join("%dms" % x for x in tr["eject_times"])}
    if tr["jam"]:
        trough["eject_coil_jam_pulse"] = ", ".join("%dms" % x for x in tr["jam"])
    if tr["retry"]:
        trough["eject_coil_retry_pulse"] = ", ".join("%dms" % x for x in tr["retry"])
    if tr["reorder"]:
        trough["eject_coil_reorder_pulse"] = "%dms" % tr["reorder"]
    cfg = {
        "psus": {"default": {"release_wait_ms": ex.get("psu_release", 10)}, "psu2": {"release_wait_ms": 100}},
        "coils": coils,
        "switches": {"s_t1": {"number": "1"}, "s_t2": {"number": "2"}, "s_t3": {"number": "3"},
                     "s_jam": {"number": "4"}, "s_en": {"number": "5"}, "s_hold": {"number": "6"},
                     "s_pl": {"number": "7"}, "s_pf": {"number": "8", "tags": "playfield_active"}},
        "virtual_platform_start_active_switches": ex["start_active"],
        "playfields": {"playfield": {"default_source_device": "bd_plunger", "tags": "default"}},
        "ball_devices": {
            "bd_trough": trough,
            "bd_plunger": {"ball_switches": "s_pl", "eject_coil": "c3", "eject_timeouts": "3s"},
            "bd_enable": {"ball_switches": "s_en", "eject_coil": "c1", "eject_timeouts": "2s",
                          "eject_coil_enable_time": ", ".join("%dms" % x for x in ex["enable_time"])},
            "bd_hold": {"hold_coil": "c2", "hold_switches": "s_hold", "ball_switches": "s_hold",
                        "hold_events": "c08_hold_ev", "hold_coil_release_time": "%dms" % ex["hold_release"],
                        "eject_timeouts": "2s"},
        },
    }
    if not ex["start_active"]:
        del cfg["virtual_platform_start_active_switches"]
    return cfg, None


# =================================================================================================
# execution
# =================================================================================================
def _limit_sig(coils):
    out = []
    for name in sorted(coils):
        c = coils[name]
        out.append("%s%s%s%s%s%s" % (
            "P" if c.get("max_pulse_ms") else "-",
            "S" if (c.get("max_pulse_ms") or 10 ** 9) > 255 else "-",
            "W" if c.get("max_pulse_power") not in (None, 1.0) else "-",
            "H" if _hold_ok(c) else "-",
            "D" if c.get("max_hold_duration") else "-",
            "T" if c.get("pulse_with_timed_enable") else "-"))
    return ".".join(sorted(out))


def run_case(case):
    import hashlib
    from vlib.boot import VMachine, MpfCrash
    from vlib.c08_mon import Monitor
    from vlib import boot
    boot.guard_import()

    fresh = True
    if _STATE["generating"]:
        if case is _STATE["fresh"]:
            _STATE["fresh"] = None
        else:
            fresh = False
            kind = _STATE["chasing"]
            _STATE["shrink_runs"][kind] += 1
            if _STATE["shrink_runs"][kind] > SHRINK_RUNS_PER_PROCESS[kind]:
                return {"violations": [], "clauses": {}, "shape": "shrink-budget", "nontrivial": False, "obs": {}}

    mon = Monitor()
    trace = []
    obs_extra = {"boot_failed": 0, "crashed": 0, "ops_run": 0, "op_exceptions": 0}
    if case["kind"] == "api":
        cfg, shows = _api_config(case)
    else:
        cfg, shows = _balldev_config(case)
    vm = None
    mon.install()
    try:
        try:
            vm = VMachine(cfg, shows=shows, platform=case.get("platform", "virtual"))
        except Exception as e:   # noqa  generated config refused at boot: nothing observed, not a verdict
            obs_extra["boot_failed"] = 1
            obs = dict(mon.obs)
            obs.update(obs_extra)
            return {"violations": [], "clauses": dict(mon.clauses), "shape": "boot_failed", "nontrivial": False,
                    "obs": obs, "trace": [repr(e)[:300]]}
        mon.bind(vm.machine)
        t_ok = vm.now()
        crashed = None
        try:
            for op in case["ops"]:
                obs_extra["ops_run"] += 1
                try:
                    _do_op(vm, case, op, mon, obs_extra)
                    mon.flush()
                except MpfCrash as e:
                    crashed = repr(e)[:300]
                    break
                t_ok = vm.now()
            if crashed is None:
                # settle: let every open switch-off obligation fall due
                for _ in range(4):
                    d = mon.pending_deadline()
                    now = vm.now()
                    step = 0.5 if d is None else min(max(d - now, 0) + 0.5, 1500)
                    try:
                        vm.advance(step)
                    except MpfCrash as e:
                        crashed = repr(e)[:300]
                        break
                    t_ok = vm.now()
                    d2 = mon.pending_deadline()
                    if d2 is None or d2 <= t_ok - 0.25:
                        break
        finally:
            if crashed:
                obs_extra["crashed"] = 1
                trace.append("crash: " + crashed)
            mon.finish(t_ok)
    finally:
        try:
            if vm is not None:
                vm.close()
        finally:
            mon.uninstall()

    obs = dict(mon.obs)
    obs.update(obs_extra)
    shape_src = _limit_sig(case["coils"]) + "|" + case["kind"] + "|" + "|".join(sorted(mon.shape))
    shape = case["kind"] + ":" + _limit_sig(case["coils"]) + ":" + hashlib.sha1(shape_src.encode()).hexdigest()[:12]
    nontrivial = mon.clauses["refusal"] > 0 and mon.clauses["hw_limits"] > 0
    trace = trace + [mon._ev_short(e) for e in mon.events[:25]] + mon.api_log[:25]
    viol = _one_violation(mon.viol, case)
    if fresh and viol:
        _STATE["chasing"] = "common" if viol[0]["sig"] in COMMON_SIGS else "other"
    return {"violations": viol, "clauses": dict(mon.clauses), "shape": shape, "nontrivial": nontrivial,
            "obs": obs, "trace": trace}


# Signatures that the unchanged tree trips in almost every case (one root cause family each).  The harness shrinks a
# case for its FIRST violation only but files a replay per signature, so a case reports exactly ONE violation:
# anything outside this family first, then unknown-before-known, rotated by the case's salt so that every
# signature present in the run gets cases (and replays that really reproduce it).
COMMON_SIGS = ["C08:negative_pulse_ms", "C08:negative_pulse_power", "C08:negative_hold_power",
               "C08:negative_timed_enable_ms", "C08:nan_hold_power_passes_hold_checks",
               "C08:digital_output_pulse_unchecked"]


def _one_violation(viol, case):
    import os
    if len(viol) <= 1:
        return viol
    known = set(x for x in os.environ.get("VERIF_KNOWN_SIGS", "").split(",") if x)
    tiers = [[v for v in viol if v["sig"] not in known and v["sig"] not in COMMON_SIGS],
             [v for v in viol if v["sig"] not in known and v["sig"] in COMMON_SIGS],
             [v for v in viol if v["sig"] in known]]
    pool = [t for t in tiers if t][0]
    pool = sorted(pool, key=lambda v: v["sig"])
    names = sorted(set(COMMON_SIGS) | set(v["sig"] for v in pool))
    rot = case.get("salt", 0) % len(names)
    order = names[rot:] + names[:rot]
    pick = min(pool, key=lambda v: order.index(v["sig"]))
    pick["detail"]["other_signatures_in_this_case"] = sorted(v["sig"] for v in viol if v is not pick)
    return [pick]


def _call(obs_extra, f, *a, **k):
    """Direct call of a public method: an exception is a refusal, never a harness error."""
    try:
        f(*a, **k)
        return None
    except Exception as e:   # noqa
        obs_extra["op_exceptions"] += 1
        return e


def _do_op(vm, case, op, mon, obs_extra):
    """Run one op.  Direct calls of public actuation methods may raise (= refusal, the case goes on); an exception
    out of anything that in a real machine runs inside the loop (switch handlers, event posts, ball devices) is what
    would crash MPF: the case ends there (MpfCrash)."""
    from vlib.boot import MpfCrash
    try:
        _do_op_inner(vm, case, op, mon, obs_extra)
    except MpfCrash:
        raise
    except Exception as e:   # noqa
        try:
            vm.machine.stop()
        except Exception:   # noqa
            pass
        raise MpfCrash(repr(e)) from e


def _dout_req(vm, m, obs_extra, name, how, what, ms):
    do = m.digital_outputs.get(name) if hasattr(m.digital_outputs, "get") else m.digital_outputs[name]
    if do is None:
        return
    ms = _num(ms)
    if how == "post" and what != "pulse":
        # (config_spec has enable_events/disable_events for digital outputs but no pulse_events: the pulse handler
        #  event_pulse is exercised by calling it with keyword arguments the way the event system would)
        m.events.post("c08_do_%s_%s" % (what, name))
        vm.advance(0)
    elif how in ("handler", "post"):
        if what == "pulse":
            _call(obs_extra, do.event_pulse, pulse_ms=ms, priority=0)
        else:
            _call(obs_extra, getattr(do, "event_" + what), priority=0)
    else:
        if what == "pulse":
            _call(obs_extra, do.pulse, ms)
        else:
            _call(obs_extra, getattr(do, what))


def _do_op_inner(vm, case, op, mon, obs_extra):
    m = vm.machine
    kind = op[0]
    if kind == "adv":
        vm.advance(float(op[1]))
        return
    if kind in ("pulse", "enable", "timed_enable", "disable"):
        coil = m.coils[op[1]]
        args = [_num(x) for x in op[2:]]
        _call(obs_extra, getattr(coil, kind), *args)
        return
    if kind == "ev":
        coil = m.coils[op[2]]
        kw = {k: _num(v) for k, v in op[3].items()}
        _call(obs_extra, getattr(coil, "event_" + op[1]), **kw)
        return
    if kind == "dual":
        dw = m.coils["dw"]
        if op[1] == "pulse":
            _call(obs_extra, dw.event_pulse, milliseconds=_num(op[2]), power=_num(op[3]))
        elif op[1] == "enable":
            _call(obs_extra, dw.enable)
        else:
            _call(obs_extra, dw.disable)
        return
    if kind == "dout":
        if len(op) == 3:        # generator version 1: ["dout", what, ms]
            op = ["dout", "do1", "handler", op[1], op[2]]
        _dout_req(vm, m, obs_extra, op[1], op[2], op[3], op[4])
        return
    if kind == "dout_burst":
        for how, what, ms, dt in op[2]:
            _dout_req(vm, m, obs_extra, op[1], how, what, ms)
            vm.advance(float(dt))
        return
    if kind == "light":
        if "l1" in m.lights:
            b = float(op[1])
            _call(obs_extra, m.lights["l1"].color, [int(b * 255)] * 3)
            vm.advance(0.05)
        return
    if kind == "rule":
        from mpf.core.platform_controller import SwitchRuleSettings, DriverRuleSettings, PulseRuleSettings, \
            HoldRuleSettings, EosRuleSettings
        pc = m.platform_controller
        name, coil = op[1], m.coils[op[2]]
        sw1 = SwitchRuleSettings(switch=m.switches["s_r1"], debounce=False, invert=False)
        sw2 = SwitchRuleSettings(switch=m.switches["s_r2"], debounce=False, invert=False)
        drv = DriverRuleSettings(driver=coil, recycle=False)
        pulse = PulseRuleSettings(duration=_num(op[3]), power=_num(op[4]))
        hold = HoldRuleSettings(power=_num(op[5]))
        eos = EosRuleSettings(enable_repulse=bool(op[6]), debounce_ms=50)
        if name in ("set_pulse_on_hit_rule", "set_pulse_on_hit_and_release_rule"):
            args = (sw1, drv, pulse)
        elif name == "set_pulse_on_hit_and_enable_and_release_rule":
            args = (sw1, drv, pulse, hold)
        elif name == "set_pulse_on_hit_and_release_and_disable_rule":
            args = (sw1, sw2, drv, pulse, eos)
        else:
            args = (sw1, sw2, drv, pulse, hold, eos)
        try:
            rule = getattr(pc, name)(*args)
        except Exception:   # noqa
            obs_extra["op_exceptions"] += 1
            # a half-installed rule would make the next install fail for an unrelated reason: clear the platform table
            for key in [k for k in getattr(coil.platform, "rules", {}) if k[1] is coil.hw_driver and
                        k[0] in (m.switches["s_r1"].hw_switch, m.switches["s_r2"].hw_switch)]:
                del coil.platform.rules[key]
            return
        _call(obs_extra, pc.clear_hw_rule, rule)
        return
    if kind == "dev":
        dev = {"flipper": m.flippers["fl"], "autofire": m.autofire_coils["af"], "kickback": m.kickbacks["kb"]}[op[1]]
        what = op[2]
        if what == "search":
            _call(obs_extra, dev._ball_search, 1, 1)
        elif hasattr(dev, what):
            _call(obs_extra, getattr(dev, what))
        return
    if kind == "switch":
        if op[1] in m.switches:
            m.switch_controller.process_switch(op[1], int(op[2]), logical=True)
            vm.advance(0)
        return
    if kind == "eos_cycle":
        for nm, st, dt in (("s_flip", 1, 0.01), ("s_eos", 1, float(op[1])), ("s_eos", 0, float(op[2])),
                           ("s_flip", 0, 0.01)):
            m.switch_controller.process_switch(nm, st, logical=True)
            vm.advance(dt)
        return
    if kind == "hit":
        if op[1] in m.switches:
            m.switch_controller.process_switch(op[1], 1, logical=True)
            vm.advance(0.01)
            m.switch_controller.process_switch(op[1], 0, logical=True)
            vm.advance(0)
        return
    if kind == "setvar":
        if m.variables.is_machine_var(op[1]):
            m.variables.set_machine_var(op[1], op[2])
            vm.advance(0)
        return
    if kind == "setting":
        _call(obs_extra, m.settings.set_setting_value, "c08_power", op[1])
        vm.advance(0)
        return
    if kind == "post":
        if case["kind"] == "balldev":
            m.events.post(op[1])
            vm.advance(0)
            return
        which, name, kw = op[1], op[2], {k: _num(v) for k, v in op[3].items()}
        if which == "cp":
            m.events.post("c08_cp_%s" % name)
        elif which == "show":
            m.events.post("c08_show_start")
        else:
            m.events.post("c08_%s_%s" % (which, name), **kw)
        vm.advance(0)
        return
    if kind == "bd":
        dev = m.ball_devices[op[1]]
        if op[2] == "eject":
            _call(obs_extra, dev.eject)
        elif op[2] == "eject_all":
            _call(obs_extra, dev.eject_all)
        else:
            _call(obs_extra, dev.request_ball)
        vm.advance(0)
        return
    if kind == "pf":
        pf = m.playfield
        if op[1] == "add_ball":
            _call(obs_extra, pf.add_ball)
        elif op[1] == "search_start":
            _call(obs_extra, pf.ball_search.enable)
            _call(obs_extra, pf.ball_search.start)
        else:
            _call(obs_extra, pf.ball_search.stop)
        vm.advance(0)
        return
