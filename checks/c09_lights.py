"""C09 — Light hardware output equals the priority stack's colour.

One case = one booted machine (virtual time) with 2-4 generated lights (1-channel / RGB / RGBW) on generated
backends (real VirtualLight; test doubles subclassing the real LightPlatformSoftwareFade / LightPlatformDirectFade /
PlatformBatchLight on a real PlatformBatchLightSystem; real DriverLight on a real coil) and a generated history of
color/on/off/remove_from_stack_by_key/clear_stack calls (directly and through the real LightPlayer) interleaved with
time gaps placed inside, exactly at and outside running fades.

Monitors
  * API boundary: class-level wrappers on Light.color / remove_from_stack_by_key / clear_stack feed every call
    (whoever makes it) to an independent stack MODEL and compare Light.get_color() with the model after every call,
    after every time gap and at every rest point.
  * hardware boundary (vlib/c09_hw.py): leaf methods of the platform-interface objects; at REST POINTS (every
    logical fade ended + settle horizon) the value the hardware shows, derived only from the commands that reached the
    leaf, must equal the model's colour after brightness and colour correction, channel by channel.
"""

PROPERTY = "C09"
LEVEL = "exploration"
LEVEL_TEXT = ("Exploration: thousands of generated command histories on the real Light device, the real fade stepping / "
              "suppression / batching code and five kinds of light backend, in exact virtual time; an independent stack "
              "model is compared with get_color() after every step and with the last commanded hardware brightness at "
              "every rest point. Histories, timings and configurations are unbounded, so sampling with deliberately "
              "placed instants (inside, at the end of, just after fades; inside batch transmissions) is what this "
              "family reaches.")
LEVEL_NOTE = ("Trusts MPF's TimeTravelLoop as the clock, mpf.core.rgb_color (colour parsing and the correction "
              "profile's lookup table, outside the property's anchors) and the hardware doubles' reading of a command "
              "('fade to b over fade_ms'); tolerances are listed in the assumptions.")
TECHNIQUE = ("runtime monitoring: online reference-model monitor at the Light API boundary + last-command oracle at the "
             "platform-interface leaf methods, in virtual time")
RULE = ("case = one machine with generated lights/backends/corrections and one generated op history; distinct = "
        "backends+types plus the sequence of op kinds with bucketed fades/gaps; non-trivial = the logical oracle was "
        "evaluated inside a running fade, after a removal, and the hardware oracle at a rest point reached after at "
        "least one command landed inside a running fade")
ASSUMPTIONS = [
    "priorities are >= 0 and keys are strings (or None): Light treats a missing key as priority 0, so a negative "
    "priority is refused on a non-empty stack; the statement is read for the documented non-negative range",
    "ties in priority between different keys: the statement is silent; the model uses the device's documented "
    "comparator (priority, then key), so tie-breaking itself is not checked",
    "a colour command with a priority lower than the entry already stored under the same key is ignored, also while "
    "that entry is fading out (documented in _add_to_stack); a second removal of a key that is already fading out "
    "removes it at once (documented in remove_from_stack_by_key)",
    "a fade starts at the colour the layers at or below the command's (priority,key) showed when the command arrived "
    "('start_color: color of this light when this command came in'); interpolation is linear per channel, tolerance "
    "1/255 per nested blend (integer truncation) - never outside the hull of the endpoints",
    "a command that lands exactly (1e-9 s) on the instant a fade-out expires may see the expiring entry or not; the "
    "model accepts whichever the device shows",
    "hardware is compared only at rest points (all logical fades ended + 2 s, repeated 5 s later); brightness while a "
    "fade is running is not demanded by the statement (so the ms/s scale error in LightPlatformDirectFade.set_fade, "
    "which only shortens hardware fades, is out of reach)",
    "a channel that never received a command is taken to be off",
    "the batched backend's update_callback may suspend (0, 2 or 6 ms of transmission): PlatformBatchLightSystem "
    "awaits it, so a platform is allowed to; the callbacks of the platforms shipped in this tree happen to never "
    "suspend, hence C09:batch_update_lost_while_transmitting is latent for them",
    "the machine-wide brightness setting is changed during the history (machine variable and operator setting); mpf "
    "applies the factor when a colour is written to a channel and does not re-send lit lights on a brightness change, "
    "and the statement does not say it should: each channel is judged with the brightness that was set when mpf last "
    "wrote to that channel (a write in the same virtual instant as a change may use the value before or after it)",
    "Light.color(start_time=...) (show synchronisation) is not used: every command starts now",
]
HORIZONS = {"rest_settle_s": 2.0, "rest_recheck_s": 5.0}
TIERS = {
    "quick": {"cases": 3000, "batch": 50, "case_timeout": 60},
    "thorough": {"cases": 80000, "batch": 400, "case_timeout": 120},
}
MIN_EVALS = {
    "quick": {"logical_static": 40000, "logical_fade": 10000, "remove_restore": 1500, "hw_rest": 20000,
              "hw_off_when_empty": 3000, "hw_rest_rebrightened": 3000},
    "thorough": {"logical_static": 1200000, "logical_fade": 300000, "remove_restore": 40000, "hw_rest": 600000,
                 "hw_off_when_empty": 100000, "hw_rest_rebrightened": 100000},
}
SHRINK_KEYS = ["ops"]

PALETTE = ["ff0000", "00ff00", "0000ff", "ffffff", "000000", "808080", "102030", "fe7f01", "010101", "c0ffee",
           "ffff00", "7f7f7f"]
KEYS = ["a", "b", "m", "z", None]
PRIOS = [0, 0, 1, 2, 5]
FADES = [None, 0, 0, 1, 20, 50, 100, 333, 1000, 2500]
GAPS_MS = [0, 0, 1, 2, 5, 10, 19, 20, 21, 50, 100, 250, 500, 999, 1000, 1001, 2000]
BACKENDS = ["virtual", "sw", "sw", "direct", "batch", "batch", "batch", "coil"]
BRIGHTNESS = [1.0, 0.8, 0.5, 0.25, 0.75, 0.5]
SETTING_VALUES = (0.25, 0.5, 0.75, 1.0)
TOL_T = 1e-9


# ------------------------------------------------------------------------------------------------------------
# generation
# ------------------------------------------------------------------------------------------------------------
def gen_case(rng, tier, index):
    n_lights = rng.randint(2, 4)
    lights = []
    next_batch = rng.choice([0, 0, 7])
    for i in range(n_lights):
        backend = rng.choice(BACKENDS)
        typ = "w" if backend == "coil" else rng.choice(["w", "rgb", "rgb", "rgbw"])
        params = {}
        if backend == "sw":
            params["interval_ms"] = rng.choice([20, 20, 10, 33])
        elif backend == "direct":
            params["max_fade_ms"] = rng.choice([50, 500])
        elif backend == "batch":
            params["max_fade_ms"] = rng.choice([0, 0, 250, 65535])
            if rng.random() < 0.25:
                next_batch += rng.choice([1, 5])     # break the chain of successor numbers
            params["first"] = next_batch
            next_batch += len(typ)
        lights.append({
            "name": "l%d" % i, "backend": backend, "type": typ, "params": params,
            "fade_ms": rng.choice([None, None, None, 30]),
            "profile": rng.choice([None, None, "default", "p1"]),
            "on_color": rng.choice(["ffffff", "ffffff", "ff8000"]),
        })
    cfg = {
        "lights": lights,
        "brightness": rng.choice([1.0, 1.0, 1.0, 0.5, 0.75]),
        "rgbw": rng.choice(["duck_rgb", "min_rgb", "white_only"]),
        "default_fade_ms": rng.choice([0, 0, 0, 40]),
        "hw_update_hz": rng.choice([50, 50, 100]),
        "batch": {"update_hz": rng.choice([50, 50, 100, 20]), "max_batch": rng.choice([1, 2, 3, 12, 12]),
                  "latency_ms": rng.choice([0, 0, 0, 0, 2, 6])},
    }
    ops = []
    n = rng.randint(10, 50 if tier == "quick" else 80)
    last_fade = None
    while len(ops) < n:
        k = rng.random()
        li = rng.randrange(n_lights)
        if last_fade and rng.random() < 0.45:
            # place the next command relative to the fade that was just started
            f = last_fade
            gap = rng.choice([max(1, f // 3), max(1, f // 2), f - 1, f, f + 1, max(1, f // 10)])
            ops.append(["adv", max(0, gap)])
            last_fade = None
            continue
        if k < 0.30:
            fade = rng.choice(FADES)
            ops.append(["color", li, rng.choice(PALETTE + ["on"]), fade, rng.choice(PRIOS), rng.choice(KEYS)])
            last_fade = fade
        elif k < 0.36:
            fade = rng.choice(FADES)
            ops.append(["on", li, rng.choice([None, None, 255, 128, 64]), fade, rng.choice(PRIOS), rng.choice(KEYS)])
            last_fade = fade
        elif k < 0.44:
            fade = rng.choice(FADES)
            ops.append(["off", li, fade, rng.choice(PRIOS), rng.choice(KEYS)])
            last_fade = fade
        elif k < 0.60:
            fade = rng.choice(FADES)
            key = rng.choice(KEYS)
            ops.append(["remove", li, "" if key is None else key, fade])
            last_fade = fade
        elif k < 0.63:
            ops.append(["clear", li])
        elif k < 0.69:
            fade = rng.choice(FADES)
            ops.append(["lp", li, rng.choice(["cx", "cy"]), rng.choice(["", "k1"]),
                        rng.choice(PALETTE + ["on", "stop", "stop"]), fade, rng.choice(PRIOS)])
            last_fade = fade
        elif k < 0.71:
            ops.append(["lp_clear", rng.choice(["cx", "cy"])])
        elif k < 0.77:
            ops.append(["bright", rng.choice(BRIGHTNESS), rng.choice(["var", "setting", "setting"])])
        elif k < 0.94:
            g = rng.choice(GAPS_MS)
            if rng.random() < 0.1:
                g += 0.5
            ops.append(["adv", g])
        else:
            ops.append(["rest"])
    return {"cfg": cfg, "ops": ops}


# ------------------------------------------------------------------------------------------------------------
# reference model of one light's stack (independent of mpf; colours are float triples)
# ------------------------------------------------------------------------------------------------------------
class _E:
    __slots__ = ["prio", "key", "start_t", "start_c", "start_tol", "dest_t", "dest_c"]

    def __init__(self, prio, key, start_t, start_c, start_tol, dest_t, dest_c):
        self.prio = prio
        self.key = key
        self.start_t = start_t
        self.start_c = start_c
        self.start_tol = start_tol
        self.dest_t = dest_t
        self.dest_c = dest_c      # None = fade-out (transparent destination)

    def desc(self):
        return [self.prio, self.key, round(self.start_t, 6), list(self.start_c) if self.start_c else None,
                round(self.dest_t, 6), list(self.dest_c) if self.dest_c else None]


class _Model:

    def __init__(self, default_fade):
        self.st = []
        self.default_fade = default_fade
        self.max_dest = 0.0
        self.cmd_in_fade = 0

    def sorted(self):
        return sorted(self.st, key=lambda e: (e.prio, e.key), reverse=True)

    def find(self, key):
        for e in self.st:
            if e.key == key:
                return e
        return None

    @staticmethod
    def col(stack, t):
        """Colour of a (sorted) sub-stack at time t: (colour, lo, hi, tol, depth)."""
        if not stack:
            z = (0.0, 0.0, 0.0)
            return z, z, z, 0.0, 0
        e = stack[0]
        if e.dest_c is None:
            lc, llo, lhi, ltol, ld = _Model.col(stack[1:], t)
            if t >= e.dest_t:
                return lc, llo, lhi, ltol, ld
            r = (t - e.start_t) / (e.dest_t - e.start_t)
            c = tuple(s + (x - s) * r for s, x in zip(e.start_c, lc))
            lo = tuple(min(s - e.start_tol, x) for s, x in zip(e.start_c, llo))
            hi = tuple(max(s + e.start_tol, x) for s, x in zip(e.start_c, lhi))
            return c, lo, hi, max(e.start_tol, ltol) + 1.0, ld + 1
        d = tuple(float(x) for x in e.dest_c)
        if not e.dest_t or t >= e.dest_t:
            return d, d, d, 0.0, 0
        r = (t - e.start_t) / (e.dest_t - e.start_t)
        c = tuple(s + (x - s) * r for s, x in zip(e.start_c, d))
        lo = tuple(min(s - e.start_tol, x) for s, x in zip(e.start_c, d))
        hi = tuple(max(s + e.start_tol, x) for s, x in zip(e.start_c, d))
        return c, lo, hi, e.start_tol + 1.0, 1

    def fading(self, t):
        return any(e.dest_t and e.dest_t > t for e in self.st)

    def prune(self, t, mpf_fadeout_keys):
        """Drop fade-out entries whose time is up (what the device does with a delay)."""
        keep = []
        for e in self.st:
            if e.dest_c is None and e.dest_t <= t + TOL_T:
                if abs(e.dest_t - t) <= TOL_T and e.key in mpf_fadeout_keys:
                    keep.append(e)       # exact coincidence: accept what the device shows
                continue
            keep.append(e)
        pruned = len(keep) != len(self.st)
        self.st = keep
        return pruned

    def op_color(self, t, rgb, fade, prio, key):
        if key is None:
            key = ""
        if fade is None:
            fade = self.default_fade
        old = self.find(key)
        if self.st and old is not None and prio < old.prio:
            return None
        if self.fading(t):
            self.cmd_in_fade += 1
        if fade:
            sub = [e for e in self.sorted() if (e.prio, e.key) <= (prio, key)]
            c, _, _, tol, _ = self.col(sub, t)
            e = _E(prio, key, t, c, tol, t + (fade / 1000), tuple(rgb))
            self.max_dest = max(self.max_dest, e.dest_t)
        else:
            e = _E(prio, key, t, None, 0.0, 0, tuple(rgb))
        if old is not None:
            self.st.remove(old)
        self.st.append(e)
        return e

    def op_remove(self, t, key, fade):
        """Return ('none'|'now'|'fade', entry)."""
        if not self.st:
            return "none", None
        if fade is None:
            fade = self.default_fade
        key = str(key)
        old = self.find(key)
        if old is None:
            return "none", None
        if self.fading(t):
            self.cmd_in_fade += 1
        if old.dest_c is None:
            fade = None
        if fade:
            st = self.sorted()
            c, _, _, tol, _ = self.col(st[st.index(old):], t)
            self.st.remove(old)
            e = _E(old.prio, key, t, c, tol, t + fade / 1000.0, None)
            self.st.append(e)
            self.max_dest = max(self.max_dest, e.dest_t)
            return "fade", e
        self.st.remove(old)
        return "now", None

    def op_clear(self):
        self.st = []


def _hex(c):
    return (int(c[0:2], 16), int(c[2:4], 16), int(c[4:6], 16))


def _expected_channels(rgb, factor, table, colors, style):
    """Channel brightness the statement demands for logical colour `rgb`: brightness factor, then profile."""
    if factor != 1.0:
        rgb = tuple(int(x * factor) for x in rgb)
    if table is not None:
        rgb = (table[0][rgb[0]], table[1][rgb[1]], table[2][rgb[2]])
    r, g, b = rgb
    low = min(r, g, b)
    grey = r == g == b
    out = {}
    for color in colors:
        if color == "white":
            if style == "white_only":
                v = r if grey else 0
            else:
                v = low
        else:
            v = {"red": r, "green": g, "blue": b}[color]
            if style == "duck_rgb":
                v -= low
            elif style == "white_only" and grey:
                v = 0
        out[color] = v / 255.0
    return out


_CH = {"r": "red", "g": "green", "b": "blue", "w": "white"}


def _machine_config(cfg):
    lights = {}
    coils = {}
    for L in cfg["lights"]:
        d = {"default_on_color": L["on_color"]}
        if L["fade_ms"] is not None:
            d["fade_ms"] = L["fade_ms"]
        if L["profile"]:
            d["color_correction_profile"] = L["profile"]
        if L["backend"] == "coil":
            # coil variants (a configuration, not a behaviour): the default hold power of the coil is below 1 while
            # full power stays allowed -- the light's brightness, not the coil's default, must reach the hardware
            cc = {"number": str(10 + len(coils))}
            variant = (len(L["name"]) + len(coils) + int(L["fade_ms"] or 0) + len(cfg["lights"])) % 3
            if variant == 0:
                cc["allow_enable"] = True
            elif variant == 1:
                cc.update({"allow_enable": True, "default_hold_power": 0.5})
            else:
                cc.update({"max_hold_power": 1.0, "default_hold_power": 0.25})
            coils["c_" + L["name"]] = cc
            d["number"] = "c_" + L["name"]
            d["platform"] = "drivers"
        else:
            chans = {}
            first = L["params"].get("first", 0)
            for i, c in enumerate(L["type"]):
                if L["backend"] == "virtual":
                    chans[_CH[c]] = [{"number": "%s-%s" % (L["name"], c)}]
                else:
                    number = str(first + i) if L["backend"] == "batch" else "%s-%s" % (L["name"], c)
                    chans[_CH[c]] = [{"number": number, "subtype": "x_" + L["backend"]}]
            d["channels"] = chans
        lights[L["name"]] = d
    out = {
        "modes": [],
        "mpf": {"rgbw_white_behavior": cfg["rgbw"], "default_light_hw_update_hz": cfg["hw_update_hz"]},
        "light_settings": {
            "default_fade_ms": cfg["default_fade_ms"],
            "color_correction_profiles": {"p1": {"gamma": 2.0, "whitepoint": [0.9, 0.8, 1.0], "linear_slope": 1.0,
                                                 "linear_cutoff": 0.0}},
        },
        "lights": lights,
    }
    if coils:
        out["coils"] = coils
    return out


def _bucket(ms):
    if ms is None:
        return "d"
    if ms == 0:
        return "0"
    if ms < 50:
        return "s"
    if ms < 600:
        return "m"
    return "l"


# ------------------------------------------------------------------------------------------------------------
def run_case(case):
    from vlib.boot import VMachine, MpfCrash, guard_import
    from vlib import c09_hw
    guard_import()
    from mpf.devices.light import Light

    cfg = case["cfg"]
    ops = case["ops"]
    clauses = {"logical_static": 0, "logical_fade": 0, "remove_restore": 0, "hw_rest": 0, "hw_off_when_empty": 0,
               "hw_rest_rebrightened": 0}
    factors = [(-1.0, 1.0)]      # history of the brightness SETTING as issued by this harness: (t, value)
    viol = []
    obs = {"api_calls": 0, "color_calls": 0, "remove_calls": 0, "ignored_lower_priority": 0, "cmds_inside_fade": 0,
           "fadeouts": 0, "rest_points": 0, "coincident_expiry_ops": 0, "hidden_cmds": 0, "start_snaps": 0,
           "lp_calls": 0, "batch_cmds_during_tx": 0,
           "brightness_changes": 0, "same_instant_brightness_writes": 0}
    shape = []
    seen_sigs = set()

    def V(clause, sig, **detail):
        if sig in seen_sigs or len(viol) >= 12:
            return
        seen_sigs.add(sig)
        viol.append({"clause": clause, "sig": sig, "detail": detail})

    rec = c09_hw.Recorder()
    spec = {"lights": {L["name"]: {"backend": L["backend"], "params": L["params"]} for L in cfg["lights"]},
            "batch": cfg["batch"]}
    lcfg = {L["name"]: L for L in cfg["lights"]}
    models = {}
    state = {"vm": None, "in_api": 0}
    c09_hw.install(rec, spec)
    orig = {"color": Light.color, "remove": Light.remove_from_stack_by_key, "clear": Light.clear_stack}

    def now():
        return state["vm"].loop.time()

    def mpf_stack_desc(light):
        out = []
        for e in light.stack:
            out.append([e.priority, e.key, round(e.start_time, 6),
                        list(e.start_color.rgb) if e.start_color is not None else None,
                        round(e.dest_time, 6), list(e.dest_color.rgb) if e.dest_color is not None else None])
        return out

    def fadeout_keys(light):
        return {e.key for e in light.stack if e.dest_color is None}

    def snap(ml, light, e):
        """Adopt the device's integer start colour when it is the model's within tolerance (stops drift only)."""
        if e is None or e.start_c is None:
            return
        for me in light.stack:
            if me.key == e.key and me.start_color is not None and (me.dest_color is None) == (e.dest_c is None):
                got = tuple(me.start_color.rgb)
                if all(abs(g - c) <= e.start_tol + 1e-6 for g, c in zip(got, e.start_c)):
                    e.start_c = tuple(float(x) for x in got)
                    e.start_tol = 0.0
                    obs["start_snaps"] += 1
                return

    def check_logical(name, context):
        light = state["vm"].machine.lights[name]
        ml = models[name]
        t = now()
        try:
            got = tuple(light.get_color().rgb)
        except Exception as e:    # noqa
            V("logical_static", "C09:get_color_raises", light=name, exc=repr(e), t=t, context=context)
            return None
        st = ml.sorted()
        c, lo, hi, tol, depth = ml.col(st, t)
        removal = context in ("remove", "clear", "fadeout_end")
        if removal:
            clauses["remove_restore"] += 1
        if depth == 0:
            clauses["logical_static"] += 1
        else:
            clauses["logical_fade"] += 1
        ok_val = all(abs(g - x) <= tol + 1e-6 for g, x in zip(got, c))
        ok_hull = all(l - 1e-6 <= g <= h + 1e-6 for g, l, h in zip(got, lo, hi))
        if ok_val and ok_hull:
            return c
        detail = dict(light=name, backend=lcfg[name]["backend"], t=round(t, 6), context=context, got=list(got),
                      model=[round(x, 3) for x in c], tol=tol, hull=[list(lo), list(hi)],
                      model_stack=[e.desc() for e in st], mpf_stack=mpf_stack_desc(light))
        # classify by mechanism
        start_diff = False
        mpf_by_key = {me.key: me for me in light.stack}
        for e in st:
            me = mpf_by_key.get(e.key)
            if e.start_c is not None and e.dest_t > t and me is not None and me.start_color is not None and \
                    (me.dest_color is None) == (e.dest_c is None):
                if any(abs(a - b) > e.start_tol + 1e-6 for a, b in zip(me.start_color.rgb, e.start_c)):
                    start_diff = True
        if context == "clear":
            V("remove_restore", "C09:clear_stack_not_off", **detail)
        elif start_diff and depth > 0:
            V("logical_fade", "C09:fade_start_not_colour_beneath", **detail)
        elif removal and depth == 0:
            V("remove_restore", "C09:remove_does_not_restore_colour_beneath", **detail)
        elif depth == 0:
            V("logical_static", "C09:logical_colour_not_top_entry", **detail)
        elif not ok_hull:
            V("logical_fade", "C09:fade_outside_endpoints", **detail)
        else:
            V("logical_fade", "C09:fade_not_interpolated", **detail)
        return c

    # ---- API boundary wrappers (model is driven by what is actually called) -----------------------------
    def to_rgb(name, color):
        if isinstance(color, str):
            if color == "on":
                return _hex(lcfg[name]["on_color"])
            return _hex(color)
        return tuple(color.rgb) if hasattr(color, "rgb") else tuple(color)

    def pre(ml, light):
        t = now()
        fk = fadeout_keys(light)
        if any(e.dest_c is None and abs(e.dest_t - t) <= TOL_T for e in ml.st):
            obs["coincident_expiry_ops"] += 1
        ml.prune(t, fk)

    def w_color(self, color, fade_ms=None, priority=0, key=None, start_time=None):
        ml = models.get(self.name)
        if ml is None or state["vm"] is None:
            return orig["color"](self, color, fade_ms, priority, key, start_time)
        obs["api_calls"] += 1
        obs["color_calls"] += 1
        pre(ml, self)
        top_before = ml.sorted()[0] if ml.st else None
        before = ml.cmd_in_fade
        e = ml.op_color(now(), to_rgb(self.name, color), fade_ms, priority, key)
        obs["cmds_inside_fade"] += ml.cmd_in_fade - before
        if e is None:
            obs["ignored_lower_priority"] += 1
        elif top_before is not None and ml.sorted()[0] is not e:
            obs["hidden_cmds"] += 1
        r = orig["color"](self, color, fade_ms, priority, key, start_time)
        snap(ml, self, e)
        check_logical(self.name, "color")
        return r

    def w_remove(self, key, fade_ms=None):
        ml = models.get(self.name)
        if ml is None or state["vm"] is None:
            return orig["remove"](self, key, fade_ms)
        obs["api_calls"] += 1
        obs["remove_calls"] += 1
        pre(ml, self)
        before = ml.cmd_in_fade
        how, e = ml.op_remove(now(), key, fade_ms)
        obs["cmds_inside_fade"] += ml.cmd_in_fade - before
        r = orig["remove"](self, key, fade_ms)
        if how == "fade":
            obs["fadeouts"] += 1
            snap(ml, self, e)
        check_logical(self.name, "remove" if how == "now" else "remove_fade" if how == "fade" else "remove_noop")
        return r

    def w_clear(self):
        ml = models.get(self.name)
        if ml is None or state["vm"] is None:
            return orig["clear"](self)
        obs["api_calls"] += 1
        if ml.fading(now()):
            ml.cmd_in_fade += 1
            obs["cmds_inside_fade"] += 1
        ml.op_clear()
        r = orig["clear"](self)
        check_logical(self.name, "clear")
        return r

    def check_all(context):
        vm = state["vm"]
        t = now()
        for name, ml in models.items():
            light = vm.machine.lights[name]
            if any(e.dest_c is None and abs(e.dest_t - t) <= TOL_T for e in ml.st):
                obs["coincident_expiry_ops"] += 1
            if ml.prune(t, fadeout_keys(light)):
                check_logical(name, "fadeout_end")
            else:
                check_logical(name, context)

    def classify_hw(ch, t, fading):
        if fading:
            return "C09:hw_still_fading_at_rest_" + ch.backend
        if ch.backend in ("sw", "coil", "direct") and ch.log:
            origin = ch.log[-1][3]
            if origin is not None and origin < ch.serial:
                return "C09:stale_fade_task_overwrites_newer_command"
        if ch.backend == "batch":
            # direct evidence: a dirty mark of this light was discarded unprocessed after its last delivered message
            t_last = ch.log[-1][0] if ch.log else -1.0
            if any(obj == id(ch.obj) and tl >= t_last - 1e-6 for tl, obj in rec.lost_marks):
                return "C09:batch_update_lost_while_transmitting"
        return "C09:hw_rest_mismatch_" + ch.backend

    def check_rest(tag):
        vm = state["vm"]
        t = now()
        obs["rest_points"] += 1
        for name, ml in models.items():
            light = vm.machine.lights[name]
            ml.prune(t, set())
            c = check_logical(name, "rest")
            if c is None or ml.fading(t):
                continue
            rgb = tuple(int(round(x)) for x in c)
            L = lcfg[name]
            table = None
            if L["profile"]:
                prof = vm.machine.light_controller.light_color_correction_profiles[L["profile"]]
                table = prof._lookup_table      # trusted base (rgb_color.py is outside the anchors)
            colors = [k[1] for k in rec.chans if k[0] == name]
            style = cfg["rgbw"] if sorted(colors) == ["blue", "green", "red", "white"] else None
            for color in colors:
                ch = rec.chans[(name, color)]
                v, fading = ch.value_at(t)
                # brightness that was SET (by this harness, not mpf's copy) when mpf last wrote to this channel
                t_w = ch.set_fades[-1][0] if ch.set_fades else t
                before = [f for tc, f in factors if tc < t_w - TOL_T]
                same = [f for tc, f in factors if abs(tc - t_w) <= TOL_T]
                accept = before[-1:] + same
                if same:
                    obs["same_instant_brightness_writes"] += 1
                factor = accept[-1]
                exps = [_expected_channels(rgb, f, table, colors, style)[color] for f in accept]
                exp = {color: exps[-1]}
                clauses["hw_rest"] += 1
                if not ml.st:
                    clauses["hw_off_when_empty"] += 1
                if len(before) >= 3 and ch.set_fades:
                    clauses["hw_rest_rebrightened"] += 1     # written after the 2nd (or later) change of the session
                if fading or all(abs(v - x) > 1e-9 for x in exps):
                    sig = classify_hw(ch, t, fading)
                    if not fading and sig.startswith("C09:hw_rest_mismatch_"):
                        older = [f for _, f in factors if f not in accept]
                        if any(abs(v - _expected_channels(rgb, f, table, colors, style)[color]) <= 1e-9
                               for f in older):
                            sig = "C09:hw_written_with_stale_brightness_factor"
                    clause = "hw_off_when_empty" if not ml.st else "hw_rest"
                    V(clause, sig, light=name, backend=ch.backend, channel=color, t=round(t, 6), rest=tag,
                      hw=v, expected=exp[color], logical=list(rgb), still_fading=fading,
                      brightness_factor=factor, brightness_accepted=accept, brightness_history=factors[-5:],
                      mpf_brightness_factor=vm.machine.light_controller.brightness_factor,
                      profile=L["profile"], rgbw_style=style,
                      last_set_fades=[list(x) for x in ch.set_fades[-3:]],
                      last_leaf_cmds=[list(x) for x in ch.log[-4:]], latest_serial=ch.serial,
                      batch=cfg["batch"] if ch.backend == "batch" else None,
                      model_stack=[e.desc() for e in ml.sorted()])

    def rest(tag):
        vm = state["vm"]
        t = now()
        horizon = max([t] + [ml.max_dest for ml in models.values()]) + HORIZONS["rest_settle_s"]
        vm.advance(horizon - t)
        check_rest(tag)

    crashed = None
    try:
        Light.color = w_color
        Light.remove_from_stack_by_key = w_remove
        Light.clear_stack = w_clear
        with VMachine(_machine_config(cfg)) as vm:
            try:
                m = vm.machine
                rec.now = vm.loop.time
                c09_hw.register_coil_lights(rec, m, spec)
                if cfg["brightness"] != 1.0:
                    factors.append((vm.loop.time(), cfg["brightness"]))
                    m.variables.set_machine_var("brightness", cfg["brightness"])
                vm.advance(0.05)
                for L in cfg["lights"]:
                    light = m.lights[L["name"]]
                    models[L["name"]] = _Model(light.default_fade_ms)
                for ctx in ("cx", "cy"):
                    m.light_player._reset_instance_dict(ctx)
                state["vm"] = vm
                names = [L["name"] for L in cfg["lights"]]
                shape.append("+".join(sorted("%s:%s" % (L["backend"], L["type"]) for L in cfg["lights"])))
                for op in ops:
                    kind = op[0]
                    try:
                        if kind == "adv":
                            vm.advance(op[1] / 1000.0)
                            check_all("adv")
                            shape.append("a" if op[1] < 50 else "A")
                        elif kind == "rest":
                            rest("mid")
                            shape.append("Z")
                        elif kind == "color":
                            light = m.lights[names[op[1] % len(names)]]
                            light.color(op[2], fade_ms=op[3], priority=op[4], key=op[5])
                            shape.append("c" + _bucket(op[3]))
                        elif kind == "on":
                            light = m.lights[names[op[1] % len(names)]]
                            light.on(brightness=op[2], fade_ms=op[3], priority=op[4], key=op[5])
                            shape.append("o" + _bucket(op[3]))
                        elif kind == "off":
                            light = m.lights[names[op[1] % len(names)]]
                            light.off(fade_ms=op[2], priority=op[3], key=op[4])
                            shape.append("f" + _bucket(op[2]))
                        elif kind == "remove":
                            light = m.lights[names[op[1] % len(names)]]
                            light.remove_from_stack_by_key(op[2], op[3])
                            shape.append("r" + _bucket(op[3]))
                        elif kind == "clear":
                            m.lights[names[op[1] % len(names)]].clear_stack()
                            shape.append("x")
                        elif kind == "lp":
                            light = m.lights[names[op[1] % len(names)]]
                            obs["lp_calls"] += 1
                            m.light_player.play({light: {"color": op[4], "fade": op[5], "priority": op[6]}},
                                                op[2], None, priority=0, key=op[3])
                            shape.append("p" + _bucket(op[5]))
                        elif kind == "bright":
                            value = float(op[1])
                            obs["brightness_changes"] += 1
                            factors.append((now(), value))
                            if op[2] == "setting" and value in SETTING_VALUES:
                                m.settings.set_setting_value("brightness", value)
                            else:
                                m.variables.set_machine_var("brightness", value)
                            shape.append("B")
                        elif kind == "lp_clear":
                            obs["lp_calls"] += 1
                            m.light_player.clear_context(op[1])
                            shape.append("P")
                    except MpfCrash:
                        raise
                    except Exception as e:    # noqa  - an API call raised synchronously
                        import traceback
                        V("logical_static", "C09:api_call_raises", op=op, exc=repr(e),
                          tb=traceback.format_exc()[-1200:])
                        break
                    if rec.tx and rec.tx[-1][1] is None and kind not in ("adv", "rest"):
                        obs["batch_cmds_during_tx"] += 1
                rest("final")
                vm.advance(HORIZONS["rest_recheck_s"])
                check_rest("final+5s")
            except MpfCrash as e:
                crashed = repr(e)
            finally:
                state["vm"] = None
                rec.uninstall()
    finally:
        Light.color = orig["color"]
        Light.remove_from_stack_by_key = orig["remove"]
        Light.clear_stack = orig["clear"]
        rec.uninstall()
    if crashed:
        V("logical_static", "C09:mpf_crash", exc=crashed[:1500])

    obs.update(rec.obs)
    cmds_in_fade = sum(ml.cmd_in_fade for ml in models.values())
    nontrivial = (clauses["logical_fade"] > 0 and clauses["remove_restore"] > 0 and clauses["hw_rest"] > 0
                  and cmds_in_fade > 0)
    # unknown/unexplained first
    return {"violations": viol, "clauses": clauses, "shape": "".join(shape)[:240], "nontrivial": nontrivial,
            "obs": obs}
