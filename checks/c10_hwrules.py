"""C10 — Hardware switch-to-coil rules match the enabled devices exactly.

Real Flipper / AutofireCoil / Kickback devices, the real PlatformController, the real tilt mode, ball search, game and
service controller run on a generated machine (fake game, virtual platform) under generated hostile op sequences in
virtual time.  Observed at the boundary the property names:

  * every VirtualHardwarePlatform.set_*_rule / clear_hw_rule call (class-level wrappers -> shadow multiset),
  * every VirtualDriver.enable/disable/pulse/timed_enable call (last command per hw driver, with the issuing function),
  * device `_enabled`, the platform rule table, the switch-handler registry (software rules: SoftwareEosRepulseManager
    and the PSU notification handler that belong to a HardwareRule).

Oracle: an independent rule-key model derived from the generated config (which (switch, coil) pairs belong to which
device), a request model (`want`) driven by the requests the harness issues and the control events it sees dispatched,
and the lifecycle predicate (no game / tilted / ball over / service) read from the machine.
"""
import sys

PROPERTY = "C10"
LEVEL = "exploration"
LEVEL_TEXT = ("Exploration: thousands of generated configurations (flipper wiring variants, autofire options, kickbacks) "
              "x op histories (enable/disable/sw_flip/sw_release by call and by event, raw button/EOS/autofire switch "
              "activity, ball search, timeout protection, game start/drain/end, tilt, slam tilt, service enter/exit) on "
              "the real device classes in virtual time; the rule table is compared with the enabled devices at every "
              "loop iteration in which a rule changed and after every op.  Histories are unbounded, so sampling.")
LEVEL_NOTE = ("Trusts MPF's TimeTravelLoop, the virtual platform's rule table as 'the hardware' (it does not execute "
              "rules, so rule-driven coil activity is not simulated; only commands MPF itself issues to drivers are "
              "seen), and a fake game without ball devices (playfield ball counts are owned by the harness).")
TECHNIQUE = ("runtime monitoring: shadow rule table from wrapped platform-interface calls + invariant against device "
             "enabled flags and a request/lifecycle reference model, evaluated online")
RULE = ("case = generated machine config (1-3 flippers, 1-3 autofire coils, 0-1 kickback, ball search, tilt) + op list; "
        "distinct = wiring variants + sequence of op kinds (advance times bucketed); non-trivial = at least one rule was "
        "installed AND removed, the rule-table invariant was evaluated, and a lifecycle-off instant (ball end / tilt / "
        "service / no game) was evaluated with devices that had been enabled before")
ASSUMPTIONS = [
    "every generated device owns distinct (switch, coil) pairs (switches may be shared between devices, coils not), "
    "except 'twin' autofire coils/kickbacks: two devices on the same switch and coil with different pulse settings, "
    "handed over by ONE shared event (disable_events of the one, enable_events of the other; a second event hands "
    "back); the harness never enables both twins together by other means (that is a configuration error which the "
    "platform refuses) and posts the hand-over only during a live ball as the first request of its instant",
    "flippers without activation_switch (event-driven only) own no rule; they are judged by the request, lifecycle "
    "and coil clauses only",
    "control events are not listed as both enable and disable event of one device; no delayed (event|ms) control events",
    "request/lifecycle clauses are evaluated only at instants strictly later (virtual time) than the last request, "
    "control event or rule change, i.e. after everything scheduled for that instant has run; the rule-table/enabled "
    "invariant is evaluated at every loop iteration boundary",
    "the lifecycle clause ('no rule remains when ball over / tilted / service / no game') exempts a device that "
    "received an explicit enable request after that phase began (hostile requests are part of the workload)",
    "autofire/kickback with timeout protection: while an enable is wanted the device may be disabled from any hit on "
    "(once max_hits hits were seen in the whole case: the device keeps its hit history across disable/enable) until timeout_disable_time after the last hit; whether the protection trips is "
    "outside the statement (the watch window is known to be mis-scaled) and not judged",
    "an event listed in both a device's lists, or rules on two platforms, are not generated",
    "coil_pulse_delay uses a harness double for set_delayed_pulse_on_hit_rule (absent on the virtual platform)",
    "PSU notification handlers and software EOS repulse handlers are counted as part of the rule they belong to",
    "a harness handler may hold the game mode's stopping queue for 0.2-3 s (stands for game modes that take time to "
    "stop); the service controller is entered/left through its public start_service()/stop_service(), and not "
    "re-entered while the machine reset of the previous exit is still running (the service mode's own loop awaits it)",
    "harness time steps are dyadic and the tilt settle time is always 0: with a non-zero settle time and a tilt "
    "warning, Tilt._tilt_done re-arms itself for 'settle - elapsed' ms; TimeTravelLoop accumulates rounding error, so "
    "this can come out as ~1e-12 ms, a delay below the float resolution of the virtual clock, and the delay then "
    "spins forever at one instant (an artefact of virtual time, unrelated to this property); the prolonged "
    "'tilted until settled' phase is therefore only exercised through tilts whose balls are never collected",
    "'the machine tilts' is decided by the workload itself: a hit of the tilt or slam-tilt SWITCH while a ball is "
    "live, the game is neither tilted nor ending, the tilt mode is running and no machine reset is in progress "
    "(plus, as before, any `tilt` event mpf posts during a live ball); the same switch hit between ball_will_start "
    "and ball_started (a harness handler may hold ball_starting for 0.25-1 s) tilts the ball that is starting: it "
    "may start but must have ended again at the next later instant; tilts through accumulated warnings are only "
    "judged via mpf's own `tilt` event",
    "tilt in the fake game: the harness may zero the playfield ball counts just before the tilt (there is no drain "
    "device that could collect balls afterwards)",
]
HORIZONS = {"final_settle_s": 12}
TIERS = {
    "quick": {"cases": 2400, "batch": 30, "case_timeout": 90},
    "thorough": {"cases": 48000, "batch": 250, "case_timeout": 180},
}
MIN_EVALS = {
    "quick": {"rules_match": 60000, "installed_once": 60000, "request_effect": 80000, "lifecycle_off": 40000,
              "coil_idle": 30000, "software_rule_handlers": 60000, "probe_no_fire": 3000},
    "thorough": {"rules_match": 1200000, "installed_once": 1200000, "request_effect": 1600000,
                 "lifecycle_off": 800000, "coil_idle": 600000, "software_rule_handlers": 1200000,
                 "probe_no_fire": 60000},
}
SHRINK_KEYS = ["ops"]
TOL = 1e-6

# all harness time steps are dyadic so that virtual instants are exact floats (see ASSUMPTIONS)
ADV = [0.0, 1 / 1024, 1 / 64, 0.125, 0.25, 0.625, 1.0, 2.5, 6.0]
HIT_DT = [0.0, 1 / 1024, 0.125]
RECLOSE = [0.0, 1 / 16, 0.125, 0.625, 1.0, 2.0]      # around eos_active_ms_before_repulse (100 / 500 ms)


# ---------------------------------------------------------------------------------------------
# generation
def _gen_cfg(rng, tier):
    nf = rng.choice([1, 1, 2, 2, 3])
    na = rng.choice([1, 1, 2, 3])
    flippers = []
    for i in range(nf):
        eos = rng.random() < 0.55
        f = {"hold": rng.random() < 0.5, "eos": eos, "repulse": eos and rng.random() < 0.6,
             "nc": rng.random() < 0.2, "bs": rng.random() < 0.6,
             "hold_ms": rng.choice([200, 1000]), "eos_ms": rng.choice([100, 500]),
             "ow": rng.random() < 0.35, "share": None}
        if i > 0 and rng.random() < 0.3:
            f["share"] = rng.randrange(i)       # same cabinet button as an earlier flipper (upper/lower flipper)
        # a flipper without activation_switch: no hardware rules at all, driven by sw_flip/sw_release events only
        f["nosw"] = rng.random() < 0.22
        if f["nosw"]:
            f.update({"eos": False, "repulse": False, "nc": False, "share": None})
        flippers.append(f)
    autofires = []
    for i in range(na):
        a = {"kind": "autofire", "reverse": rng.random() < 0.25, "nc": rng.random() < 0.2,
             "timeout": None, "bs": rng.choice([0, 0, 50, 100, 150]), "delay": rng.choice([0, 0, 0, 30]),
             "ow": rng.random() < 0.3}
        if rng.random() < 0.5:
            a["timeout"] = [rng.choice([100, 1000, 2000]), rng.choice([2, 3]), rng.choice([300, 1000, 3000])]
        autofires.append(a)
    if rng.random() < 0.6:
        k = {"kind": "kickback", "reverse": False, "nc": False, "timeout": None, "bs": rng.choice([0, 120]),
             "delay": rng.choice([0, 0, 40]), "ow": False}
        if rng.random() < 0.3:
            k["timeout"] = [1000, 2, 1000]
        autofires.append(k)
    for a in autofires:
        # a second device of the same kind on the SAME switch and coil with another pulse strength; one shared
        # event hands the pair over (disable of the one + enable of the other), and another one hands it back
        a["twin"] = rng.random() < 0.45
    bs_possible = any(f["bs"] for f in flippers) or any(a["bs"] for a in autofires)
    return {"flippers": flippers, "autofires": autofires,
            "balls_per_game": rng.choice([1, 2, 3]),
            "bs": {"enable": bs_possible and rng.random() < 0.7, "timeout_ms": rng.choice([2000, 5000]),
                   "action": rng.choice(["new_ball", "new_ball", "end_game", "end_ball"]),
                   "searches": rng.choice([1, 1, 2])},
            "tilt": {"warnings": rng.choice([1, 2, 3]), "settle_ms": rng.choice([0, 500, 3000])},
            "wait_empty": rng.random() < 0.25,
            # some handler (a game mode that takes time to stop) holds the game's stopping queue for a while
            "stop_hold_ms": rng.choice([0, 0, 0, 200, 1000, 3000]),
            # some handler (ball intro show, skill select) holds every ball_starting queue for a while
            "start_hold_ms": rng.choice([0, 0, 0, 250, 1000])}


def _gen_ops(rng, tier, cfg):
    nf, na = len(cfg["flippers"]), len(cfg["autofires"])
    n = rng.randint(25, 70 if tier == "quick" else 160)
    ops = []
    in_game_bias = 0
    if rng.random() < 0.25:
        # a service-mode cycle before the first game (stops and restarts every mode, the tilt mode included)
        ops += [["svc_in"], ["adv", rng.choice([0.125, 1.0])], ["svc_out"], ["adv", 1.0]]
    if rng.random() < 0.7:
        ops += [["start"], ["adv", rng.choice([0.125, 1.0])]]
        in_game_bias = 6
    rep = [i for i, f in enumerate(cfg["flippers"]) if f["repulse"]]
    def life():
        c = rng.choice(["start", "start", "svc_in", "svc_in", "svc_out", "tilt", "drain", "end_ball", "end_game",
                        "add_player"])
        return ["tilt", rng.choice(["tilt", "slam"]), True] if c == "tilt" else [c]

    for _ in range(n):
        if rng.random() < 0.06:
            # two or three lifecycle transitions on the same instant
            ops.extend(life() for _ in range(rng.choice([2, 2, 3])))
            continue
        k = rng.random()
        if k < 0.22:
            ops.append(["adv", rng.choice(ADV)])
        elif k < 0.40:
            if rng.random() < nf / (nf + na):
                fi = rng.randrange(nf)
                acts = ["enable", "disable", "enable", "disable", "sw_flip", "sw_flip", "sw_release"]
                if cfg["flippers"][fi].get("nosw"):
                    acts += ["sw_flip", "sw_flip", "sw_flip", "sw_release"]     # its only way to flip
                ops.append(["dev", "f", fi, rng.choice(acts), rng.choice(["call", "event"])])
            else:
                i = rng.randrange(na)
                if cfg["autofires"][i].get("twin") and rng.random() < 0.6:
                    ops.append(["hand", i, rng.choice(["up", "up", "down"])])
                else:
                    ops.append(["dev", "a", i, rng.choice(["enable", "disable"]), rng.choice(["call", "event"])])
        elif k < 0.44:
            fi = rng.choice(rep) if rep and rng.random() < 0.8 else rng.randrange(nf)
            release = rng.random() < 0.4
            # after the repulse the flipper may reach EOS again and stay there for a while (RECLOSE index)
            reclose = rng.choice([0, 0, 1, 2, 3, 4, 5])
            ops.append(["repulse", fi, release, reclose])
            if reclose and not release and rng.random() < 0.5:
                # ... and the flipper gets disabled while the player still holds the button
                c = rng.choice(["drain", "end_ball", "end_game", "tilt", "svc_in", "disable", "disable"])
                if c == "tilt":
                    ops.append(["tilt", rng.choice(["tilt", "slam"]), True])
                elif c == "disable":
                    ops.append(["dev", "f", fi, "disable", rng.choice(["call", "event"])])
                else:
                    ops.append([c])
        elif k < 0.54:
            i = rng.randrange(nf)
            which = rng.choice(["btn", "btn", "eos"]) if cfg["flippers"][i]["eos"] else "btn"
            ops.append(["sw", "f", i, which, rng.choice([1, 1, 0])])
        elif k < 0.62:
            ops.append(["hit", rng.randrange(na), rng.choice([1, 2, 3, 4]), rng.choice([0, 0, 1, 2])])
        elif k < 0.70:
            ops.append(["start"])
            in_game_bias = 6
        elif k < 0.77:
            ops.append(["drain"])
        elif k < 0.80:
            ops.append(["end_ball"])
        elif k < 0.82:
            ops.append(["end_game"])
        elif k < 0.87:
            ops.append(["tilt", rng.choice(["tilt", "tilt", "slam", "warn", "warn"]), rng.random() < 0.75])
        elif k < 0.91:
            ops.append(["svc_in"])
        elif k < 0.94:
            ops.append(["svc_out"])
        elif k < 0.97:
            ops.append(["bs_cb", rng.choice(["f", "a"]), rng.randrange(max(nf, na))])
        elif k < 0.985:
            ops.append(["bs_start"])
        elif k < 0.993:
            ops.append(["cancel_bs"])
        elif k < 0.996:
            ops.append(["add_player"])
        else:
            ops.append(["xb"])
        if in_game_bias and rng.random() < 0.5:
            in_game_bias -= 1
            ops.append(["adv", rng.choice(ADV)])
    return ops


def gen_case(rng, tier, index):
    cfg = _gen_cfg(rng, tier)
    return {"cfg": cfg, "ops": _gen_ops(rng, tier, cfg)}


# ---------------------------------------------------------------------------------------------
# config text
def _names(cfg):
    """Device table derived from the generated config only (the oracle's view of who owns which rule)."""
    devs = []
    for i, f in enumerate(cfg["flippers"]):
        btn = "s_f%d" % (f["share"] if f.get("share") is not None else i)
        if f.get("nosw"):
            btn = None
        d = {"kind": "flipper", "name": "f%d" % i, "idx": i, "btn": btn, "main": "c_f%d_m" % i,
             "hold": "c_f%d_h" % i if f["hold"] else None, "eos": "s_f%d_eos" % i if f["eos"] else None,
             "repulse": bool(f["repulse"]), "cfg": f}
        keys = [(btn, d["main"])]
        if f["eos"]:
            keys.append((d["eos"], d["main"]))
        if f["hold"]:
            keys.append((btn, d["hold"]))
        d["keys"] = keys
        d["n_rules"] = 2 if f["hold"] else 1
        d["psu"] = [(btn, d["main"])] + ([(btn, d["hold"])] if f["hold"] else [])
        if btn is None:
            d["keys"], d["n_rules"], d["psu"] = [], 0, []
        d["en_ev"] = {"ball_started", d["name"] + "_on"}
        d["dis_ev"] = {"ball_will_end", "service_mode_entered", d["name"] + "_off"}
        d["twin_of"] = None
        d["twin"] = None
        devs.append(d)
    for i, a in enumerate(cfg["autofires"]):
        kb = a["kind"] == "kickback"
        d = {"kind": a["kind"], "name": ("k%d" if kb else "a%d") % i, "idx": i, "sw": "s_a%d" % i, "coil": "c_a%d" % i,
             "cfg": a, "repulse": False}
        d["keys"] = [(d["sw"], d["coil"])]
        d["n_rules"] = 1
        d["psu"] = [(d["sw"], d["coil"])]
        d["en_ev"] = {d["name"] + "_on"} | (set() if kb else {"ball_started"})
        d["dis_ev"] = {"ball_will_end", "service_mode_entered", d["name"] + "_off"}
        d["twin_of"] = None
        d["twin"] = None
        devs.append(d)
        if a.get("twin"):
            up, down = "h%d_up" % i, "h%d_down" % i
            d["en_ev"].add(down)
            d["dis_ev"].add(up)
            tcfg = {"kind": a["kind"], "reverse": a["reverse"], "nc": a["nc"], "timeout": None, "bs": 0,
                    "delay": a["delay"], "ow": False, "twin_pulse_ms": 31 + i}
            t = {"kind": a["kind"], "name": d["name"] + "t", "idx": i, "sw": d["sw"], "coil": d["coil"], "cfg": tcfg,
                 "repulse": False, "keys": list(d["keys"]), "n_rules": 1, "psu": list(d["psu"]),
                 "en_ev": {up}, "dis_ev": {"ball_will_end", "service_mode_entered", down},
                 "twin_of": d["name"], "twin": None, "up": up, "down": down}
            d["twin"] = t["name"]
            d["up"], d["down"] = up, down
            devs.append(t)
    return devs


def _build_config(cfg):
    devs = _names(cfg)
    coils, switches, flippers, autofires, kickbacks = {}, {}, {}, {}, {}
    for d in devs:
        if d["kind"] == "flipper":
            f = d["cfg"]
            coils[d["main"]] = {"number": None, "default_pulse_ms": 20 + d["idx"]}
            if not f["hold"]:
                coils[d["main"]]["default_hold_power"] = 0.25
            else:
                coils[d["hold"]] = {"number": None, "allow_enable": True, "default_pulse_ms": 12}
            if d["btn"] and d["btn"] not in switches:
                switches[d["btn"]] = {"number": None}
                if f["nc"]:
                    switches[d["btn"]]["type"] = "NC"
            fc = {"main_coil": d["main"],
                  "enable_events": ", ".join(sorted(d["en_ev"])), "disable_events": ", ".join(sorted(d["dis_ev"])),
                  "sw_flip_events": d["name"] + "_flip", "sw_release_events": d["name"] + "_rel",
                  "include_in_ball_search": bool(f["bs"]), "ball_search_hold_time": "%dms" % f["hold_ms"],
                  "ball_search_order": 100 + d["idx"]}
            if d["btn"]:
                fc["activation_switch"] = d["btn"]
            if f["hold"]:
                fc["hold_coil"] = d["hold"]
            if f["eos"]:
                switches[d["eos"]] = {"number": None}
                fc["eos_switch"] = d["eos"]
                fc["use_eos"] = True
                fc["repulse_on_eos_open"] = bool(f["repulse"])
                fc["eos_active_ms_before_repulse"] = "%dms" % f["eos_ms"]
            if f["ow"]:
                fc["main_coil_overwrite"] = {"pulse_ms": 15, "pulse_power": 0.5, "hold_power": 0.125}
                if f["hold"]:
                    fc["hold_coil_overwrite"] = {"pulse_ms": 9}
            flippers[d["name"]] = fc
        else:
            a = d["cfg"]
            if d["twin_of"] is None:
                coils[d["coil"]] = {"number": None, "default_pulse_ms": 18 + d["idx"]}
                switches[d["sw"]] = {"number": None}
                if a["nc"]:
                    switches[d["sw"]]["type"] = "NC"
            ac = {"coil": d["coil"], "switch": d["sw"], "reverse_switch": bool(a["reverse"]),
                  "enable_events": ", ".join(sorted(d["en_ev"])), "disable_events": ", ".join(sorted(d["dis_ev"])),
                  "ball_search_order": a["bs"]}
            if a["timeout"]:
                ac["timeout_watch_time"] = "%dms" % a["timeout"][0]
                ac["timeout_max_hits"] = a["timeout"][1]
                ac["timeout_disable_time"] = "%dms" % a["timeout"][2]
            if a["delay"]:
                ac["coil_pulse_delay"] = "%dms" % a["delay"]
            if a["ow"]:
                ac["coil_overwrite"] = {"pulse_ms": 7, "recycle": False}
                ac["switch_overwrite"] = {"debounce": "normal"}
            if a.get("twin_pulse_ms"):
                ac["coil_overwrite"] = {"pulse_ms": a["twin_pulse_ms"]}
            if d["kind"] == "kickback":
                ac["playfield"] = "playfield"
                kickbacks[d["name"]] = ac
            else:
                autofires[d["name"]] = ac
    switches["s_tilt"] = {"number": None, "tags": "tilt"}
    switches["s_slam"] = {"number": None, "tags": "slam_tilt"}
    switches["s_warn"] = {"number": None, "tags": "tilt_warning"}
    bs = cfg["bs"]
    out = {
        "modes": ["tilt"],
        "game": {"balls_per_game": cfg["balls_per_game"],
                 "wait_for_empty_playfields_on_ball_start": bool(cfg["wait_empty"])},
        "playfields": {"playfield": {
            "tags": "default", "default_source_device": "None",
            "enable_ball_search": bool(bs["enable"]), "ball_search_timeout": "%dms" % bs["timeout_ms"],
            "ball_search_interval": "150ms", "ball_search_wait_after_iteration": "1s",
            "ball_search_phase_1_searches": bs["searches"], "ball_search_phase_2_searches": 1,
            "ball_search_phase_3_searches": 1, "ball_search_failed_action": bs["action"]}},
        "coils": coils, "switches": switches, "flippers": flippers,
    }
    if autofires:
        out["autofire_coils"] = autofires
    if kickbacks:
        out["kickbacks"] = kickbacks
    return out, devs


def _tilt_mode_cfg(cfg):
    t = cfg["tilt"]
    return {"tilt": {"warnings_to_tilt": t["warnings"], "settle_time": "0ms",      # t["settle_ms"] is not used: see ASSUMPTIONS (virtual-clock livelock)
                     "multiple_hit_window": "300ms", "tilt_events": "do_tilt", "tilt_slam_tilt_events": "do_slam",
                     "tilt_warning_events": "do_warn"}}


# ---------------------------------------------------------------------------------------------
# monitors (class-level wrappers, installed per case, always restored)
class _Monitor:
    SETTERS = ("set_pulse_on_hit_rule", "set_pulse_on_hit_and_release_rule",
               "set_pulse_on_hit_and_enable_and_release_rule", "set_pulse_on_hit_and_release_and_disable_rule",
               "set_pulse_on_hit_and_enable_and_release_and_disable_rule", "set_delayed_pulse_on_hit_rule")

    def __init__(self):
        from mpf.platforms.virtual import VirtualHardwarePlatform, VirtualDriver
        self.P, self.D = VirtualHardwarePlatform, VirtualDriver
        self.saved = []
        self.shadow = {}          # (hw_switch, hw_driver) -> installs minus clears
        self.kind = {}            # key -> list of rule kinds ever installed (stability)
        self.drv = {}             # hw_driver -> (command, issuing function, time)
        self.on_change = None     # callback(kind, keys)
        self.now = lambda: 0.0
        self.double_set = []      # keys installed while already present
        self.n_set = 0
        self.n_clear = 0
        self.n_clear_absent = 0
        self.n_drv_cmd = 0
        self.settings = {}        # key -> repr of the settings of the first install (stability oracle)
        self.unstable = []

    def install(self):
        mon = self
        P, D = self.P, self.D

        def keys_of(name, a):
            if name.endswith("_and_disable_rule"):
                return [(a[0].hw_switch, a[2].hw_driver), (a[1].hw_switch, a[2].hw_driver)], a[2]
            return [(a[0].hw_switch, a[1].hw_driver)], a[1]

        def mk_set(name, orig):
            def w(self_, *a, **kw):
                keys, coil = keys_of(name, a)
                mon.n_set += 1
                for k in keys:
                    mon.shadow[k] = mon.shadow.get(k, 0) + 1
                    if mon.shadow[k] > 1:
                        mon.double_set.append((k, name))
                    desc = (name, coil.pulse_settings, coil.hold_settings, coil.recycle,
                            tuple((s.invert, s.debounce) for s in a if hasattr(s, "hw_switch")))
                    mon.settings.setdefault(k, [])
                    if desc not in mon.settings[k]:
                        mon.settings[k].append(desc)
                try:
                    return orig(self_, *a, **kw)
                finally:
                    if mon.on_change:
                        mon.on_change("set", keys)
            return w

        def delayed_double(self_, enable_switch, coil, delay_ms):
            # harness double: the virtual platform has no delayed-pulse rule; record it like the others
            self_._assert_rule_does_not_exist(enable_switch.hw_switch, coil.hw_driver)
            self_.rules[(enable_switch.hw_switch, coil.hw_driver)] = "delayed_pulse_on_hit"

        for name in self.SETTERS:
            had = name in P.__dict__
            orig = P.__dict__.get(name)
            if name == "set_delayed_pulse_on_hit_rule" and not had:
                orig = delayed_double
            elif orig is None:
                orig = getattr(P, name)
            self.saved.append((P, name, P.__dict__.get(name), had))
            setattr(P, name, mk_set(name, orig))

        orig_clear = P.__dict__["clear_hw_rule"]
        self.saved.append((P, "clear_hw_rule", orig_clear, True))

        def clear(self_, switch, coil):
            k = (switch.hw_switch, coil.hw_driver)
            mon.n_clear += 1
            if mon.shadow.get(k, 0) > 0:
                mon.shadow[k] -= 1
            else:
                mon.n_clear_absent += 1
            try:
                return orig_clear(self_, switch, coil)
            finally:
                if mon.on_change:
                    mon.on_change("clear", [k])
        P.clear_hw_rule = clear

        def mk_drv(name, orig):
            def w(self_, *a, **kw):
                mon.n_drv_cmd += 1
                try:
                    origin = sys._getframe(1).f_code.co_name
                except Exception:     # noqa
                    origin = "?"
                mon.drv[self_] = (name, origin, mon.now())
                return orig(self_, *a, **kw)
            return w
        for name in ("enable", "disable", "pulse", "timed_enable"):
            orig = D.__dict__[name]
            self.saved.append((D, name, orig, True))
            setattr(D, name, mk_drv(name, orig))

    def uninstall(self):
        for cls, name, orig, had in reversed(self.saved):
            if had:
                setattr(cls, name, orig)
            else:
                try:
                    delattr(cls, name)
                except AttributeError:
                    pass
        self.saved = []


_ANCHOR_FILES = {"flipper.py", "autofire.py", "kickback.py", "platform_controller.py", "virtual.py"}


def _crash_files(exc):
    import os
    import traceback
    files = set()
    e = exc
    seen = 0
    while e is not None and seen < 6:
        for fr in traceback.extract_tb(e.__traceback__):
            files.add(os.path.basename(fr.filename))
        e = e.__cause__ or e.__context__
        seen += 1
    return files


# ---------------------------------------------------------------------------------------------
def run_case(case):
    from vlib.boot import guard_import
    guard_import()
    mon = _Monitor()
    mon.install()
    try:
        return _run(case, mon)
    finally:
        mon.uninstall()


def _run(case, mon):
    import asyncio
    from vlib.boot import VMachine, MpfCrash
    from mpf.core.platform_controller import SoftwareEosRepulseManager

    cfg = case["cfg"]
    config, devs = _build_config(cfg)
    clauses = {"rules_match": 0, "installed_once": 0, "request_effect": 0, "lifecycle_off": 0, "coil_idle": 0,
               "software_rule_handlers": 0, "rule_stable": 0, "probe_no_fire": 0}
    obs = {"rule_sets": 0, "rule_clears": 0, "clears_of_absent_rule": 0, "driver_commands": 0, "games_started": 0,
           "balls_started": 0, "balls_ended": 0, "tilts": 0, "service_entries": 0, "ball_searches": 0,
           "timeout_trips": 0, "sw_repulses": 0, "enable_requests": 0, "disable_requests": 0, "sw_flips": 0,
           "off_instants": 0, "model_tilts": 0, "model_tilts_while_ball_starting": 0, "handovers": 0, "ball_started_with_stale_tilted_flag": 0, "ball_started_after_game_stop": 0, "game_started_in_service_mode": 0, "off_with_prior_enable": 0, "iteration_checks": 0, "requests_on_same_instant": 0}
    viol = []
    seen_sigs = set()
    shape = []

    def V(clause, sig, **detail):
        if sig in seen_sigs and len(viol) >= 1:
            return
        seen_sigs.add(sig)
        if len(viol) < 12:
            viol.append({"clause": clause, "sig": sig, "detail": detail})

    with VMachine(config, modes={"tilt": _tilt_mode_cfg(cfg)}, kind="fake") as vm:
        m = vm.machine
        mon.now = vm.now
        plat = m.default_platform
        sc = m.switch_controller
        pf = m.playfield
        tilt_mode = m.modes["tilt"]

        # resolve the oracle's device table to hardware objects
        by_name = {}
        for d in devs:
            coll = {"flipper": m.flippers, "autofire": m.autofire_coils, "kickback": m.kickbacks}[d["kind"]]
            d["dev"] = coll[d["name"]]
            d["hwkeys"] = [(m.switches[s].hw_switch, m.coils[c].hw_driver) for s, c in d["keys"]]
            d["psu_keys"] = [(m.switches[s], m.coils[c]) for s, c in d["psu"]]
            d["coils"] = [m.coils[c].hw_driver for c in ([d["main"]] + ([d["hold"]] if d["hold"] else []))] \
                if d["kind"] == "flipper" else [m.coils[d["coil"]].hw_driver]
            d["want"] = False
            d["explicit_on"] = False
            d["late_enable"] = False
            d["ever_enabled"] = False
            d["hits"] = []
            d["want_since"] = 0.0
            by_name[d["name"]] = d
        key_owner = {}
        n_owners = {}
        for d in devs:
            for k in d["hwkeys"]:
                key_owner.setdefault(k, d)
                n_owners[k] = n_owners.get(k, 0) + 1
        st = {"dirty_t": vm.now(), "ball_live": False, "pending_check": False, "tilt_seen": False, "tilt_carry": False, "ball_starting": False, "svc_exit": None,
              "game_started_in_service": False}

        def touch():
            st["dirty_t"] = vm.now()

        # ---- lifecycle predicate, read from the machine ---------------------------------------
        def off_reason():
            if m.service.is_in_service():
                return "in_service"
            g = m.game
            gm = m.modes["game"]
            if g is None or gm.stopping or not gm.active:
                # no game, or the game is being torn down (e.g. killed by service mode: no ball_will_end then)
                st["ball_live"] = False
                return "no_game"
            if st["tilt_seen"]:
                return "while_tilted"
            if not st["ball_live"]:
                return "after_ball_end"
            return None

        # ---- spy on control / lifecycle events (after the devices' own handlers) ---------------
        spy_events = {"ball_started", "ball_will_end", "service_mode_entered", "tilt", "ball_will_start", "mode_game_started",
                      "mode_game_stopping", "mode_game_stopped"}
        for d in devs:
            spy_events |= d["en_ev"] | d["dis_ev"]

        pending_up = {d["up"]: 0 for d in devs if d["twin"]}

        def mk_spy(ev):
            def spy(**kwargs):
                touch()
                late = False
                if ev == "ball_started":
                    gm = m.modes["game"]
                    # the game was already told to stop (or service mode is on) when its ball_started is dispatched
                    late = bool(gm.stopping or not gm.active or m.service.is_in_service())
                    if late and st["game_started_in_service"]:
                        # a different mechanism: the whole game was started while service mode was on
                        late = "C10:game_started_in_service_mode"
                        obs["game_started_in_service_mode"] += 1
                    elif late:
                        late = "C10:ball_started_after_game_stop"
                        obs["ball_started_after_game_stop"] += 1
                    st["ball_live"] = True
                    st["ball_starting"] = False
                    if st["tilt_carry"]:
                        # the machine was tilted while this ball was starting: it has to end at once
                        st["tilt_carry"] = False
                    else:
                        st["tilt_seen"] = False
                    obs["balls_started"] += 1
                    if m.game is not None and m.game.tilted:
                        obs["ball_started_with_stale_tilted_flag"] += 1
                elif ev == "tilt":
                    if st["ball_live"]:
                        st["tilt_seen"] = True
                elif ev in ("mode_game_started", "mode_game_stopping", "mode_game_stopped", "service_mode_entered"):
                    # a game killed by service mode posts no ball_will_end; a new game has no live ball yet
                    st["ball_live"] = False
                    st["tilt_seen"] = False
                    st["tilt_carry"] = False
                    st["ball_starting"] = False
                elif ev == "ball_will_start":
                    # dispatched after Game._run_ball() cleared its end-ball flag: from here to ball_started an
                    # end_ball request (tilt) survives and ends the ball right after it has started
                    st["ball_starting"] = True
                elif ev == "ball_will_end":
                    st["ball_live"] = False
                    obs["balls_ended"] += 1
                if ev in pending_up:
                    pending_up[ev] = max(0, pending_up[ev] - 1)
                for d in devs:
                    if ev in d["dis_ev"]:
                        d["want"] = False
                        d["explicit_on"] = False
                        d["late_enable"] = False
                    elif ev in d["en_ev"]:
                        set_want_on(d)
                        if late:
                            d["late_enable"] = late
                        if ev != "ball_started" and off_reason():
                            # a hostile enable event counts for the phase in which it is DISPATCHED (it may have
                            # been posted while ball_will_end was already queued ahead of it)
                            d["explicit_on"] = True
            return spy
        for ev in sorted(spy_events):
            m.events.add_handler(ev, mk_spy(ev), priority=-100000)

        def set_want_on(d):
            if not d["want"]:
                d["want"] = True
                d["want_since"] = vm.now()
                # hits are NOT forgotten here: the device keeps its hit history across disable/enable, so hits of
                # the previous enabled period that are still inside the watch window count towards the next trip

        # ---- oracle: invariant at iteration boundaries -----------------------------------------
        def sw_handler_counts():
            eos = {}
            psu = {}
            for sw, lists in sc.registered_switches.items():
                for lst in lists:
                    for e in lst:
                        cb = e.callback
                        owner = getattr(cb, "__self__", None)
                        if isinstance(owner, SoftwareEosRepulseManager):
                            k = (owner.enable_switch.switch, owner.driver.hw_driver)
                            eos[k] = eos.get(k, 0) + 1
                        f = getattr(cb, "func", None)
                        if f is not None and getattr(f, "__name__", "") == "_notify_psu_about_pulse":
                            k = (sw, cb.keywords.get("driver"))
                            psu[k] = psu.get(k, 0) + 1
            return eos, psu

        def check_invariant(where):
            clauses["rules_match"] += 1
            expected = {}
            for d in devs:
                if d["dev"]._enabled:
                    d["ever_enabled"] = True
                    for k in d["hwkeys"]:
                        expected[k] = d
            actual = set(plat.rules)
            for k in actual:
                if k not in expected:
                    o = key_owner.get(k)
                    V("rules_match", "C10:rule_present_for_disabled_device", where=where, t=vm.now(),
                      device=o["name"] if o else None, kind=o["kind"] if o else None, rule=plat.rules.get(k),
                      key=[repr(k[0]), repr(k[1])])
            for k, d in expected.items():
                if k not in actual:
                    V("rules_match", "C10:rule_missing_for_enabled_device", where=where, t=vm.now(), device=d["name"],
                      kind=d["kind"], key=[repr(k[0]), repr(k[1])])
            clauses["installed_once"] += 1
            if mon.double_set:
                k, name = mon.double_set[0]
                o = key_owner.get(k)
                V("installed_once", "C10:rule_installed_twice", where=where, t=vm.now(), setter=name,
                  device=o["name"] if o else None, key=[repr(k[0]), repr(k[1])])
            clauses["rule_stable"] += 1
            for k, descs in mon.settings.items():
                # one settings tuple per device that owns the pair (a twin pair has two)
                if len(descs) > n_owners.get(k, 1):
                    V("rule_stable", "C10:rule_settings_differ_between_enables", key=[repr(k[0]), repr(k[1])],
                      seen=[repr(x) for x in descs[:3]], owners=n_owners.get(k, 1))
            # software parts of a rule live in the switch-handler registry
            clauses["software_rule_handlers"] += 1
            eos, psu = sw_handler_counts()
            for d in devs:
                en = bool(d["dev"]._enabled)
                if d["kind"] == "flipper" and d["btn"]:
                    k = (m.switches[d["btn"]], m.coils[d["main"]].hw_driver)
                    n = eos.get(k, 0)
                    exp = 4 if (en and d["repulse"]) else 0
                    if n != exp:
                        V("software_rule_handlers",
                          "C10:software_eos_handlers_leaked" if n > exp else "C10:software_eos_handlers_missing",
                          where=where, t=vm.now(), device=d["name"], handlers=n, expected=exp, enabled=en)
                if d["twin_of"] is not None:
                    continue        # judged together with the device it shares the pair with
                other = by_name[d["twin"]] if d["twin"] else None
                for k in d["psu_keys"]:
                    n = psu.get(k, 0)
                    # handlers are keyed by (switch, Driver): per device, except for a twin pair (same key)
                    exp = (1 if en else 0) + (1 if other is not None and other["dev"]._enabled else 0)
                    if n != exp:
                        V("software_rule_handlers",
                          "C10:psu_handler_leaked" if n > exp else "C10:psu_handler_missing",
                          where=where, t=vm.now(), device=d["name"], handlers=n, expected=exp, enabled=en)

        def iteration_check():
            st["pending_check"] = False
            obs["iteration_checks"] += 1
            check_invariant("iteration")

        def on_change(kind, keys):
            touch()
            if not st["pending_check"]:
                st["pending_check"] = True
                vm.loop.call_soon(iteration_check)
        mon.on_change = on_change

        # ---- oracle: request model + lifecycle, only at quiet instants ---------------------------
        def check_quiet(where):
            now = vm.now()
            if now <= st["dirty_t"] + 1e-9:
                return
            off = off_reason()
            if off:
                obs["off_instants"] += 1
            for d in devs:
                en = bool(d["dev"]._enabled)
                clauses["request_effect"] += 1
                if not d["want"] and en:
                    V("request_effect", "C10:enabled_after_disable_request", where=where, t=now, device=d["name"],
                      kind=d["kind"], phase=off or "ball_live")
                elif d["want"] and not en:
                    to = d["cfg"].get("timeout") if d["kind"] != "flipper" else None
                    ok = False
                    if to and len(d["hits"]) >= to[1] and now <= d["hits"][-1] + to[2] / 1000.0 + TOL:
                        ok = True
                        obs["timeout_trips"] += 1
                    if not ok:
                        V("request_effect", "C10:disabled_after_enable_request", where=where, t=now, device=d["name"],
                          kind=d["kind"], hits=d["hits"][-4:], timeout=to)
                if off and d["kind"] != "kickback" and not d["explicit_on"]:
                    clauses["lifecycle_off"] += 1
                    if d["ever_enabled"]:
                        obs["off_with_prior_enable"] += 1
                    # a pair shared with a twin: the rule only counts against this device if the twin is off too
                    tw = by_name.get(d["twin"] or d["twin_of"] or "")
                    left = [plat.rules[k] for k in d["hwkeys"]
                            if k in plat.rules and not (tw is not None and tw["dev"]._enabled)]
                    if en or left:
                        V("lifecycle_off",
                          d["late_enable"] if d["late_enable"] else "C10:rule_remains_" + off,
                          where=where, t=now, device=d["name"], kind=d["kind"], enabled=en, rules=left, phase=off)
                    if d["kind"] == "flipper":
                        for c in d["coils"]:
                            clauses["coil_idle"] += 1
                            cmd = mon.drv.get(c)
                            if cmd and cmd[0] in ("enable",):
                                if d["late_enable"]:
                                    sig = d["late_enable"]
                                elif cmd[1] == "_repulse_on_eos_open":
                                    sig = "C10:sw_repulse_coil_left_enabled"
                                else:
                                    sig = "C10:flipper_coil_left_energised"
                                V("coil_idle", sig, where=where, t=now, device=d["name"], coil=repr(c), phase=off,
                                  last_command=list(cmd), state=c.state)

        def after_op(where):
            check_invariant(where)
            check_quiet(where)

        # ---- op helpers ----------------------------------------------------------------------------
        def set_switch(name, state):
            sw = m.switches[name]
            changed = sw.state != state
            sc.process_switch(name, state=state, logical=True)
            return changed

        def add_ball_shim(**kwargs):
            pf.balls += 1
            pf.available_balls += 1

        def note_hit(d):
            d["hits"].append(vm.now())

        def do_request(d, action, via):
            touch()
            dev = d["dev"]
            if action == "enable":
                obs["enable_requests"] += 1
                if off_reason():
                    d["explicit_on"] = True
                if via == "call":
                    dev.enable()
                else:
                    m.events.post(d["name"] + "_on")
                if via == "call":
                    set_want_on(d)
            elif action == "disable":
                obs["disable_requests"] += 1
                if via == "call":
                    dev.disable()
                    d["want"] = False
                    d["explicit_on"] = False
                    d["late_enable"] = False
                else:
                    m.events.post(d["name"] + "_off")
            elif action == "sw_flip":
                obs["sw_flips"] += 1
                if via == "call":
                    dev.sw_flip()
                else:
                    m.events.post(d["name"] + "_flip")
            elif action == "sw_release":
                if via == "call":
                    dev.sw_release()
                else:
                    m.events.post(d["name"] + "_rel")

        flips = [d for d in devs if d["kind"] == "flipper"]
        autos = [d for d in devs if d["kind"] != "flipper" and d["twin_of"] is None]

        def tilt_certain():
            """A hit of the tilt / slam-tilt switch NOW must tilt the machine (only then the model says so)."""
            g = m.game
            gm = m.modes["game"]
            if g is None or g.tilted or g.slam_tilted or g.ending or not tilt_mode.active or tilt_mode.stopping or \
                    not gm.active or gm.stopping or m.service.is_in_service() or \
                    not (st["svc_exit"] is None or st["svc_exit"].done()):
                return None
            if st["ball_live"] and off_reason() is None:
                return "live"
            if st["ball_starting"] and not st["ball_live"]:
                return "start"
            return None

        def run_op(op):
            kind = op[0]
            if kind == "adv":
                shape.append("A%d" % ADV.index(op[1]) if op[1] in ADV else "A")
                vm.advance(op[1])
                return
            if vm.now() <= st["dirty_t"] + 1e-9:
                obs["requests_on_same_instant"] += 1
            if kind == "dev":
                lst = flips if op[1] == "f" else autos
                d = lst[op[2] % len(lst)]
                action = op[3]
                if d["kind"] != "flipper" and action not in ("enable", "disable"):
                    action = "enable"
                shape.append(op[1] + action[0] + action[-1] + op[4][0])
                if action == "enable" and d.get("twin"):
                    # two devices on one switch/coil pair must not be enabled together (a configuration error, the
                    # platform refuses it): no direct enable while the twin is, or is about to be, enabled
                    tw = by_name[d["twin"]]
                    if tw["want"] or tw["dev"]._enabled or pending_up[d["up"]]:
                        return
                do_request(d, action, op[4])
            elif kind == "hand":
                d = autos[op[1] % len(autos)]
                if not d.get("twin"):
                    return
                shape.append("H" + op[2][0])
                if op[2] == "up":
                    # only during a live ball and as the first request of its instant, so that ball_will_end (which
                    # disables the twin again) cannot be queued ahead of it and the twin never meets ball_started
                    if off_reason() or not st["ball_live"] or vm.now() <= st["dirty_t"] + 1e-9:
                        return
                    touch()
                    pending_up[d["up"]] += 1
                    obs["handovers"] += 1
                    m.events.post(d["up"])
                else:
                    touch()
                    obs["handovers"] += 1
                    m.events.post(d["down"])
            elif kind == "sw":
                d = flips[op[2] % len(flips)]
                name = d["eos"] if (op[3] == "eos" and d["eos"]) else d["btn"]
                if not name:
                    return          # switch-less flipper
                shape.append("s" + op[3][0] + str(op[4]))
                touch()
                set_switch(name, op[4])
            elif kind == "repulse":
                # player holds the button, flipper reaches EOS, ball knocks it down (EOS opens)
                d = flips[op[1] % len(flips)]
                if not d["btn"]:
                    return          # switch-less flipper
                shape.append("R")
                touch()
                set_switch(d["btn"], 1)
                if d["eos"]:
                    set_switch(d["eos"], 1)
                    vm.advance(0.125 if d["cfg"]["eos_ms"] <= 100 else 0.625)
                    touch()
                    set_switch(d["eos"], 0)
                    hold = RECLOSE[(op[3] if len(op) > 3 else 0) % len(RECLOSE)]
                    if hold:
                        # the repulse brings the flipper back up: EOS closes again and stays closed
                        vm.advance(1 / 64)
                        touch()
                        set_switch(d["eos"], 1)
                        vm.advance(hold)
                if op[2]:
                    vm.advance(1 / 16)
                    touch()
                    set_switch(d["btn"], 0)
            elif kind == "hit":
                d = autos[op[1] % len(autos)]
                dt = HIT_DT[op[3] % len(HIT_DT)]
                shape.append("h%d%d" % (op[2], op[3] % len(HIT_DT)))
                for i in range(op[2]):
                    touch()
                    if set_switch(d["sw"], 1):
                        note_hit(d)
                    set_switch(d["sw"], 0)
                    if dt and i < op[2] - 1:
                        vm.advance(dt)
            elif kind == "start":
                shape.append("G")
                touch()
                if m.game is None and not m.service.is_in_service():
                    m.ball_controller.num_balls_known = 3
                    pf.balls = 0
                    pf.available_balls = 0
                    set_switch("s_start", 1)
                    set_switch("s_start", 0)
                    obs["games_started"] += 1
            elif kind == "add_player":
                shape.append("P")
                touch()
                set_switch("s_start", 1)
                set_switch("s_start", 0)
            elif kind == "xb":
                shape.append("Q")
                touch()
                if m.game is not None and m.game.player is not None:
                    m.game.player.extra_balls += 1
            elif kind == "drain":
                shape.append("D")
                touch()
                if pf.balls > 0:
                    def cb(balls=0, **kwargs):
                        pf.balls = max(0, pf.balls - 1)
                        pf.available_balls = max(0, pf.available_balls - 1)
                    m.events.post_relay("ball_drain", balls=1, callback=cb)
            elif kind == "end_ball":
                shape.append("E")
                touch()
                if m.game is not None:
                    pf.balls = 0
                    pf.available_balls = 0
                    m.events.post("end_ball")
            elif kind == "end_game":
                shape.append("X")
                touch()
                if m.game is not None:
                    pf.balls = 0
                    pf.available_balls = 0
                    m.events.post("end_game")
            elif kind == "tilt":
                shape.append("T" + op[1][0])
                touch()
                if op[2] and m.game is not None and op[1] != "warn":
                    pf.balls = 0
                    pf.available_balls = 0
                obs["tilts"] += 1
                certain = tilt_certain() if op[1] in ("tilt", "slam") else None
                if certain:
                    # decided from the workload's own switch hit, not from mpf's `tilt` event
                    st["tilt_seen"] = True
                    obs["model_tilts"] += 1
                    if certain == "start":
                        st["tilt_carry"] = True
                        obs["model_tilts_while_ball_starting"] += 1
                if op[1] == "tilt":
                    set_switch("s_tilt", 1)
                    set_switch("s_tilt", 0)
                elif op[1] == "slam":
                    set_switch("s_slam", 1)
                    set_switch("s_slam", 0)
                else:
                    if op[2] and m.game is not None and m.game.player is not None and \
                            tilt_mode.tilt_warnings_remaining <= 1:
                        pf.balls = 0
                        pf.available_balls = 0
                    set_switch("s_warn", 1)
                    set_switch("s_warn", 0)
            elif kind == "svc_in":
                shape.append("Si")
                touch()
                # the service mode's own loop awaits stop_service() (machine reset) before it accepts keys again
                if not m.service.is_in_service() and (st["svc_exit"] is None or st["svc_exit"].done()):
                    m.service.start_service()
                    pf.balls = 0
                    pf.available_balls = 0
                    obs["service_entries"] += 1
            elif kind == "svc_out":
                shape.append("So")
                touch()
                if m.service.is_in_service():
                    st["svc_exit"] = asyncio.ensure_future(m.service.stop_service())
            elif kind == "bs_cb":
                lst = flips if op[1] == "f" else autos
                d = lst[op[2] % len(lst)]
                shape.append("B" + op[1])
                touch()
                d["dev"]._ball_search(1, 1)
            elif kind == "bs_start":
                shape.append("Bs")
                touch()
                if pf.ball_search.enabled and not pf.ball_search.started:
                    pf.ball_search.start()
            elif kind == "cancel_bs":
                shape.append("Bc")
                touch()
                m.events.post("cancel_ball_search")

        hold_ms = cfg.get("stop_hold_ms", 0)
        if hold_ms:
            def hold_stop(queue, **kwargs):
                queue.wait()
                m.delay.add(ms=hold_ms, callback=queue.clear)
            m.events.add_handler("mode_game_stopping", hold_stop, priority=5)

        start_hold_ms = cfg.get("start_hold_ms", 0)
        if start_hold_ms:
            def hold_start(queue, **kwargs):
                queue.wait()
                m.delay.add(ms=start_hold_ms, callback=queue.clear)
            # lowest priority: mpf's own ball_starting handlers (mode controller) have run before the hold begins;
            # resumed after a hold during which the game was stopped they crash (machine.game is None), which is
            # not this property's business
            m.events.add_handler("ball_starting", hold_start, priority=-100000)

        def game_start_spy(**kwargs):
            st["game_started_in_service"] = bool(m.service.is_in_service())
        m.events.add_handler("game_start", game_start_spy, priority=100000)

        def bs_spy(**kwargs):
            obs["ball_searches"] += 1
        m.events.add_handler("ball_search_started", bs_spy, priority=-100000)

        crashed = None
        pf.add_ball = add_ball_shim
        m.ball_controller.num_balls_known = 3
        try:
            # MPF's boot leaves the virtual clock at a non-dyadic instant (0.001): move to exactly 1.0
            vm.advance(1.0 - vm.now())
            if vm.now() != 1.0:
                raise RuntimeError("harness: could not align the virtual clock (now=%r)" % vm.now())
            after_op("boot")
            for i, op in enumerate(case["ops"]):
                try:
                    run_op(op)
                    vm.advance(0)
                except MpfCrash:
                    raise
                after_op("op%d:%s" % (i, op[0]))
            vm.advance(HORIZONS["final_settle_s"])
            after_op("final")
            # ---- end probe: cabinet buttons of devices that are off must not reach a driver ------------
            pf.ball_search.block()
            vm.advance(2.0)
            off_devs = [d for d in devs if not d["dev"]._enabled]
            busy_sw = set()
            for d in devs:
                if d["dev"]._enabled:
                    busy_sw |= {s for s, _ in d["keys"]}
            n0 = {}
            for d in off_devs:
                for c in d["coils"]:
                    n0[c] = mon.drv.get(c)
            probed = []
            for d in off_devs:
                sws = [s for s, _ in d["keys"]]
                if any(s in busy_sw for s in sws):
                    continue
                if d["kind"] == "flipper" and not d["btn"]:
                    continue        # nothing to press
                probed.append(d)
                if d["kind"] == "flipper":
                    set_switch(d["btn"], 0)
                    if d["eos"]:
                        set_switch(d["eos"], 0)
                    vm.advance(1 / 64)
                    for c in d["coils"]:
                        n0[c] = mon.drv.get(c)
                    set_switch(d["btn"], 1)
                    if d["eos"]:
                        set_switch(d["eos"], 1)
                        vm.advance(0.75)
                        set_switch(d["eos"], 0)
                    vm.advance(1 / 16)
                    set_switch(d["btn"], 0)
                    vm.advance(1 / 16)
                else:
                    set_switch(d["sw"], 1)
                    vm.advance(1 / 16)
                    set_switch(d["sw"], 0)
                    vm.advance(1 / 16)
            for d in probed:
                for c in d["coils"]:
                    clauses["probe_no_fire"] += 1
                    cmd = mon.drv.get(c)
                    if cmd is not n0.get(c) and cmd[0] != "disable":
                        V("probe_no_fire", "C10:switch_of_disabled_device_drives_coil", device=d["name"], kind=d["kind"],
                          coil=repr(c), command=list(cmd))
            check_invariant("probe")
        except MpfCrash as e:
            if type(e.__cause__).__name__ == "CaseTimeout":
                raise e.__cause__         # the worker's wall-clock watchdog: inconclusive, never a verdict
            crashed = repr(e)
            files = _crash_files(e)
            if "Overwrote a rule" in crashed or mon.double_set:
                V("installed_once", "C10:rule_installed_twice", crash=crashed[:400],
                  setter=mon.double_set[0][1] if mon.double_set else None)
            elif files & _ANCHOR_FILES:
                V("rules_match", "C10:crash_in_rule_handling", exc=crashed[:600], files=sorted(files & _ANCHOR_FILES))
            else:
                # an MPF crash that never touched the rule code is not an observation about this property
                raise RuntimeError("MPF crashed outside the rule code (not a C10 verdict): %s" % crashed[:800]) from e
        mon.on_change = None

    obs["rule_sets"] = mon.n_set
    obs["rule_clears"] = mon.n_clear
    obs["clears_of_absent_rule"] = mon.n_clear_absent
    obs["driver_commands"] = mon.n_drv_cmd
    obs["sw_repulses"] = sum(1 for v in mon.drv.values() if v[1] == "_repulse_on_eos_open")
    nontrivial = (mon.n_set > 0 and mon.n_clear > 0 and clauses["rules_match"] > 0 and
                  obs["off_with_prior_enable"] > 0)
    variants = "".join(("F" + ("h" if f["hold"] else "s") + ("e" if f["eos"] else "") + ("r" if f["repulse"] else "") +
                        ("n" if f.get("nosw") else ""))
                       for f in cfg["flippers"]) + "".join(
        (a["kind"][0].upper() + ("t" if a["timeout"] else "") + ("d" if a["delay"] else "") +
         ("v" if a["reverse"] else "") + ("w" if a.get("twin") else "")) for a in cfg["autofires"])
    return {"violations": viol, "clauses": clauses, "shape": variants + ":" + "".join(shape), "nontrivial": nontrivial,
            "obs": obs}
