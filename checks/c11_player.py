"""C11 — Player state is isolated per player and restored on their next turn.

A real machine (MpfFakeGameTestCase flavour: real Game mode, real ModeController, real Player, real devices) runs
generated multi-player games in virtual time.  Two generated game modes carry persisting and non-persisting
counters/accruals/sequences, shots (+group, profiles), achievements, timers, state machines and variable_player
entries; `base` runs during every ball, `m2` is started/stopped by the workload (optionally restart_on_next_ball), so
that the devices loaded for the player who is up differ from turn to turn.  event_player hooks post device stimuli at
the game-flow events *between* turns.

Monitors (all at the boundary the property names: player[...] values, device.value/enabled/completed/state, posted
player_<var> events, game-flow events):
  isolation      snapshot of EVERY player's complete variable set (logic-block state objects, achievement dicts
                 flattened) at every turn boundary and after every operation; a player who is not up must be
                 bit-identical to the previous snapshot (model-free), except variable_player entries with an explicit
                 `player:` target, which are compared with an exact reference model.
  restore        snapshot at ball_ended ("parked") vs. the same player after their next ball has started.
  initial        new players / first load of a mode for a (game, player): values documented for the config.
  device_view    public device attributes == the stored state of the player who is up (device bound to the right player).
  nonpersist     devices without persistence start every activation of their mode from the configured values.
  pv_model       exact reference model of the always-running variable_player table, for all players.
  var_event      every write to a player variable (tapped at Player.__setattr__) vs. the player_<var> events posted.
  mode_binding   a game mode alive during a ball was started for that ball (else its devices hold another player's
                 objects).
                 Achievement groups (disable_random, mostly auto_select false): after every (re)start of its mode the
                 group's selection pointer is unset or points at a member which the player who is up has selected
                 (sig achievement_group_selection_carried_into_next_mode_start; counted under nonpersist).
  read_only      reading a (possibly non-existent) variable of any player through player[name] / getattr /
                 is_player_var / a conditional event_player entry mentioning players[k].<var> leaves every player's
                 variable set unchanged (the monitors themselves only read names that exist).

Held mode stops: in a share of cases a queue_relay_player + delayed event_player entry holds mode_m2_stopping and/or
mode_base_stopping for 0.5-5 virtual seconds ("outro"); generated op patterns request the stop, drain the ball within
the hold, post stimuli and only then let the hold run out.  Ball end has to wait for such a mode.  Attribution: a game
mode that is still active when ball_ended is posted is remembered ("survivor"); statement-level violations observed
afterwards in that game carry the survivor's mechanism signature (the oracle's own observation is kept in the detail).
"""
import copy

PROPERTY = "C11"
LEVEL = "exploration"
LEVEL_TEXT = ("Exploration: hundreds to thousands of generated multi-player game histories (1-4 players, 1-3 balls, "
              "extra balls, early game end, second games, late joiners, modes that run for some players only, stimuli "
              "between turns) on the real Game/ModeController/Player/device classes in virtual time; all players' "
              "complete state is compared after every operation.  Histories and configurations are unbounded, so "
              "sampling is what this family reaches.")
LEVEL_NOTE = ("Trusts MPF's test doubles for clock/platform (MpfFakeGameTestCase: no ball devices), the game-flow events "
              "(player_turn_started/ended, ball_started/ended and their player numbers) as the announcement of whose "
              "turn it is, and the small table of documented initial values in vlib/c11_cfg.py.")
TECHNIQUE = ("runtime monitoring: model-free per-player state snapshots (isolation/restoration invariants) + a small "
             "reference model for variable_player + write/event tap on Player")
RULE = ("case = one generated machine (two game modes with per-player devices, hooks) and one operation history "
        "(games, player adds, stimuli, drains, extra balls, early end, next game); distinct = configuration class "
        "(device kinds, persistence flags) x run-length-bucketed op-kind sequence; non-trivial = at least two players "
        "took turns, isolation AND restoration AND the event oracle were each evaluated")
ASSUMPTIONS = [
    "whose turn it is: from player_turn_started(number) to player_turn_ended(number) only that player may change; "
    "between player_turn_ended(p) and player_turn_started(q) both p and q may change (statement silent)",
    "timers have no persistence option: their <mode>_<timer>_tick player variable is checked for isolation and for "
    "agreement with timer.ticks only, not for restoration (it restarts from start_value when the mode starts)",
    "achievements are restored through the documented rule (started->stopped unless restart_on_next_ball_when_started, "
    "enabled->disabled unless enable_on_next_ball_when_enabled)",
    "interpretation: device state NOT configured to persist is not owned by any player and therefore must not carry "
    "one player's progress into another ball: it is compared with the configured start values at every mode start",
    "a write that does not change the value (or creates a variable with value 0) may post zero or one (consistent) "
    "event; the initial enable_events() refresh (value == prev_value, change 0/False) is not a change",
    "variable_player entries with an explicit player target beyond the current number of players are not generated "
    "(MPF logs a warning and applies them to the current player; the statement is silent)",
    "Counter control events (add/subtract/jump) are only posted while their mode is active (raising without a loaded "
    "state is property C18's finding); logic_block_timeout, multiple_hit_window, delay_switch, shows are not generated",
    "stimuli between turns are posted through event_player at game-flow events where no game mode runs",
    "interpretation: restart_modes_on_next_ball is a player variable, so a restart_on_next_ball mode runs at a player's "
    "ball start iff it ran at the end of THAT player's previous ball (or starts with every ball by configuration)",
    "devices that need ball hardware (multiball locks, ball holds, ball saves) are outside the generated envelope",
    "while a mode's stop is held (mode active and stopping) its devices are still loaded for the player who is up: "
    "their stimuli are that player's; device_view skips such a mode; whether a mode that is stopping at ball end counts "
    "as running for restart_on_next_ball is not specified (mode_restart skips it)",
    "a mode alive after ball_ended is not a verdict by itself; it only names the mechanism of violations seen later",
    "exact-instant coincidence not generated: a held stop never runs out in the same virtual instant as an operation "
    "(a mode start requested in the loop iteration in which the ball_ending queue completes belongs to neither ball)",
]
HORIZONS = {"settle_after_op_s": 0.05}
TIERS = {
    "quick": {"cases": 1600, "batch": 25, "case_timeout": 90},
    "thorough": {"cases": 60000, "batch": 250, "case_timeout": 180},
}
MIN_EVALS = {"quick": {"isolation": 60000, "restore": 2000, "initial": 20000, "device_view": 250000, "pv_model": 500000,
                       "var_event": 80000, "nonpersist": 8000, "mode_restart": 4000, "mode_binding": 40000,
                       "read_only": 1500},
             "thorough": {"isolation": 2400000, "restore": 80000, "initial": 750000, "device_view": 9000000,
                          "pv_model": 18000000, "var_event": 3000000, "nonpersist": 300000, "mode_restart": 160000,
                          "mode_binding": 1500000, "read_only": 50000}}
SHRINK_KEYS = ["ops"]

ABSENT = "<absent>"


def gen_case(rng, tier, index):
    from vlib import c11_cfg
    return c11_cfg.gen_case(rng, tier, index)


# =============================================================================================================
def _freeze(v):
    if type(v).__name__ == "LogicBlockState":
        return ["LBS", v.enabled, v.completed, copy.deepcopy(v.value)]
    if isinstance(v, dict):
        return {str(k): _freeze(x) for k, x in v.items()}
    if isinstance(v, (list, tuple)):
        return [_freeze(x) for x in v]
    if isinstance(v, (int, float, str)) or v is None:
        return v
    if hasattr(v, "name"):
        return "<%s %s>" % (type(v).__name__, v.name)
    return repr(v)


def _snap_player(p):
    return {name: _freeze(v) for name, v in p}      # Player.__iter__: all player variables


def _diff(a, b):
    out = {}
    for k in sorted(set(a) | set(b)):
        x, y = a.get(k, ABSENT), b.get(k, ABSENT)
        if x != y:
            out[k] = [x, y]
    return out


class _Tap:
    """Class-level taps: Player.__setattr__ (every player-variable write) and EventManager.post (player_* events)."""

    def __init__(self):
        from mpf.core.player import Player
        from mpf.core.events import EventManager
        self.Player, self.EM = Player, EventManager
        self.orig_set, self.orig_post = Player.__setattr__, EventManager.post
        self.writes = []
        self.loose = []       # player_* variable events posted outside any write
        self.depth = 0
        self.cur_posts = None
        tap = self

        def __setattr__(p, name, value, **kwargs):
            if name in p.__dict__:
                return tap.orig_set(p, name, value, **kwargs)
            had = p.is_player_var(name)
            old = p[name] if had else None
            enabled = bool(p.__dict__.get("_events_enabled"))
            outer = tap.cur_posts
            tap.cur_posts = mine = []
            tap.depth += 1
            try:
                return tap.orig_set(p, name, value, **kwargs)
            finally:
                tap.depth -= 1
                tap.cur_posts = outer
                new = p[name] if p.is_player_var(name) else ABSENT
                prev = old if had else 0
                try:
                    same = bool(old == new) if had else False
                except Exception:   # noqa
                    same = old is new
                try:
                    change = new - prev
                except TypeError:
                    change = prev != new
                except Exception:   # noqa
                    change = None
                tap.writes.append({"player": p.number, "name": name, "had": had, "same": same,
                                   "simple": isinstance(new, (int, float, str)), "enabled": enabled,
                                   "new": _freeze(new), "prev": _freeze(prev), "change": _freeze(change),
                                   "zero_new": (not had) and isinstance(new, (int, float)) and new == 0,
                                   "posts": [k for e, k in mine if e == "player_" + name],
                                   "foreign_posts": [e for e, k in mine if e != "player_" + name]})

        def post(em, event, callback=None, **kwargs):
            if event.startswith("player_") and all(k in kwargs for k in ("value", "prev_value", "change", "player_num")):
                rec = (event, {k: _freeze(kwargs[k]) for k in ("value", "prev_value", "change", "player_num")})
                if tap.cur_posts is not None:
                    tap.cur_posts.append(rec)
                else:
                    cur = ABSENT
                    try:
                        g = em.machine.game
                        pl = g.player_list[kwargs["player_num"] - 1]
                        name = event[len("player_"):]
                        cur = _freeze(pl[name]) if pl.is_player_var(name) else ABSENT
                    except Exception:   # noqa
                        pass
                    tap.loose.append((event, rec[1], cur))
            return tap.orig_post(em, event, callback, **kwargs)

        Player.__setattr__ = __setattr__
        EventManager.post = post

    def close(self):
        self.Player.__setattr__ = self.orig_set
        self.EM.post = self.orig_post


def _var_kind(var, devs):
    for d in devs:
        if var == d["var"] or var == d.get("evar"):
            return {"counter": "logic_block_state", "accrual": "logic_block_state", "sequence": "logic_block_state",
                    "shot": "shot_state", "achievement": "achievement_state", "timer": "timer_tick",
                    "xb": "extra_ball_count",
                    "sm": "state_machine_state"}[d["kind"]]
    return "player_var"


def _crash_sig(e):
    import traceback
    x = e
    frames = []
    while x is not None:
        frames += traceback.extract_tb(x.__traceback__)
        x = x.__cause__ or x.__context__
    where = "unknown"
    for f in frames:
        if "/mpf/" in f.filename and "/mpf/tests/" not in f.filename:
            where = "%s.%s" % (f.filename.rsplit("/", 1)[-1].replace(".py", ""), f.name)
    return "C11:crash_in_" + where


def run_case(case):
    from vlib import c11_cfg as G
    from vlib.boot import VMachine, MpfCrash
    tap = _Tap()
    try:
        return _run(case, tap, G, VMachine, MpfCrash)
    finally:
        tap.close()


def _run(case, tap, G, VMachine, MpfCrash):
    cfg = case["cfg"]
    devs = G.devices(cfg)
    pv_table = {}
    for ev in cfg["pv"]:
        pv_table[ev] = cfg["base"]["variable_player"][ev]
    init_pv = G.initial_player_vars(cfg)
    dev_vars = set()
    for d in devs:
        dev_vars.add(d["var"])
        if d.get("evar"):
            dev_vars.add(d["evar"])
    guarded = {e: mode for mode in ("base", "m2") for e in cfg["guarded"][mode]}
    ebg_guarded = set(cfg["guarded"].get("ebg", []))
    m2_auto = "mode_base_started" in cfg["m2"]["mode"]["start_events"]
    m2_restart = bool(cfg["m2"]["mode"].get("restart_on_next_ball"))

    clauses = {"isolation": 0, "restore": 0, "initial": 0, "device_view": 0, "pv_model": 0, "var_event": 0,
               "nonpersist": 0, "mode_restart": 0, "mode_binding": 0, "read_only": 0, "no_crash": 0}
    obs = {"ops_applied": 0, "ops_skipped": 0, "turns": 0, "balls": 0, "extra_balls": 0, "games": 0, "players_added": 0,
           "writes_seen": 0, "var_events_seen": 0, "targeted_writes": 0, "hook_posts": 0, "m2_activations": 0,
           "diverged_isolation_evals": 0, "max_players": 0, "restores_with_divergence": 0, "reads": 0}
    viol = []
    sigs_seen = set()
    harness = []

    def V(clause, sig, **detail):
        sv = S.get("survivor")
        if sv and clause not in ("var_event", "pv_model", "no_crash"):
            # a game mode was still alive when an earlier ball of this game had ended: its handlers/devices kept acting on
            # the player of that ball.  Name that mechanism; what the statement-level oracle saw is kept in the detail.
            detail = dict(detail, observed_as=sig, survivor=sv)
            sig = sv["sig"]
            S["abort"] = True
        if sig in sigs_seen or len(viol) >= 12:
            return
        sigs_seen.add(sig)
        viol.append({"clause": clause, "sig": sig, "detail": detail})

    S = {"G": 0, "plist": None, "last": {}, "phase": "none", "owner": None, "prev": None, "park": {}, "model": {},
         "ball": False, "started": [], "had_ball": set(), "loaded_once": set(), "act": {"base": 0, "m2": 0},
         "act_seen": {"base": 0, "m2": 0}, "m2_at_end": {}, "epoch": 0, "stamp": {}, "act_count": {},
         "abort": False, "survivor": None, "game_over": False, "opno": -1, "op": None, "known": set()}

    with VMachine(G.machine_config(cfg), modes={"base": cfg["base"], "m2": cfg["m2"]}, kind="fake") as vm:
        m = vm.machine

        def _add_ball(**kwargs):
            m.playfield.balls += 1
            m.playfield.available_balls += 1
        m.playfield.add_ball = _add_ball
        m.ball_controller.num_balls_known = 3

        def players():
            return list(S["plist"]) if S["plist"] is not None else []

        def snapshot():
            return {p.number: _snap_player(p) for p in players()}

        def where():
            return {"op_index": S["opno"], "op": S["op"], "game": S["G"], "phase": S["phase"], "owner": S["owner"],
                    "prev_owner": S["prev"]}

        # ---------------------------------------------------------------------------------------------
        def check_creation(n, snap):
            """A player appearing for the first time."""
            obs["players_added"] += 1
            obs["max_players"] = max(obs["max_players"], n)
            S["model"][n] = dict(init_pv)
            clauses["initial"] += 1
            bad = {}
            if snap.get("number") != n or snap.get("index") != n - 1:
                bad["number/index"] = [snap.get("number"), snap.get("index")]
            for var, val in init_pv.items():
                got = snap.get(var, ABSENT)
                if got != val or type(got) is not type(val):
                    bad[var] = [val, got]
            if bad:
                V("initial", "C11:new_player_not_at_configured_initial_values", player=n, expected_vs_got=bad, **where())
            if (S["G"], n) not in S["had_ball"]:
                foreign = {k: v for k, v in snap.items() if k in dev_vars}
                if foreign:
                    V("initial", "C11:new_player_owns_device_state_before_first_ball", player=n, vars=foreign, **where())

        def expected_with_model(before, n):
            """Previous snapshot with the modelled (possibly explicitly targeted) variables overwritten."""
            exp = dict(before)
            for var in G.PV_VARS:
                mv = S["model"][n].get(var, ABSENT)
                if mv is ABSENT:
                    exp.pop(var, None)
                else:
                    exp[var] = mv
            return exp

        def checkpoint(allowed, tag):
            """Close the segment since the previous checkpoint: players outside `allowed` must be unchanged."""
            now = snapshot()
            last = S["last"]
            for n, snap in now.items():
                if n not in last:
                    if n not in S["known"]:
                        S["known"].add(n)
                        check_creation(n, snap)
                    continue
                if allowed is not None and n not in allowed:
                    clauses["isolation"] += 1
                    others = [now[k] for k in now if k != n]
                    if any(_strip(o) != _strip(snap) for o in others):
                        obs["diverged_isolation_evals"] += 1
                    exp = expected_with_model(last[n], n)
                    if exp != snap:
                        d = _diff(exp, snap)
                        kinds = sorted(set(_var_kind(k, devs) for k in d))
                        V("isolation", "C11:state_of_player_not_up_changed_" + kinds[0], player=n, allowed=sorted(allowed, key=repr),
                          at=tag, changed=d, **where())
            for n in last:
                if n not in now:
                    V("isolation", "C11:player_disappeared", player=n, at=tag, **where())
            S["last"] = now
            return now

        def _strip(snap):
            return {k: v for k, v in snap.items() if k not in ("number", "index")}

        def allowed_now():
            if S["phase"] == "pre":
                return None
            if S["phase"] == "turn":
                return {S["owner"]}
            return {S["prev"]}

        def guard(fn):
            def h(**kwargs):
                try:
                    fn(**kwargs)
                except Exception:   # noqa
                    import traceback
                    harness.append(traceback.format_exc())
            return h

        # ---- game-flow taps ---------------------------------------------------------------------------
        def on_game_started(**kwargs):
            S["G"] += 1
            S["epoch"] += 1
            S["survivor"] = None
            obs["games"] += 1
            S.update(plist=m.game.player_list, last={}, phase="pre", owner=None, prev=None, park={}, model={}, ball=False,
                     game_over=False, known=set())
            checkpoint(None, "game_started")

        def on_turn_started(number=None, **kwargs):
            if S["phase"] == "pre":
                checkpoint(None, "player_turn_started")
            else:
                checkpoint({S["prev"], number}, "player_turn_started")
            S["phase"], S["owner"] = "turn", number
            obs["turns"] += 1

        def on_turn_ended(number=None, **kwargs):
            checkpoint({number}, "player_turn_ended")
            S["phase"], S["owner"], S["prev"] = "dead", None, number

        def on_ball_started(player=None, is_extra_ball=False, **kwargs):
            S["ball"] = True
            obs["balls"] += 1
            S["had_ball"].add((S["G"], player))
            S["started"].append(player)
            if is_extra_ball:
                obs["extra_balls"] += 1

        def on_ball_will_end(**kwargs):
            S["ball"] = False
            mo = m.modes["m2"]
            # a stop still in progress (held) at ball end: whether the mode counts as "running" is not specified
            S["m2_at_end"][(S["G"], S["owner"])] = "stopping" if (mo.active and mo.stopping) else bool(mo.active)

        def on_ball_ended(**kwargs):
            S["ball"] = False
            S["epoch"] += 1         # everything a game mode holds belongs to the ball that just ended
            for name in ("base", "m2"):
                mo = m.modes[name]
                if mo.active and not S.get("survivor"):
                    st = S["stamp"].get(name)
                    if st is not None and not st["ball_in_progress"]:
                        cause = "C11:mode_started_while_ball_was_ending_survives_into_next_ball"
                    elif mo.stopping:
                        cause = "C11:ball_end_did_not_wait_for_stopping_mode"
                    else:
                        cause = "C11:game_mode_survived_ball_end"
                    S["survivor"] = {"sig": cause, "mode": name, "started": st, "stopping": bool(mo.stopping),
                                     "ball_ended_in_op": S["opno"], "player": S["owner"]}
            n = S["owner"]
            now = checkpoint(allowed_now(), "ball_ended")
            if n in now:
                S["park"][n] = now[n]

        def on_game_ended(**kwargs):
            S["game_over"] = True

        def on_mode_started(which):
            def h(**kwargs):
                S["act"][which] += 1
                key = (S["G"], S["owner"], which)       # every activation counts, also one that ends within the same op
                S["act_count"][key] = S["act_count"].get(key, 0) + 1
                S["stamp"][which] = {"epoch": S["epoch"], "owner": S["owner"], "ball_in_progress": S["ball"],
                                     "phase": S["phase"], "op_index": S["opno"]}
            return h

        m.events.add_handler("game_started", guard(on_game_started), priority=2000000)
        m.events.add_handler("player_turn_started", guard(on_turn_started), priority=2000000)
        m.events.add_handler("player_turn_ended", guard(on_turn_ended), priority=2000000)
        m.events.add_handler("ball_started", guard(on_ball_started), priority=-2000000)
        m.events.add_handler("ball_will_end", guard(on_ball_will_end), priority=2000000)
        m.events.add_handler("ball_ended", guard(on_ball_ended), priority=-2000000)
        m.events.add_handler("game_ended", guard(on_game_ended), priority=-2000000)
        m.events.add_handler("mode_base_started", guard(on_mode_started("base")), priority=-2000000)
        m.events.add_handler("mode_m2_started", guard(on_mode_started("m2")), priority=-2000000)
        for trig, ev in cfg.get("hooks", []):
            def cnt(**kwargs):
                obs["hook_posts"] += 1
            m.events.add_handler(trig, cnt)

        # ---- oracles evaluated after every operation --------------------------------------------------
        def mode_active(name):
            mo = m.modes[name]
            return bool(mo.active and not mo.stopping)

        def dev_obj(d):
            return getattr(m, d["coll"])[d["name"]]

        def check_restore(now):
            started, S["started"] = S["started"], []
            for n in started:
                # which modes run is per player too (restart_modes_on_next_ball is a player variable)
                at_end = S["m2_at_end"].get((S["G"], n), False)
                if at_end == "stopping" and not m2_auto:
                    continue
                clauses["mode_restart"] += 1
                exp_m2 = m2_auto or (m2_restart and bool(at_end))
                if mode_active("m2") != exp_m2:
                    V("mode_restart", "C11:mode_restart_on_next_ball_not_per_player", player=n, m2_active=mode_active("m2"),
                      expected=exp_m2, was_active_at_own_last_ball_end=S["m2_at_end"].get((S["G"], n)), **where())
                park = S["park"].pop(n, None)
                if park is None or n not in now:
                    continue
                clauses["restore"] += 1
                if any(_strip(now[k]) != _strip(now[n]) for k in now if k != n):
                    obs["restores_with_divergence"] += 1
                exp = expected_with_model(park, n)     # modelled variables: the model is the authority (targeted writes)
                cur = dict(now[n])
                bad = {}
                for var in ("restart_modes_on_next_ball",):
                    exp.pop(var, None)
                    cur.pop(var, None)
                for d in devs:
                    if d["kind"] == "timer":
                        exp.pop(d["var"], None)
                        cur.pop(d["var"], None)
                b0, b1 = exp.pop("ball", 0), cur.pop("ball", 0)
                if b1 not in (b0, b0 + 1):
                    bad["ball"] = [b0, b1]
                x0, x1 = exp.pop("extra_balls", 0), cur.pop("extra_balls", 0)
                if x1 not in (x0, x0 - 1):
                    bad["extra_balls"] = [x0, x1]
                exp.pop("extra_ball_group_ebg_num_awarded_ball", None)     # per-ball counter: reset when a turn starts
                cur.pop("extra_ball_group_ebg_num_awarded_ball", None)
                if not cfg["ebg"].get("lit_memory", True):
                    exp.pop("extra_ball_group_ebg_num_lit", None)          # documented: forgotten at turn end
                    cur.pop("extra_ball_group_ebg_num_lit", None)
                a0, a1 = exp.pop("achievements", ABSENT), cur.pop("achievements", ABSENT)
                if a0 is not ABSENT:
                    a0 = copy.deepcopy(a0)
                    for d in devs:
                        if d["kind"] == "achievement" and d["name"] in a0 and mode_active(d["mode"]):
                            st = a0[d["name"]][0]
                            if st == "started" and not d["keep_started"]:
                                a0[d["name"]][0] = "stopped"
                            elif st == "enabled" and not d["keep_enabled"]:
                                a0[d["name"]][0] = "disabled"
                    if a1 is ABSENT:
                        bad["achievements"] = [a0, a1]
                    else:
                        auto = set(d["name"] for d in devs if d["kind"] == "achievement" and d.get("auto_selected"))
                        for name in a0:
                            x, y = a0[name], a1.get(name)
                            if name in auto and isinstance(y, list):
                                x, y = x[:1], y[:1]     # an auto_select group may highlight a member at mode start
                            if x != y:
                                bad["achievements." + name] = [a0[name], a1.get(name)]
                for var in exp:
                    if var not in cur:
                        bad[var] = [exp[var], ABSENT]
                    elif cur[var] != exp[var]:
                        bad[var] = [exp[var], cur[var]]
                if bad:
                    kinds = sorted(set(_var_kind(k.split(".")[0], devs) for k in bad))
                    V("restore", "C11:not_restored_at_next_ball_" + kinds[0], player=n, parked_vs_now=bad, **where())

        def check_first_load_and_fresh(now):
            n = S["owner"]
            for mode in ("base", "m2"):
                act = S["act"][mode]
                activated = act != S["act_seen"][mode]
                S["act_seen"][mode] = act
                if mode == "m2" and activated:
                    obs["m2_activations"] += 1
                if not mode_active(mode) or S["phase"] != "turn" or n not in now:
                    continue        # (a mode may also be started while a held ball end is still waiting)
                snap = now[n]
                first = (S["G"], n, mode) not in S["loaded_once"] and S["act_count"].get((S["G"], n, mode), 0) <= 1
                S["loaded_once"].add((S["G"], n, mode))
                for d in devs:
                    if d["mode"] != mode:
                        continue
                    o = dev_obj(d)
                    k = d["kind"]
                    if d["persist"] and first and k != "timer":
                        clauses["initial"] += 1
                        if k in ("counter", "accrual", "sequence"):
                            exp, got = ["LBS", d["e0"], False, d["v0"]], snap.get(d["var"], ABSENT)
                        elif k == "shot":
                            exp = [0, d["e0"]]
                            got = [snap.get(d["var"], 0), snap.get(d["evar"], ABSENT)]
                        elif k == "achievement":
                            exp = [d["s0"], False]
                            got = snap.get("achievements", {}).get(d["name"], ABSENT) \
                                if isinstance(snap.get("achievements"), dict) else ABSENT
                            if d.get("auto_selected") and isinstance(got, list):
                                exp, got = exp[:1], got[:1]     # an auto_select group may highlight it at mode start
                        else:
                            exp, got = d["v0"], snap.get(d["var"], ABSENT)
                        if exp != got:
                            V("initial", "C11:first_load_not_at_configured_initial_" + _var_kind(d["var"], devs),
                              player=n, device=d["name"], expected=exp, got=got, **where())
                    if k == "agroup" and activated:
                        # the group's selection pointer is not per player: after a (re)start of its mode it is either
                        # unset or points at a member the player who is up has selected (derivable from that player's
                        # own achievement states)
                        clauses["nonpersist"] += 1
                        sel = o.get_monitorable_state().get("selected_member")
                        if sel is not None:
                            sel_name = sel if isinstance(sel, str) else getattr(sel, "name", repr(sel))
                            if sel_name.startswith("<achievement.") and sel_name.endswith(">"):
                                sel_name = sel_name[len("<achievement."):-1]
                            a = snap.get("achievements")
                            st = a.get(sel_name) if isinstance(a, dict) else None
                            if sel_name not in d["members"] or not (isinstance(st, list) and st[1]):
                                V("nonpersist", "C11:achievement_group_selection_carried_into_next_mode_start", player=n,
                                  device=d["name"], points_at=sel_name, that_achievement_for_this_player=st, **where())
                    if not d["persist"] and activated and k in ("counter", "accrual", "sequence", "sm", "shot"):
                        clauses["nonpersist"] += 1
                        if k in ("counter", "accrual", "sequence"):
                            exp, got = [d["e0"], False, d["v0"]], [bool(o.enabled), bool(o.completed), _freeze(o.value)]
                        elif k == "sm":
                            exp, got = d["v0"], o.state
                        else:
                            exp, got = d["e0"], bool(o.enabled)
                            if first:
                                clauses["initial"] += 1
                                if snap.get(d["var"], 0) != 0:
                                    V("initial", "C11:first_load_not_at_configured_initial_shot_state", player=n,
                                      device=d["name"], expected=0, got=snap.get(d["var"]), **where())
                        if exp != got:
                            V("nonpersist", "C11:nonpersistent_device_state_carried_into_next_mode_start_" + k,
                              player=n, device=d["name"], expected=exp, got=got, **where())

        def check_device_view(now):
            n = S["owner"]
            if not S["ball"] or S["phase"] != "turn" or n not in now:
                return
            snap = now[n]
            for d in devs:
                if not mode_active(d["mode"]):
                    continue
                o = dev_obj(d)
                k = d["kind"]
                if k in ("counter", "accrual", "sequence"):
                    if not d["persist"]:
                        continue
                    st = snap.get(d["var"], ABSENT)
                    exp = st[1:] if isinstance(st, list) else ABSENT
                    got = [o.enabled, o.completed, _freeze(o.value)]
                elif k == "shot":
                    exp = [snap.get(d["var"], 0)]
                    got = [o.state]
                    if d["persist"]:
                        exp.append(snap.get(d["evar"], ABSENT))
                        got.append(o.enabled)
                elif k == "achievement":
                    a = snap.get("achievements")
                    exp = a.get(d["name"], ABSENT) if isinstance(a, dict) else ABSENT
                    got = [o.state, o.selected]
                elif k == "sm":
                    if not d["persist"]:
                        continue
                    exp, got = snap.get(d["var"], ABSENT), o.state
                elif k in ("xb", "agroup"):
                    continue
                else:
                    exp, got = snap.get(d["var"], ABSENT), o.ticks
                clauses["device_view"] += 1
                if exp != got:
                    V("device_view", "C11:device_not_showing_state_of_player_up_" + _var_kind(d["var"], devs), player=n,
                      device=d["name"], player_state=exp, device_shows=got, **where())

        def check_pv(now):
            for n, snap in now.items():
                mod = S["model"].get(n)
                if mod is None:
                    continue
                for var in G.PV_VARS:
                    clauses["pv_model"] += 1
                    exp, got = mod.get(var, ABSENT), snap.get(var, ABSENT)
                    if exp != got or (exp is not ABSENT and type(exp) is not type(got)):
                        V("pv_model", "C11:player_var_differs_from_model" +
                          ("_of_player_not_up" if n != S["owner"] else ""), player=n, var=var, model=exp, real=got, **where())

        def check_var_events():
            writes, tap.writes = tap.writes, []
            loose, tap.loose = tap.loose, []
            for w in writes:
                obs["writes_seen"] += 1
                obs["var_events_seen"] += len(w["posts"])
                clauses["var_event"] += 1
                posts = w["posts"]
                must = w["enabled"] and w["simple"] and not w["same"] and not w["zero_new"]
                may = w["enabled"] and w["simple"]
                ctx = dict(player=w["player"], var=w["name"], new=w["new"], prev=w["prev"], posts=posts)
                if must and not posts:
                    V("var_event", "C11:player_var_change_without_event", **ctx, **where())
                if len(posts) > 1:
                    V("var_event", "C11:player_var_event_duplicated", **ctx, **where())
                if posts and not may:
                    V("var_event", "C11:player_var_event_for_silent_write", **ctx, **where())
                for k in posts:
                    if k["value"] != w["new"]:
                        V("var_event", "C11:player_var_event_wrong_value", **ctx, **where())
                    elif k["prev_value"] != w["prev"]:
                        V("var_event", "C11:player_var_event_wrong_prev_value", **ctx, **where())
                    elif k["change"] != w["change"] or isinstance(k["change"], bool) != isinstance(w["change"], bool):
                        V("var_event", "C11:player_var_event_wrong_change", expected_change=w["change"], **ctx, **where())
                    elif k["player_num"] != w["player"]:
                        V("var_event", "C11:player_var_event_wrong_player_num", **ctx, **where())
            for event, k, cur in loose:
                clauses["var_event"] += 1
                if not (k["value"] == k["prev_value"] and k["change"] in (0, False) and cur == k["value"]):
                    V("var_event", "C11:player_var_event_without_write", event=event, kwargs=k, current=cur, **where())

        def check_mode_binding():
            """A game mode that is alive during a ball was started for this ball (game modes stop at ball end and
            restart with the next player's objects).  A survivor still holds the previous player's state objects."""
            if not S["ball"] or S["phase"] != "turn":
                return
            for name in ("base", "m2"):
                mo = m.modes[name]
                if not mo.active:
                    continue
                clauses["mode_binding"] += 1
                st = S["stamp"].get(name)
                if st is None or st["epoch"] == S["epoch"] or st["owner"] == S["owner"]:
                    continue        # same player again (extra ball / one player game): same objects, nothing mis-attributed
                sig = "C11:game_mode_bound_to_player_of_an_earlier_ball"
                V("mode_binding", sig, mode=name, started=st, stopping=bool(mo.stopping), **where())
                S["abort"] = True

        def after_op():
            check_mode_binding()
            if S["abort"]:
                return      # everything after this is a consequence: devices of that mode act on the wrong player
            now = checkpoint(allowed_now(), "after_op")
            check_restore(now)
            check_first_load_and_fresh(now)
            check_device_view(now)
            check_pv(now)
            check_var_events()
            if S["game_over"] and m.game is None:
                S.update(plist=None, last={}, phase="none", owner=None, prev=None, park={}, model={}, ball=False,
                         game_over=False)
                m.playfield.balls = 0
                m.playfield.available_balls = 0

        # ---- operations --------------------------------------------------------------------------------
        def apply_pv_model(ev):
            for var, e in pv_table[ev].items():
                tgt = e.get("player") or S["owner"]
                mod = S["model"].get(tgt)
                if mod is None:
                    continue
                if e.get("player") and e["player"] != S["owner"]:
                    obs["targeted_writes"] += 1
                val = e["int"] if "int" in e else e["float"] if "float" in e else e["string"]
                if e["action"] == "add":
                    mod[var] = mod.get(var, 0) + val
                else:
                    mod[var] = val

        def do_op(op):
            k = op[0]
            if k == "start_game":
                if m.game is not None:
                    return False
                vm.t.hit_and_release_switch("s_start")
                vm.advance(HORIZONS["settle_after_op_s"])
                return m.game is not None
            if k == "add_player":
                g = m.game
                if g is None or g.player is None or g.player.ball > 1 or len(g.player_list) >= cfg["max_players"] \
                        or not S["ball"]:
                    return False
                vm.t.hit_and_release_switch("s_start")
                vm.advance(HORIZONS["settle_after_op_s"])
                return True
            if k == "drain":
                if m.game is None or not S["ball"] or m.game.balls_in_play <= 0:
                    return False
                fut = m.events.post_relay_async("ball_drain", balls=1)
                res = vm.loop.run_until_complete(fut)
                m.playfield.balls -= res["balls"]
                m.playfield.available_balls -= res["balls"]
                vm.advance(HORIZONS["settle_after_op_s"])
                return True
            if k == "end_game":
                if m.game is None or not S["ball"]:
                    return False
                m.game.end_game()
                m.playfield.balls = 0                   # the ball in play physically leaves the playfield
                m.playfield.available_balls = 0
                vm.advance(HORIZONS["settle_after_op_s"])
                return True
            if k in ("read", "probe"):
                pl = players()
                if m.game is None or m.game.player is None or not pl or S["phase"] not in ("turn",):
                    return False
                before = snapshot()
                if k == "read":
                    who, name, how = op[1], op[2], op[3]
                    if who == "cur":
                        target = m.game.player
                    elif who < len(pl):
                        target = pl[who]
                    else:
                        return False
                    if how == "item":
                        target[name]
                    elif how == "attr":
                        getattr(target, name)
                    else:
                        target.is_player_var(name)
                else:
                    probes = cfg.get("probes", [])
                    if op[1] >= len(probes):
                        return False
                    ev, expr = probes[op[1]]
                    if expr.startswith("players[") and int(expr[8]) >= len(pl):
                        return False        # "Player not in game" is a placeholder error, not a read
                    m.events.post(ev)
                    for _ in range(3):
                        vm.advance(0)
                obs["reads"] += 1
                after = snapshot()
                clauses["read_only"] += 1
                if before != after:
                    ch = {n: _diff(before.get(n, {}), after.get(n, {})) for n in after if before.get(n) != after.get(n)}
                    V("read_only", "C11:reading_a_player_variable_changed_player_state", op_detail=op, changed=ch, **where())
                if k == "probe":
                    vm.advance(0.01)
                return True
            if k == "adv":
                vm.advance(op[1])
                return True
            if k == "ev":
                ev = op[1]
                if ev in guarded and not (S["ball"] and mode_active(guarded[ev])):
                    return False
                if ev in ebg_guarded and not (S["ball"] and m.extra_ball_groups["ebg"].is_ok_to_light()):
                    return False    # ExtraBallGroup.light() raises AttributeError when lighting is refused (not C11)
                if ev in pv_table:
                    if not (S["ball"] and S["phase"] == "turn" and mode_active("base")):
                        return False
                    n_pl = len(players())
                    if any(e.get("player") and e["player"] > n_pl for e in pv_table[ev].values()):
                        return False
                    apply_pv_model(ev)
                m.events.post(ev)
                vm.advance(0.01)
                return True
            return False

        shape = []
        crashed = False
        try:
            for i, op in enumerate(case["ops"]):
                S["opno"], S["op"] = i, op
                ok = do_op(op)
                obs["ops_applied" if ok else "ops_skipped"] += 1
                if ok:
                    shape.append({"start_game": "S", "add_player": "a", "drain": "d", "end_game": "E", "adv": "t", "read": "r",
                                  "probe": "r"}.get(
                        op[0]) or ("p" if op[1] in pv_table else "m" if op[1].startswith("x_m2_") else
                                   "h" if op[1] == "x_base_halt" else "e"))
                after_op()
                if harness:
                    raise RuntimeError("C11 harness handler failed:\n" + harness[0])
                if S["abort"]:
                    break
        except MpfCrash as e:
            crashed = True
            V("no_crash", _crash_sig(e), exc=repr(e)[:700], **where())
        except Exception as e:   # noqa
            if harness:
                raise
            ctx = vm.crashed()
            exc = ctx.get("exception") if isinstance(ctx, dict) else None
            if exc is None and "/mpf/" not in _tb(e).replace("/mpf/tests/", ""):
                raise
            crashed = True
            V("no_crash", _crash_sig(exc or e), exc=repr(exc or e)[:700], **where())
        clauses["no_crash"] = 1

    # shape: config class x bucketed op-kind run-lengths
    runs = []
    for c in shape:
        if runs and runs[-1][0] == c:
            runs[-1][1] += 1
        else:
            runs.append([c, 1])
    seq = "".join(c + ("" if n == 1 else "2" if n <= 3 else "+") for c, n in runs)
    kinds = sorted(set("%s%s%s" % (d["mode"][0], d["kind"][:2], "P" if d["persist"] else "n") for d in devs))
    shp = "P%dB%d|%s|H%d|%s" % (obs["max_players"], cfg["balls"], ",".join(kinds), len(cfg.get("hooks", [])), seq[:160])
    nontrivial = (not crashed and obs["max_players"] >= 2 and obs["turns"] >= 3 and clauses["isolation"] > 0 and
                  clauses["restore"] > 0 and clauses["var_event"] > 0 and clauses["device_view"] > 0)
    return {"violations": viol, "clauses": clauses, "shape": shp, "nontrivial": nontrivial, "obs": obs}


def _tb(e):
    import traceback
    return "".join(traceback.format_exception(type(e), e, e.__traceback__))
