"""C12 — Config validation returns well-typed complete configs or rejects.

Runtime monitoring at the boundary the property names: the return value / raised exception of the real
`ConfigValidator.validate_config` (of a booted null machine on MPF's TimeTravelLoop, so templates and
`machine(...)` resolve) and of `Util.string_to_ms/string_to_secs`.  Every section x key of the shipped
`config_spec.yaml` (plus one synthetic mode-settings spec that spells out every validator type, registered through
the public `load_mode_config_spec`) is fed generated hostile values.  An independent oracle
(`vlib/c12_oracle.py`: type table per validator, declared ranges/enums, completeness, unknown/dropped keys, exact
rational time reference, list/set cardinality: a provided scalar/element never vanishes) judges every returned config; any exception is a rejection and therefore fine.  The spec and
the `build_spec` cache are compared with a private reference copy after every call.
"""
import math

PROPERTY = "C12"
LEVEL = "exploration"
TECHNIQUE = ("runtime monitoring: type/range/enum/completeness oracle on every value returned by the real "
             "ConfigValidator.validate_config inside a booted machine; exact-arithmetic differential for "
             "string_to_ms/secs; spec + build_spec-cache equality against a private reference after every call")
RULE = ("case = ~500 operations: (a) for a contiguous slice of the enumerated (section,key) list of config_spec.yaml, "
        "~18 values per key drawn from the validator's targeted classes (valid, boundary, range edges, NaN/inf, "
        "tokens, templates) and from a type-confusion pool (every YAML scalar type, None/''/'none', nested "
        "lists/dicts), validated alone (add_missing_keys False/True); (b) whole-section sources with required keys "
        "filled, optional keys sampled, unknown/_internal/int keys and non-dict sources injected; (c) the same "
        "against a synthetic spec covering every validator x container form incl. one-sided ranges; (d) direct "
        "string_to_ms/secs calls on number x suffix x case x blank combinations; (e) 36 sections of 1-4 event entries "
        "(falsy None/0/0.0/False/''/{}/[], express scalars, device dicts, lists; plain, conditional, delayed and int "
        "event keys) through ConfigPlayer.validate_config of each of the 14 registered config players: every provided "
        "event key is kept or the call raises; (f) 12 sections validated twice with all optional settings omitted, the "
        "first result's default containers poisoned in between (history dependence of defaults).  distinct = set of "
        "(op kind, validator family, value class, outcome) tuples of the case; non-trivial = type, completeness, "
        "unknown-key, dropped-key, list-normalisation, config-player-keys, default-freshness, spec-unchanged and time oracles were each evaluated at least once")
ASSUMPTIONS = [
    "any exception out of validate_config/string_to_ms/secs counts as rejection (statement: 'or rejects ... with an error')",
    "None is accepted as the value of any type when the input (or the spec default) is None/'none' (MPF's null), and "
    "for kivycolor when the input is falsy; a None/'none' subconfig may validate to {}",
    "bool is accepted where num is declared (bool is an int in Python); int requires a real int, float a real float",
    "time: |result - value x unit| <= 1 ms (+1e-9 relative) — integer-ms truncation such as '2.01s' -> 2009 is not a unit "
    "error; nothing is demanded for inputs with surrounding blanks, for bare numbers in exponent notation, for bool "
    "inputs, or when the numeric part is not a plain decimal literal; a suffix the parser always rejects (msec) is not "
    "an accepted suffix",
    "keys starting with '_' are internal by convention and exempt from the unknown-key clause; sections with "
    "__allow_others__ accept any key; 'ignore' keys are passed through unjudged",
    "list/set normalisation: a scalar (also 0, 0.0, False) must become exactly one element, n list elements or n comma "
    "separated parts stay n (sets 1..n), a non-empty dict/tuple must not come back empty; nothing is demanded for None, "
    "'', 'none'-like strings, strings containing '{' (pattern-split event templates) and EMPTY dicts/tuples",
    "config players: ConfigPlayer.validate_config must keep every provided event key or raise; which falsy/express "
    "settings a player keeps and which it rejects is the player's business; kept settings are only type-checked "
    "against the player's spec section (+config_player_common) when they carry all keys of that spec (None accepted)",
    "default_fresh: a section is validated twice with only its required keys given; between the two calls every "
    "defaulted dict/list/set of the first result is written to in place; the second result's container must be a "
    "different object without that write and of the original size (immutable defaults may be shared)",
    "dict-typed values whose keys collide after key normalisation (1 vs '1') are not judged as dropped keys: the "
    "statement's dropped-key clause is read as being about keys of the section",
    "colour component ranges and kivycolor lengths are not declared in the spec and are not demanded; gain is only "
    "required to be a float",
    "pow2 passes the representation through (int, integral float or numeric string, as pinned by test_Config); only the "
    "value is required to be an exact positive power of two",
    "ranges declared on template_* validators are not exercised (no shipped spec declares one)",
    "the reference spec is MPF's own loader output for config_spec.yaml, deep-copied before the first monitored call",
    "values are Python objects as a YAML loader yields them (str/int/float/bool/None/list/dict); timestamps, binary "
    "and tuples are not generated",
]
LEVEL_TEXT = ("Exploration: every (section,key) of the shipped spec is enumerated and each is fed a few dozen to a few "
              "hundred generated values per run; the input space per key is unbounded, so value classes are sampled.  "
              "The oracle is independent of the validator (own type table, own merge, exact rational time arithmetic).")
LEVEL_NOTE = ("Trusts MPF's YAML loader for the reference copy of the spec, Python's fractions for the time reference, "
              "the machine's device collections for machine(...) identity, and the generator's value classes.")
HORIZONS = {"virtual_time_advanced_s": 0}
TIERS = {
    "quick": {"cases": 480, "batch": 15, "case_timeout": 120},
    "thorough": {"cases": 9600, "batch": 60, "case_timeout": 240},
}
_MIN_QUICK = {"type": 450000, "range": 26000, "enum": 19000, "complete": 300000, "unknown_key": 1100,
              "dropped_key": 75000, "spec_unchanged": 110000, "time_direct": 5000, "time_validator": 30000,
              "default": 300000, "machine": 4500, "list_norm": 20000, "player_keys": 15000, "player_typed": 2000,
              "default_fresh": 4000}
# about half of what a run on the unchanged tree evaluates (quick: 480 cases; thorough: 20x as many)
MIN_EVALS = {"quick": _MIN_QUICK, "thorough": {k: v * 20 for k, v in _MIN_QUICK.items()}}
SHRINK_KEYS = ["ops"]

KEYS_PER_CASE = 24
VALUES_PER_KEY = 18
SECTION_OPS = 14
SYNTH_OPS = 40
TIME_OPS = 60
PLAYER_OPS = 36
FRESH_OPS = 12
PLAYERS = ["coil", "event", "blocking", "queue_event", "queue_relay", "flasher", "light", "random_event", "show",
           "variable", "segment_display_player", "hardware_sound_player", "score_queue_player", "blinkenlight"]

NAN = float("nan")
INF = float("inf")

SYNTH_NAME = "c12_synth"
SYNTH_PATH = "_mode_settings:" + SYNTH_NAME
SYNTH_SPEC = {
    "s_int": "single|int|0", "s_int_r": "single|int(0,63)|5", "s_int_lo": "single|int(1,NONE)|1",
    "s_int_hi": "single|int(NONE,10)|0",
    "s_float": "single|float|0", "s_float_r": "single|float(0,1)|0.5", "s_float_lo": "single|float(-1,NONE)|0",
    "s_float_hi": "single|float(NONE,2.5)|0",
    "s_num": "single|num|0", "s_num_r": "single|num(0,10)|1",
    "s_int_tok": "single|int_or_token|0", "s_int_tok_r": "single|int_or_token(0,63)|1",
    "s_float_tok": "single|float_or_token|0", "s_float_tok_r": "single|float_or_token(0,1)|0.5",
    "s_num_tok": "single|num_or_token|0", "s_num_tok_r": "single|num_or_token(0,10)|1",
    "s_bool": "single|bool|false", "s_boolean": "single|boolean|true", "s_bool_tok": "single|bool_or_token|false",
    "s_bool_int": "single|bool_int|false",
    "s_str": "single|str|None", "s_lstr": "single|lstr|Abc", "s_evp": "single|event_posted|None",
    "s_evh": "single|event_handler|None",
    "s_ms": "single|ms|1s", "s_secs": "single|secs|500ms", "s_ms_tok": "single|ms_or_token|0",
    "s_secs_tok": "single|secs_or_token|1m",
    "s_list": "single|list|None", "s_hex": "single|int_from_hex|ff", "s_dict": "single|dict|None",
    "s_dict_p": "single|dict(str:int)|None",
    "s_kivy": "single|kivycolor|None", "s_color": "single|color|red", "s_color_tok": "single|color_or_token|ff0000",
    "s_pow2": "single|pow2|16", "s_gain": "single|gain|0.5",
    "s_enum": "single|enum(a,b,none,yes,no,1)|a", "s_enum2": "single|enum(left,Right)|left",
    "s_mach": "single|machine(switches)|None", "s_sub": "single|subconfig(sound_ducking)|None",
    "s_sub_b": "single|subconfig(lights,device)|None",
    "s_tint": "single|template_int|0", "s_tfloat": "single|template_float|0", "s_tbool": "single|template_bool|false",
    "s_tsecs": "single|template_secs|1s", "s_tms": "single|template_ms|1s", "s_tstr": "single|template_str|None",
    "s_tfloat_tok": "single|template_float_or_token|0",
    "l_int": "list|int|None", "l_int_r": "list|int(0,63)|None", "l_float_r": "list|float(0,1)|0.1, 0.2",
    "l_ms": "list|ms|1s, 200ms", "l_secs": "list|secs|None", "l_str": "list|str|None", "l_bool": "list|bool|None",
    "l_enum": "list|enum(a,b)|None", "l_mach": "list|machine(coils)|None", "l_color": "list|color|None",
    "l_num_tok": "list|num_or_token|None", "l_evp": "list|event_posted|None", "l_evh": "list|event_handler|None",
    "l_sub": "list|subconfig(sound_ducking)|None",
    "t_str": "set|str|None", "t_int": "set|int|None", "t_mach": "set|machine(switches)|None",
    "d_str_int": "dict|str:int|None", "d_int_ms": "dict|int:ms|None", "d_str_float_r": "dict|str:float(0,1)|None",
    "d_mach_ms": "dict|machine(switches):ms|None", "d_str_enum": "dict|str:enum(a,b)|None",
    "d_float_str": "dict|float:str|None", "d_str_sub": "dict|str:subconfig(sound_ducking)|None",
    "eh": "event_handler|event_handler:ms|None",
}

HOST_CONFIG = """
switches:
  s1:
    number: 1
  s2:
    number: 2
coils:
  c1:
    number: 1
  c2:
    number: 2
lights:
  l1:
    number: 1
    subtype: led
  l2:
    number: 2
    subtype: led
hardware_sound_systems:
  default:
    label: c12
"""

# ---------------------------------------------------------------------------------------------
# value encoding (JSON cannot carry non-str dict keys)


def D(*pairs):
    return {"__d__": [list(p) for p in pairs]}


def DEV(coll, i=0):
    return {"__dev__": coll, "i": i}


def dec(v, host):
    if isinstance(v, list):
        return [dec(x, host) for x in v]
    if isinstance(v, dict):
        if "__d__" in v:
            out = {}
            if not isinstance(v["__d__"], list):
                return {}
            for pair in v["__d__"]:
                if not isinstance(pair, list) or len(pair) != 2:
                    continue
                k, x = pair
                k = dec(k, host)
                try:
                    out[k] = dec(x, host)
                except TypeError:
                    out[repr(k)] = dec(x, host)
            return out
        if "__dev__" in v:
            names = host["devices"].get(v["__dev__"]) or []
            if names:
                return names[v.get("i", 0) % len(names)]
            return "c12_no_such_device"
        return {k: dec(x, host) for k, x in v.items()}
    return v


# ---------------------------------------------------------------------------------------------
# value classes

CONFUSION = [
    None, "", " ", "none", "None", "NONE", True, False, 0, 1, -1, 255, 256, 2 ** 31, -2 ** 63, 10 ** 30,
    0.0, -0.0, 0.5, 1.0, 1.0000001, -1e-9, 1e308, NAN, INF, -INF,
    "0", "1", "-1", "1.5", "1e3", "nan", "NaN", "inf", "-inf", "0x10", "ff", "FF00FF", "1_000", "abc", "true", "Yes",
    "off", "(token)", "(machine.x)", "{machine.x}", "settings.foo", "1 if x else 2", "device.coils.c1.x", "((",
    "a, b", "a,,b", "a, none", ",", "red", "255,0,0", "1s", "1.5s", "200ms", "2m", "1h", "1d", "1sec", "1msec",
    "1 s", "1ss", "s", "-1s", "1e3s", "5%", "-3db", "0.5db", "x{a}", "a{b, c}, d",
    [], [1, 2, 3], ["a", "b"], [None], [""], [[1], [2]], [D(("a", 1))], ["none", "a"], [NAN], [True, "x"],
    D(), D(("a", 1)), D(("a", D(("b", 2)))), D((1, 2)), D(("none", None)), D(("", 1)), D((True, "x")),
    D(("a", [1, 2])), D((1.5, "1s")),
]

NUMS = ["0", "1", "2", "10", "100", "2.01", "0.001", "1.5", ".5", "5.", "-3", "+4", "1e3", "1E-3", "007",
        "123456789", "0.0004", "1.0005", "99999999999", "3.999", "0.1", "59.99"]
SUFFIXES = ["", "", "ms", "s", "sec", "m", "h", "d", "msec", "secs", "min", "us", "ss", "sm", "hd"]


def _mixcase(rng, s):
    k = rng.random()
    if k < 0.4:
        return s
    if k < 0.7:
        return s.upper()
    return "".join(c.upper() if rng.random() < 0.5 else c.lower() for c in s)


def time_value(rng):
    k = rng.random()
    if k < 0.12:
        return rng.choice([0, 1, 5, 1000, -7, 2.7, 0.4, 1e-7, 1e16, 12345.678, True, False, None, NAN, INF,
                           rng.randint(0, 10 ** 6), round(rng.uniform(0, 1000), rng.randint(0, 4))])
    if k < 0.2:
        return rng.choice(["", " ", "s", "ms", "abc", "1,5s", "1s2", "s1", "1 2s", "--1s", "0x10s", "1_0s", "١s",
                           "nan", "nans", "infs", "1e400s", "none", "None", "1.5.5s", "²s", "1:30", "1m30s"])
    num = rng.choice(NUMS) if rng.random() < 0.8 else repr(round(rng.uniform(0, 5000), rng.randint(0, 3)))
    suf = _mixcase(rng, rng.choice(SUFFIXES))
    gap = " " if rng.random() < 0.1 else ""
    s = num + gap + suf
    if rng.random() < 0.04:
        s = " " + s
    if rng.random() < 0.04:
        s = s + " "
    return s


def range_values(param):
    lo, hi = [x.strip() for x in param.split(",")]
    out = [NAN, "nan", "NaN", INF, -INF, "inf", "-inf"]
    for b in (lo, hi):
        if b == "NONE":
            out += [10 ** 12, -10 ** 12, 1e300]
            continue
        f = float(b)
        i = int(f)
        out += [f, i, str(b), f - 1, f + 1, f - 1e-9, f + 1e-9, math.nextafter(f, -INF), math.nextafter(f, INF),
                str(f - 1), str(f + 1), i - 1, i + 1, f - 0.5, f + 0.5, "%s.5" % i, True, False]
    return out


def targeted(rng, validator, index_spec, depth=0):
    """A value from the class list of this validator (valid forms first, then boundaries)."""
    name, param = validator, None
    if "(" in validator and validator.endswith(")"):
        name, param = validator.split("(", 1)
        param = param[:-1]
    tok = name.endswith("_or_token")
    if tok:
        name = name[:-9]
        if rng.random() < 0.25:
            return rng.choice(["(tok)", "(machine.a)", "()", "(", ")", "(a", "a)", " (a)", "(a) ", "((a))"])
    if name in ("int", "float", "num"):
        if param and rng.random() < 0.7:
            return rng.choice(range_values(param))
        return rng.choice([0, 5, -5, "7", " 7 ", 2.7, "2.7", 0.25, "0.25", True, "1e3", 1e3, "1.", ".5", NAN, "nan",
                           INF, "0x1f", "1_0", 2 ** 70, "", "3 ", "+3", "--3", [1], D()])
    if name in ("bool", "boolean", "bool_int", "template_bool"):
        return rng.choice([True, False, "true", "false", "t", "F", "Yes", "no", "enable", "Disable", "on", "OFF", 1,
                           0, "1", "0", 1.0, "y", "n", "", "maybe", "machine.a == 1", "a or b", [True]])
    if name in ("ms", "secs", "template_ms", "template_secs"):
        if name.startswith("template") and rng.random() < 0.2:
            return rng.choice(["machine.t", "machine.t * 2", "settings.a", "1 +", "a if b else 2"])
        return time_value(rng)
    if name in ("template_int", "template_float"):
        return rng.choice(["5", 5, 1.5, "1.5", "machine.x + 1", "{machine.x}", "1 if a else 2", "((", "settings.a.b",
                           True, "nan", NAN, "current_player.score", "-1", "1e3", "a b", "", "0x1", [1]])
    if name == "template_str":
        return rng.choice(["abc", "(machine.a)", "{machine.a}", "x {players[0].score:d}", 5, 1.5, True, "(", "(a b)",
                           "", "none", "{", "}{"])
    if name == "enum":
        vals = param.split(",")
        k = rng.random()
        v = rng.choice(vals)
        if k < 0.3:
            return v
        if k < 0.4:
            return v.upper()
        if k < 0.5:
            return v + "x"
        if k < 0.55:
            return " " + v
        if k < 0.6:
            return [v]
        return rng.choice([True, False, None, "none", 1, 0, "1", "yes", "no", "", 1.0, "true"])
    if name == "machine":
        return rng.choice([DEV(param), DEV(param, 1), DEV(param), "c12_nonexistent", "", None, 5, [DEV(param)], "none",
                           "S1", DEV(param if param != "coils" else "switches")])
    if name == "subconfig":
        sub = param.split(",")[0]
        keys = index_spec.get(sub)
        if not keys or depth >= 1 or rng.random() < 0.2:
            return rng.choice([D(), None, "none", D(("zz_unknown", 1)), [], "abc", 5, [D()], D(("_x", 1))])
        return section_source(rng, sub, index_spec, tuple(param.split(",")[1:]), depth + 1, p_opt=0.3)
    if name in ("color", "kivycolor"):
        return rng.choice(["red", "Red", "ff0000", "FF0000", "FF0000AA", "255, 0, 0", "255,0,0", [255, 0, 0],
                           "1,2", "300,0,0", "red ", "#ff0000", "fff", "0,0,0,0", [1.5, 2, 3], "a,b,c", 0, "",
                           "(tok)", "-1,0,0", "off", 255, "1.5,0,0", [], ["255", "0", "0"]])
    if name == "pow2":
        return rng.choice([16, "16", 1, 2, 4.0, 4.5, 0, 3, -4, True, "abc", 2 ** 40, "1024", 1024.0, [4], "4 ", NAN,
                           2.5, 8.25, 1024.5, 2.0000001, "4.5", -0.5, 0.5])
    if name == "gain":
        return rng.choice([0.5, "0.5", "-3db", "-3 dB", "-inf", "nan", 2, -1, "abc", "db", "1e400", "5000db", 1, True])
    if name == "int_from_hex":
        return rng.choice(["ff", "FF", "1ff", "zz", 10, "0x1f", "", "-1", " a", 1.5, True, "1_0"])
    if name == "list":
        return rng.choice(["a, b", ["a", "b"], "a", 5, 1.5, True, None, "", D(("a", 1)), [[1]], "none, a",
                           0, 0.0, False, D(), [], [0], "0", "a,,b", [None, 0]])
    if name == "dict":
        if param:
            kv, vv = param.split(":", 1)
            return D(*[(targeted(rng, kv, index_spec, 2), targeted(rng, vv, index_spec, 2))
                       for _ in range(rng.randint(0, 3))])
        return rng.choice([D(), D(("a", 1)), D((1, D(("b", [1])))), None, 0, "", [], "a", 5, [D()]])
    if name == "lstr":
        return rng.choice(["ABC", "abc", "ÄÖ", 5, True, 1.5, "İ", "None"])
    # str, event_posted, event_handler and anything else
    return rng.choice(["abc", "ev_a", "ev{x==1}", "a b", 5, 1.5, True, "a|2s", "none", "", "ev_a, ev_b",
                       "e{a, b}", ["x"], D(("a", 1))])


def hashable(v):
    return not isinstance(v, (list, dict))


def item_value(rng, entry, index_spec, depth=0):
    """Value for a spec entry [item_type, validation, default]."""
    item_type, validation, _ = entry
    k = rng.random()
    if k < 0.3:
        return rng.choice(CONFUSION)
    if item_type == "single":
        return targeted(rng, validation, index_spec, depth)
    if item_type in ("list", "set"):
        if k < 0.42:
            # falsy scalars and empty non-lists: a scalar is a one-element list, also when it is 0 / 0.0 / False
            return rng.choice([0, 0.0, False, -0.0, 0, False, D(), True, 1, 7, 2.5])
        n = rng.choice([0, 1, 1, 2, 3])
        vals = [targeted(rng, validation, index_spec, depth + 1) for _ in range(n)]
        if k < 0.5 and all(isinstance(v, (str, int, float)) and not isinstance(v, bool) for v in vals) and vals:
            return ", ".join(str(v) for v in vals)
        if k < 0.6 and n:
            return vals[0]
        return vals
    if item_type == "dict" and ":" in validation:
        kv, vv = validation.split(":", 1)
        pairs = []
        for _ in range(rng.choice([0, 1, 2, 3])):
            key = targeted(rng, kv, index_spec, 2)
            if not hashable(key) and not (isinstance(key, dict) and "__dev__" in key):
                key = "k%d" % rng.randint(0, 3)
            pairs.append((key, targeted(rng, vv, index_spec, depth + 1)))
        return D(*pairs)
    if item_type == "event_handler":
        return rng.choice(["ev_a", "ev_a, ev_b", ["ev_a", "ev_b"], D(("ev_a", "1s")), D(("ev_a", 0), ("ev_b", "2m")),
                           D(("ev_a", "x")), "ev{a, b}", D(("ev_a", NAN)), D((5, 5)), "None", "none", None, 5,
                           D(("ev_a|1s", 2)), [D(("ev_a", 1))], D(("ev_a", None)), D(("ev_a", "1.5s"))])
    return rng.choice(CONFUSION)


def valid_value(rng, entry):
    """A value that should normally validate (used to fill required keys and sampled optional keys)."""
    item_type, validation, default = entry
    name, param = validation, None
    if "(" in validation and validation.endswith(")"):
        name, param = validation.split("(", 1)
        param = param[:-1]
    if name.endswith("_or_token"):
        name = name[:-9]
    if item_type in ("dict", "event_handler"):
        if item_type == "event_handler":
            return rng.choice(["ev_a", D(("ev_a", "1s")), ["ev_a", "ev_b"]])
        return D()
    if name in ("int", "float", "num"):
        if param:
            lo, hi = [x.strip() for x in param.split(",")]
            v = float(lo) if lo != "NONE" else (float(hi) if hi != "NONE" else 0)
            v = int(v) if name != "float" else v
        else:
            v = rng.choice([0, 1, 7, "3"]) if name != "float" else rng.choice([0.5, "0.25", 2])
    elif name in ("bool", "boolean", "bool_int", "template_bool"):
        v = rng.choice([True, False, "yes", "false"])
    elif name in ("ms", "secs", "template_ms", "template_secs"):
        v = rng.choice(["1s", "200ms", 5, "2m", "1.5s"])
    elif name in ("template_int", "template_float"):
        v = rng.choice([1, "2", "machine.a + 1"])
    elif name == "template_str":
        v = rng.choice(["abc", "(machine.a)"])
    elif name == "enum":
        v = rng.choice(param.split(","))
    elif name == "machine":
        v = DEV(param, rng.randint(0, 1))
    elif name == "subconfig":
        return D() if item_type == "single" else [D()]
    elif name in ("color", "kivycolor"):
        v = rng.choice(["red", "ff0000", "255, 0, 0"])
    elif name == "pow2":
        v = rng.choice([16, 2, 1024])
    elif name == "gain":
        v = rng.choice([0.5, "-3db"])
    elif name == "int_from_hex":
        v = "1f"
    elif name == "list":
        v = ["a", "b"]
    elif name == "dict":
        return D()
    else:
        v = rng.choice(["abc", "ev_a", 5])
    if item_type in ("list", "set") and rng.random() < 0.5:
        return [v]
    return v


# ---------------------------------------------------------------------------------------------
# spec index used by the generator (plain data: {path: {key: entry|'ignore'|{nested}}})
_INDEX = None


def spec_index():
    """Sections of config_spec.yaml of the tree under test, via MPF's loader (generation only)."""
    global _INDEX
    if _INDEX is not None:
        return _INDEX
    import os
    from vlib import boot
    root = boot.guard_import()
    from mpf.file_interfaces.yaml_interface import YamlInterface
    with open(os.path.join(root, "mpf", "config_spec.yaml")) as f:
        raw = YamlInterface.process(f.read())
    idx = {}

    def walk(path, sec):
        cur = {}
        for k, v in sec.items():
            k = str(k)
            if isinstance(v, dict):
                walk(path + ":" + k, v)
                cur[k] = {"__nested__": path + ":" + k}
            elif k.startswith("__"):
                cur[k] = v
            elif isinstance(v, str) and v != "ignore":
                cur[k] = v.split("|")
            else:
                cur[k] = "ignore"
        idx[path] = cur

    for name, sec in raw.items():
        if isinstance(sec, dict):
            walk(str(name), sec)
    synth = {k: v.split("|") for k, v in SYNTH_SPEC.items()}
    idx[SYNTH_PATH] = synth
    _INDEX = idx
    return idx


def base_for(path, index_spec):
    sec = index_spec.get(path, {})
    t = sec.get("__type__")
    if t == "device":
        return "device"
    if t == "config_player":
        return "config_player_common"
    if ":" in path and not path.startswith("_"):
        parent = path.rsplit(":", 1)[0]
        if parent + ":common" in index_spec and not path.endswith(":common"):
            return parent + ":common"
    return None


def merged_index(path, base, index_spec):
    out = {}
    bases = [base] if isinstance(base, str) else list(base or [])
    for el in reversed([path] + bases):
        out.update(index_spec.get(el, {}))
    return out


def section_source(rng, path, index_spec, base=None, depth=0, p_opt=0.25):
    spec = merged_index(path, base, index_spec)
    pairs = []
    for k, entry in spec.items():
        if k.startswith("_"):
            continue
        if entry == "ignore":
            if rng.random() < p_opt:
                pairs.append((k, rng.choice([1, "x", None, [1, "a"], D(("a", 1))])))
            continue
        if isinstance(entry, dict) and "__nested__" in entry:
            if rng.random() < 0.1:
                pairs.append((k, rng.choice([[], [D()], D(), "x", None])))
            continue
        required = entry[2] == ""
        if required or rng.random() < p_opt:
            pairs.append((k, valid_value(rng, entry)))
    return D(*pairs)


def all_keys(index_spec):
    out = []
    for path in sorted(index_spec):
        if path == SYNTH_PATH:
            continue
        for k in sorted(index_spec[path]):
            e = index_spec[path][k]
            if isinstance(e, list):
                out.append((path, k))
    return out


PLAYER_FALSY = [None, 0, 0.0, False, "", D(), []]


def player_settings(rng):
    """Settings of one config player entry: falsy values, express scalars, device dicts, lists."""
    k = rng.random()
    if k < 0.4:
        return rng.choice(PLAYER_FALSY)
    if k < 0.65:
        return rng.choice([1, 5, 2.5, True, DEV("coils"), DEV("lights"), DEV("coils", 1), "abc", "red", "on", "off",
                           "ev_a", "ev_a, ev_b", "1s", "stop", "flash", "pulse", "-1", "0", "none", " "])
    return rng.choice([
        D((DEV("coils"), "pulse")), D((DEV("lights"), "red")), D((DEV("coils"), None)), D((DEV("coils"), 0)),
        D((DEV("coils"), D(("action", "pulse")))), D((DEV("lights"), D(("color", "red"), ("fade", "1s")))),
        D((DEV("coils"), D())), D((DEV("lights"), D(("zz_unknown", 1)))), D(("c12_nonexistent", "pulse")),
        D(("score", 10)), D(("score", D(("int", 5)))), D(("score", D(("int", "current_player.x + 1")))),
        D(("ev_a", D())), D(("abc", D())), D(("x", 1)), D(("show", "on")), D(("on", D(("loops", 2)))),
        D(("on", D())), D(("events", ["a", "b"])), D(("events", "a"), ("scope", "player")), D(("post", "ev_z")),
        D((0, D())), D((0, D(("action", "play")))), D((3, None)), D((DEV("coils"), False)),
        ["a", "b"], [0], [D()], [D(("a", 1))], D(("", 1)), D(("a", None)),
    ])


def gen_case(rng, tier, index):
    idx = spec_index()
    keys = all_keys(idx)
    ops = []
    start = (index * KEYS_PER_CASE) % len(keys)
    for j in range(KEYS_PER_CASE):
        path, k = keys[(start + j) % len(keys)]
        entry = idx[path][k]
        base = base_for(path, idx) if rng.random() < 0.8 else None
        merged = merged_index(path, base, idx)
        others_required = any(isinstance(e, list) and e[2] == "" and kk != k for kk, e in merged.items())
        for _ in range(VALUES_PER_KEY):
            add_missing = rng.random() < (0.08 if others_required else 0.35)
            ops.append(["item", path, k, item_value(rng, entry, idx), base, add_missing])
    sections = sorted(p for p in idx if p != SYNTH_PATH)
    for _ in range(SECTION_OPS):
        path = rng.choice(sections)
        base = base_for(path, idx) if rng.random() < 0.85 else None
        ops.append(["section", path, mutate_source(rng, section_source(rng, path, idx, base), path, base, idx), base,
                    rng.random() < 0.9])
    skeys = sorted(idx[SYNTH_PATH])
    for _ in range(SYNTH_OPS):
        k = rng.choice(skeys)
        if rng.random() < 0.8:
            ops.append(["item", SYNTH_PATH, k, item_value(rng, idx[SYNTH_PATH][k], idx), None, rng.random() < 0.5])
        else:
            ops.append(["section", SYNTH_PATH,
                        mutate_source(rng, section_source(rng, SYNTH_PATH, idx, None, p_opt=0.4), SYNTH_PATH, None,
                                      idx), None, True])
    for _ in range(TIME_OPS):
        ops.append(["time", rng.choice(["ms", "secs"]), time_value(rng)])
    for _ in range(FRESH_OPS):
        path = rng.choice(sections + [SYNTH_PATH])
        base = base_for(path, idx) if rng.random() < 0.85 else None
        # only the required keys are given: every other setting is filled in from its default, twice
        ops.append(["fresh", path, section_source(rng, path, idx, base, p_opt=0.0), base])
    for _ in range(PLAYER_OPS):
        pairs = []
        for j in range(rng.choice([1, 1, 2, 3, 4])):
            ev = rng.choice(["ev%d" % j, "ev%d{x==1}" % j, "ev%d|2s" % j, "ev%d.2" % j, "ev%d" % j, j])
            pairs.append((ev, player_settings(rng)))
        ops.append(["player", rng.choice(PLAYERS), D(*pairs)])
    rng.shuffle(ops)
    return {"ops": ops}


def mutate_source(rng, src, path, base, idx):
    k = rng.random()
    pairs = src["__d__"]
    if k < 0.40:
        return src
    if k < 0.45:
        merged = merged_index(path, base, idx)
        req = [p for p in pairs if isinstance(merged.get(p[0]), list) and merged[p[0]][2] == ""]
        if req:
            pairs.remove(rng.choice(req))
        return src
    if k < 0.70:
        key = rng.choice(["zz_unknown", "Zz", 5, 1.5, True, "_internal", "__dunder__", "", " ", "none", None,
                          "tagz", "debug ", "a:b"])
        pos = rng.randint(0, len(pairs))
        pairs.insert(pos, [key, rng.choice([1, "x", None, D(), [1]])])
        return src
    if k < 0.85:
        merged = merged_index(path, base, idx)
        cand = [kk for kk, e in merged.items() if isinstance(e, list)]
        if cand:
            kk = rng.choice(cand)
            pairs[:] = [p for p in pairs if p[0] != kk]
            pairs.append([kk, item_value(rng, merged[kk], idx)])
        return src
    return rng.choice([None, [], [src], "abc", 5, "", True, [D(("a", 1))], ["a", "b"], 1.5, D()])


# ---------------------------------------------------------------------------------------------
# host machine (one per process; rebuilt if the spec was found modified)
_HOST = None


def get_host():
    global _HOST
    if _HOST is not None:
        return _HOST
    import copy
    import os
    import warnings
    warnings.simplefilter("ignore")
    from vlib.boot import VMachine, tree_root
    from vlib import c12_oracle as O
    boot_error = None
    try:
        vm = VMachine(config=HOST_CONFIG)
        m = vm.machine
        cv = m.config_validator
    except Exception as e:    # noqa
        # The machine cannot boot on this tree (e.g. the spec got polluted while the boot validated the machine
        # config).  The property's own clauses are still observable on the real validator class with the real spec
        # and a stub machine: templates and machine(...) then raise, i.e. reject.
        import traceback
        boot_error = traceback.format_exc()[-1500:]
        from types import SimpleNamespace
        from mpf.core.config_validator import ConfigValidator
        from mpf.core.config_processor import ConfigProcessor
        vm = None
        m = SimpleNamespace(config={"mpf": {"allow_invalid_config_sections": False}})
        cv = ConfigValidator(m, ConfigProcessor(False, False).load_config_spec())
        try:
            ConfigValidator.build_spec.cache_clear()
        except AttributeError:
            pass
    pre = []
    # reference for the sections of the file: MPF's loader, our own processing
    from mpf.file_interfaces.yaml_interface import YamlInterface
    with open(os.path.join(tree_root(), "mpf", "config_spec.yaml")) as f:
        raw = YamlInterface.process(f.read())

    def proc(sec):
        out = {}
        for k, v in sec.items():
            if isinstance(v, dict):
                out[k] = proc(v)
            elif str(k).startswith("__") or v == "ignore" or not isinstance(v, str):
                out[k] = v
            else:
                out[k] = v.split("|")
        return out

    file_ref = {k: proc(v) for k, v in raw.items()}
    for name, sec in file_ref.items():
        if name == "_mode_settings":
            continue
        if cv.config_spec.get(name) != sec:
            pre.append(name)
    cv.load_mode_config_spec(SYNTH_NAME, copy.deepcopy(SYNTH_SPEC))
    ref_spec = copy.deepcopy(cv.config_spec)
    for name in pre:
        ref_spec[name] = copy.deepcopy(file_ref[name])
    devices = {}
    for coll in ("switches", "coils", "lights", "playfields", "shows", "ball_devices", "digital_outputs",
                 "shot_profiles", "hardware_sound_systems", "show_queues"):
        c = getattr(m, coll, None)
        if c is not None:
            try:
                devices[coll] = sorted(c.keys())[:4]
            except Exception:    # noqa
                pass
    _HOST = {"vm": vm, "machine": m, "cv": cv, "ref": O.RefSpec(ref_spec), "devices": devices,
             "modified_at_boot": pre, "O": O, "boot_error": boot_error}
    return _HOST


def drop_host():
    global _HOST
    if _HOST is not None:
        try:
            if _HOST["vm"] is not None:
                _HOST["vm"].close()
        except Exception:    # noqa
            pass
    _HOST = None


def _canon(spec):
    import json
    return json.dumps(spec, sort_keys=True, default=lambda o: "<%s %r>" % (type(o).__name__, o))


def _vclass(v):
    if v is None:
        return "N"
    if isinstance(v, bool):
        return "b"
    if isinstance(v, int):
        return "i"
    if isinstance(v, float):
        return "fn" if v != v else ("fi" if v in (INF, -INF) else "f")
    if isinstance(v, str):
        if v == "":
            return "s0"
        if v.lower() == "none":
            return "sN"
        if v[:1] == "(" and v[-1:] == ")":
            return "st"
        if any(c in v for c in "{}"):
            return "sT"
        if "," in v:
            return "sl"
        if v[:1].isdigit() or v[:1] in "+-.":
            return "sd"
        return "s"
    if isinstance(v, list):
        return "L%d" % min(len(v), 2)
    if isinstance(v, dict):
        return "D%d" % min(len(v), 2)
    return "?"


def run_case(case):
    import copy
    host = get_host()
    O = host["O"]
    from mpf.core.utility_functions import Util
    from mpf.core.config_validator import ConfigValidator
    cv = host["cv"]
    ref = host["ref"]
    orc = O.Oracle(host["machine"], ref)
    clauses = {"spec_unchanged": 0, "time_direct": 0}
    obs = {"calls": 0, "accepted": 0, "rejected": 0, "time_calls": 0, "time_rejected": 0,
           "host_is_stub_because_boot_failed": 1 if host["boot_error"] else 0}
    viol = []
    shapes = set()

    if host["modified_at_boot"]:
        viol.append({"clause": "spec_unchanged", "sig": "C12:spec_modified",
                     "detail": {"when": "machine boot", "sections": host["modified_at_boot"][:10]}})

    def _clear_cache():
        try:
            ConfigValidator.build_spec.cache_clear()
        except AttributeError:
            pass

    _clear_cache()          # every case starts with a cold build_spec cache (replay = same behaviour)

    def check_spec(path, base, what):
        """Spec and build_spec cache against the private reference; on a difference: report, then restore the
        differing sections so that later operations are judged on their own."""
        clauses["spec_unchanged"] += 1
        if cv.config_spec != ref.spec:
            bad = [k for k in set(cv.config_spec) | set(ref.spec) if cv.config_spec.get(k) != ref.spec.get(k)]
            viol.append({"clause": "spec_unchanged", "sig": "C12:spec_modified",
                         "detail": {"after": what, "sections": sorted(map(str, bad))[:10]}})
            for k in bad:
                if k in ref.spec:
                    cv.config_spec[k] = copy.deepcopy(ref.spec[k])
                else:
                    del cv.config_spec[k]
            _clear_cache()
            return
        if path is None:
            return
        try:
            built = cv.build_spec(path, tuple(base) if isinstance(base, list) else base)
            want = ref.merged(path, base)
        except Exception:    # noqa  (unknown section: nothing to compare)
            return
        if built != want:
            diff = [k for k in set(built) | set(want) if built.get(k) != want.get(k)]
            viol.append({"clause": "spec_unchanged", "sig": "C12:built_spec_differs",
                         "detail": {"after": what, "path": path, "base": base, "keys": sorted(map(str, diff))[:10]}})
            _clear_cache()

    for op in case["ops"]:
        kind = op[0]
        if kind == "time":
            _, fn, raw = op
            val = dec(raw, host)
            obs["time_calls"] += 1
            try:
                got = Util.string_to_ms(val) if fn == "ms" else Util.string_to_secs(val)
            except Exception:    # noqa  rejection
                obs["time_rejected"] += 1
                shapes.add(("time", fn, _vclass(val), "rej"))
                continue
            shapes.add(("time", fn, _vclass(val), "ok"))
            exact, suffix = O.ref_time_ms(val, 1 if fn == "ms" else 1000)
            if fn == "secs" and val is None:
                exact = None
            if exact is None:
                continue
            clauses["time_direct"] += 1
            ok = isinstance(got, (int, float)) and not isinstance(got, bool) and math.isfinite(got) and \
                O.time_close(O.Fraction(got) * (1 if fn == "ms" else 1000), exact)
            if not ok:
                viol.append({"clause": "time_direct", "sig": "C12:time_wrong_%s" % suffix,
                             "detail": {"fn": "string_to_" + fn, "inp": repr(val), "out": repr(got),
                                        "exact_ms": str(exact)}})
            continue

        if kind == "fresh":
            # defaults are filled in afresh for every validation: what one holder does to ITS default container
            # (mpf code writes into such dicts in place) must not show up in the next config's default
            _, path, raw, base = op
            try:
                spec = ref.merged(path, base)
            except (KeyError, TypeError):
                continue
            bs = tuple(base) if isinstance(base, list) else base
            src1 = dec(raw, host)
            if not isinstance(src1, dict):
                continue
            given = set(src1)
            src2 = copy.deepcopy(src1)
            try:
                r1 = cv.validate_config(path, src1, base_spec=bs)
            except Exception:    # noqa  rejected (e.g. a required device does not exist): nothing to compare
                shapes.add(("fresh", path.split(":")[0], "rej"))
                continue
            poison = "c12_poison"
            before = {}
            for k, v in list(r1.items()):
                if k in given or k not in spec:
                    continue
                if type(v) is dict:
                    before[k] = len(v)
                    v[poison] = 1
                elif type(v) is list:
                    before[k] = len(v)
                    v.append(poison)
                elif type(v) is set:
                    before[k] = len(v)
                    v.add(poison)
            try:
                r2 = cv.validate_config(path, src2, base_spec=bs)
            except Exception as e:    # noqa  the same source was accepted a moment ago
                clauses["default_fresh"] = clauses.get("default_fresh", 0) + 1
                viol.append({"clause": "default_fresh", "sig": "C12:second_validation_rejected",
                             "detail": {"path": path, "base": base, "source": repr(src2)[:200], "exc": repr(e)[:300]}})
                check_spec(path, base, "fresh " + path)
                continue
            shapes.add(("fresh", path.split(":")[0], "ok"))
            for k, n in before.items():
                clauses["default_fresh"] = clauses.get("default_fresh", 0) + 1
                v2 = r2.get(k) if isinstance(r2, dict) else None
                polluted = False
                try:
                    polluted = v2 is r1[k] or poison in v2 or len(v2) != n
                except TypeError:
                    polluted = True
                if polluted:
                    viol.append({"clause": "default_fresh", "sig": "C12:default_container_shared",
                                 "detail": {"path": path, "base": base, "key": k, "spec": spec.get(k),
                                            "first_result_after_holder_wrote_to_it": repr(r1[k])[:200],
                                            "second_result": repr(v2)[:200],
                                            "same_object": v2 is r1[k]}})
            check_spec(path, base, "fresh " + path)
            continue

        if kind == "player":
            _, pname, raw = op
            player = getattr(host["machine"], pname + "_player", None)
            if player is None:
                continue          # stub host / player not registered in this tree
            section = dec(raw, host)
            if not isinstance(section, dict):
                continue
            provided = list(section.keys())
            vcls = sorted(set(_vclass(v) for v in section.values()))
            obs["player_calls"] = obs.get("player_calls", 0) + 1
            try:
                out = player.validate_config(section)
            except Exception:    # noqa  rejection of the whole section
                obs["player_rejected"] = obs.get("player_rejected", 0) + 1
                clauses["player_keys"] = clauses.get("player_keys", 0) + len(provided)
                shapes.add(("player", pname, ",".join(vcls), "rej"))
                check_spec(None, None, "player " + pname)
                continue
            shapes.add(("player", pname, ",".join(vcls), "ok"))
            clauses["player_keys"] = clauses.get("player_keys", 0) + len(provided)
            if not isinstance(out, dict):
                viol.append({"clause": "player_keys", "sig": "C12:player_section_not_dict",
                             "detail": {"player": pname, "section": repr(section)[:300], "out": repr(out)[:200]}})
                continue
            for ev in provided:
                if ev not in out:
                    viol.append({"clause": "player_keys", "sig": "C12:player_entry_dropped",
                                 "detail": {"player": pname, "event": repr(ev), "settings": repr(section[ev])[:200]
                                            if ev in section else None, "section": repr(section)[:300],
                                            "out_keys": repr(list(out))[:200]}})
            # well-typedness of what is kept, as far as the player's own spec section justifies it
            try:
                pspec = ref.merged(player.config_file_section, "config_player_common")
            except (KeyError, TypeError, AttributeError):
                pspec = None
            # players that rewrite validated settings afterwards (light_player turns the colour into an RGBColor,
            # show_player resolves the show) are only judged on key presence
            base_expand = None
            for klass in type(player).__mro__:
                if klass.__name__ == "DeviceConfigPlayer":
                    base_expand = klass.__dict__.get("_expand_device_config")
            if getattr(type(player), "_expand_device_config", None) is not base_expand:
                pspec = None
            if pspec:
                want = [k for k, e in pspec.items() if isinstance(e, list) and k[:1] != "_"]
                n_before = len(orc.viol)
                for ev, entry in out.items():
                    cands = []
                    if isinstance(entry, dict):
                        cands = [entry] + [v for v in entry.values() if isinstance(v, dict)]
                    for c in cands:
                        if want and all(k in c for k in want):
                            clauses["player_typed"] = clauses.get("player_typed", 0) + 1
                            orc.typed_section(pspec, c, "%s[%r]" % (player.config_file_section, ev))
                for v in orc.viol[n_before:]:
                    v["detail"]["op"] = "player " + pname
                    v["detail"]["section"] = repr(section)[:300]
            check_spec(None, None, "player " + pname)
            continue

        _, path, key_or_src = op[0], op[1], op[2]
        if kind == "item":
            _, path, key, raw, base, add_missing = op
            source = {key: dec(raw, host)}
            label = "%s:%s" % (path, key)
        else:
            _, path, raw, base, add_missing = op
            source = dec(raw, host)
            label = path
        try:
            spec = ref.merged(path, base)
        except (KeyError, TypeError):
            continue          # section not present in this tree's spec
        try:
            inp = copy.deepcopy(source)
        except Exception:    # noqa
            continue
        obs["calls"] += 1
        n_before = len(orc.viol)
        has_unknown = isinstance(inp, dict) and "__allow_others__" not in spec and any(
            (k not in spec) and not (isinstance(k, str) and k[:1] == "_") for k in inp)
        try:
            out = cv.validate_config(path, source, base_spec=tuple(base) if isinstance(base, list) else base,
                                     add_missing_keys=bool(add_missing))
        except Exception:    # noqa  any exception is a rejection
            obs["rejected"] += 1
            outcome = "rej"
            if has_unknown:
                clauses["unknown_key"] = clauses.get("unknown_key", 0) + 1
                obs["unknown_key_rejected"] = obs.get("unknown_key_rejected", 0) + 1
        else:
            obs["accepted"] += 1
            outcome = "ok"
            if inp is None:
                inp = {}
            orc.section(spec, inp, out, path, add_missing=bool(add_missing))
        if kind == "item":
            entry = spec.get(op[2])
            vname = entry[1].split("(")[0] if isinstance(entry, list) else "?"
            itype = entry[0] if isinstance(entry, list) else "?"
            shapes.add(("item", itype, vname, _vclass(source.get(op[2])) if isinstance(source, dict) else "?", outcome))
        else:
            shapes.add(("section", _vclass(inp), outcome, bool(add_missing)))
        for v in orc.viol[n_before:]:
            v["detail"]["op"] = label
            v["detail"]["base"] = base
        check_spec(path, base, label)

    # type-sensitive deep comparison once per case (== does not tell 1 from True or a list from a tuple)
    clauses["spec_unchanged"] += 1
    if "ref_canon" not in host:
        host["ref_canon"] = _canon(ref.spec)
    if _canon(cv.config_spec) != host["ref_canon"]:
        viol.append({"clause": "spec_unchanged", "sig": "C12:spec_modified",
                     "detail": {"after": "case end", "how": "typed deep comparison differs"}})
        cv.config_spec.clear()
        cv.config_spec.update(copy.deepcopy(ref.spec))
        _clear_cache()
    viol.extend(orc.viol)
    for k, n in orc.evals.items():
        clauses[k] = clauses.get(k, 0) + n
    seen, uniq = set(), []
    for v in viol:
        if v["sig"] not in seen:
            seen.add(v["sig"])
            uniq.append(v)
    nontrivial = all(clauses.get(c, 0) > 0 for c in ("type", "complete", "unknown_key", "dropped_key", "list_norm", "player_keys", "default_fresh",
                                                      "spec_unchanged", "time_direct"))
    import hashlib
    kinds = sorted(set(s[0] + ":" + str(s[2]) for s in shapes))
    shape = "%d classes %s %s" % (len(shapes), hashlib.sha1(repr(sorted(map(str, shapes))).encode()).hexdigest()[:16],
                                  ",".join(kinds)[:200])
    return {"violations": uniq, "clauses": clauses, "shape": shape, "nontrivial": nontrivial, "obs": obs}
