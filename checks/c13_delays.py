"""C13 — Delays and periodic timers fire exactly when promised, or never.

Three sub-workloads, all on a real machine in virtual time:
  delay    : op sequences on real DelayManagers (machine-wide, free-standing, mode-owned) with callbacks that
             themselves add/remove/reset/run_now/clear; ONLINE reference model (name -> pending op) driven by the
             observed fires.
  periodic : clock.schedule_interval tasks with cancels (also from inside the callback); tick-time oracle
             t0 + k*interval, no tick after cancel, long runs for drift.
  timer    : the Timer device driven through its configured control events; online model of running/ticks/phase;
             tick spacing, no tick while paused/stopped/mode stopped, completion exactly at the end value.
"""

PROPERTY = "C13"
LEVEL = "exploration"
LEVEL_TEXT = ("Exploration: thousands of generated op histories on the real DelayManager / PeriodicTask / Timer device "
              "objects in exact virtual time, each checked step by step against a small reference model; histories "
              "are unbounded so sampling (with deliberate coincidences and re-entrant callbacks) is what this family reaches.")
LEVEL_NOTE = ("Trusts MPF's TimeTravelLoop as the clock (timers due at or before the current virtual instant have run "
              "when an advance returns) and the generator's op alphabet; tolerances are listed in assumptions.")
TECHNIQUE = "runtime monitoring: online reference-model monitor over recorded callback invocations in virtual time"
RULE = ("case = one generated op history of kind delay|periodic|timer; distinct = sequence of op kinds with bucketed "
        "durations; non-trivial = at least one fire/tick was observed AND checked against the model and one "
        "cancel-type op (remove/replace/clear/run_now/stop/pause/cancel) was exercised")
ASSUMPTIONS = [
    "virtual-time tolerance 1e-6 s; a delay whose deadline is within tolerance of 'now' may be pending or fired",
    "delays are only added to a mode's DelayManager while that mode is active and not stopping (statement silent otherwise)",
    "a mode's stop may be held open by a handler of mode_<m>_stopping (0-3 virtual s): the mode's delays count as "
    "cancelled from the accepted stop request on",
    "timer device: after jump/set_tick_interval/change_tick_interval while running the phase of the next tick is "
    "unspecified; the model accepts the next tick anywhere in (t_op, t_op+interval] and re-anchors on it",
    "timer device tick events that repeat the current value (posted synchronously by start/restart) are not clock ticks",
    "timer values and intervals are dyadic so float time arithmetic is exact; DelayManager ms values are arbitrary",
    "periodic/timer workloads inject 1 ms of clock latency per observed callback (loop.time() runs ahead of the "
    "instant's base time) so that re-reading the clock instead of adding the interval shows up as drift",
]
HORIZONS = {"final_settle_s": 10}
TIERS = {
    "quick": {"cases": 2400, "batch": 50, "case_timeout": 60},
    "thorough": {"cases": 120000, "batch": 500, "case_timeout": 120},
}
MIN_EVALS = {"quick": {"delay_fire": 5000, "delay_check": 20000, "run_now": 500, "periodic_tick": 5000,
                       "timer_tick": 3000, "timer_complete": 200, "never_after_cancel": 2000}}
SHRINK_KEYS = ["ops"]
TOL = 1e-6

MS = [0, 1, 10, 99, 100, 101, 250, 1000, 1001, 2500]
NAMES = ["n0", "n1", "n2"]
MGRS = ["machine", "own", "mode"]


def _gen_action(rng, depth=0):
    k = rng.random()
    if k < 0.55 or depth >= 2:
        return None
    kind = rng.choice(["add", "add", "remove", "run_now", "clear", "reset", "add_if"])
    if kind in ("add", "reset", "add_if"):
        return [kind, rng.choice(NAMES), rng.choice(MS), _gen_action(rng, depth + 1)]
    if kind in ("remove", "run_now"):
        return [kind, rng.choice(NAMES)]
    return ["clear"]


def _gen_delay(rng, tier):
    ops = []
    n = rng.randint(8, 40 if tier == "quick" else 90)
    for _ in range(n):
        k = rng.random()
        mgr = rng.choice(MGRS)
        if k < 0.30:
            name = rng.choice(NAMES + [None]) if rng.random() < 0.9 else rng.choice(NAMES)
            ops.append(["add", mgr, name, rng.choice(MS), _gen_action(rng), rng.randint(0, 3)])
        elif k < 0.38:
            ops.append(["add_if", mgr, rng.choice(NAMES), rng.choice(MS), _gen_action(rng), rng.randint(0, 3)])
        elif k < 0.46:
            ops.append(["reset", mgr, rng.choice(NAMES), rng.choice(MS), _gen_action(rng), rng.randint(0, 3)])
        elif k < 0.54:
            ops.append(["remove", mgr, rng.choice(NAMES)])
        elif k < 0.58:
            ops.append(["clear", mgr])
        elif k < 0.68:
            ops.append(["run_now", mgr, rng.choice(NAMES)])
        elif k < 0.74:
            ops.append(["check", mgr, rng.choice(NAMES)])
        elif k < 0.78:
            ops.append(["mode_stop"])
        elif k < 0.82:
            ops.append(["mode_start"])
        else:
            ops.append(["adv", rng.choice([0, 1, 9, 10, 90, 99, 100, 101, 150, 250, 900, 1000, 1001, 2500, 3000])])
    # a handler may hold the mode's "stopping" queue event: the stop then spans virtual time and the mode's delays
    # that fall due inside that window must still never fire
    return {"kind": "delay", "ops": ops, "stop_hold_ms": rng.choice([0, 0, 150, 1200, 3000])}


def _gen_periodic(rng, tier):
    ops = []
    tid = 0
    for _ in range(rng.randint(4, 16)):
        k = rng.random()
        if k < 0.35:
            ops.append(["sched", tid, rng.choice([0.015625, 0.125, 0.25, 0.5, 1.0, 2.0, 0.1, 0.3, 0.07]),
                        rng.choice([None, None, 1, 2, 5, 17])])
            tid += 1
        elif k < 0.5 and tid:
            ops.append(["cancel", rng.randrange(tid)])
        else:
            ops.append(["adv", rng.choice([0.0, 0.015625, 0.1, 0.125, 0.25, 0.3, 0.5, 0.75, 1.0, 1.5, 2.0, 3.0, 10.0,
                                           100.0 if rng.random() < 0.3 else 7.0])])
    return {"kind": "periodic", "ops": ops}


TIMER_EVENTS = ["start", "stop", "reset", "restart", "pause0", "pause_half", "pause2", "add1", "add3", "sub1", "sub2",
                "jump0", "jump5", "jump10", "set_q", "set_1", "chg_half", "chg_2", "reset_int"]


def _gen_timer(rng, tier):
    direction = rng.choice(["up", "down"])
    if direction == "up":
        start, end = rng.choice([0, 0, 2, 5]), rng.choice([None, 3, 6, 8, 12])
        if end is not None and end <= start:
            end = start + rng.choice([1, 3, 6])
    else:
        start, end = rng.choice([5, 8, 10, 3]), rng.choice([None, 0, 1, 2])
        if end is not None and end >= start:
            end = 0
    cfg = {"direction": direction, "start_value": start, "end_value": end,
           "tick_interval": rng.choice([0.25, 0.5, 1.0, 2.0]), "start_running": rng.random() < 0.5,
           "restart_on_complete": rng.random() < 0.3, "max_value": rng.choice([None, None, 7, 12])}
    ops = []
    for _ in range(rng.randint(6, 30 if tier == "quick" else 60)):
        k = rng.random()
        if k < 0.5:
            ops.append(["ev", rng.choice(TIMER_EVENTS)])
        elif k < 0.55:
            ops.append(["mode_stop"])
        elif k < 0.60:
            ops.append(["mode_start"])
        else:
            ops.append(["adv", rng.choice([0.0, 0.125, 0.25, 0.5, 0.75, 1.0, 1.25, 2.0, 3.0, 5.0, 12.0])])
    return {"kind": "timer", "cfg": cfg, "ops": ops}


def gen_case(rng, tier, index):
    k = index % 5
    if k in (0, 1, 2):
        return _gen_delay(rng, tier)
    if k == 3:
        return _gen_periodic(rng, tier)
    return _gen_timer(rng, tier)


# =============================================================================================
def _bucket(ms):
    return "0" if ms == 0 else "s" if ms < 50 else "m" if ms < 500 else "l"


def run_case(case):
    kind = case["kind"]
    if kind == "delay":
        return _run_delay(case)
    if kind == "periodic":
        return _run_periodic(case)
    return _run_timer(case)


BASE_CFG = """
modes:
  - m1
"""
M1 = """
mode:
  start_events: m1_go
  stop_events: m1_halt
  game_mode: False
"""


def _run_delay(case):
    from vlib.boot import VMachine, MpfCrash
    from mpf.core.delays import DelayManager
    clauses = {"delay_fire": 0, "delay_check": 0, "run_now": 0, "never_after_cancel": 0, "delay_missed": 0,
               "delay_kwargs": 0}
    viol = []
    obs = {"delay_fires": 0, "delay_adds": 0, "cancel_ops": 0, "nested_actions": 0, "coincident_deadline_ops": 0}
    shape = []

    def V(clause, sig, **detail):
        if len(viol) < 20:
            viol.append({"clause": clause, "sig": sig, "detail": detail})

    with VMachine(BASE_CFG, modes={"m1": M1}) as vm:
        m = vm.machine
        mode = m.modes["m1"]
        mode.start()
        vm.advance(0)
        hold = case.get("stop_hold_ms", 0)
        if hold:
            def _hold_stopping(queue, **kwargs):
                queue.wait()
                obs["held_mode_stops"] = obs.get("held_mode_stops", 0) + 1
                vm.loop.call_later(hold / 1000.0, queue.clear)
            m.events.add_handler("mode_m1_stopping", _hold_stopping)
        mgr = {"machine": m.delay, "own": DelayManager(m), "mode": mode.delay}
        model = {k: {} for k in mgr}      # name -> entry
        cancelled = set()                 # opids that must never fire any more
        fired = []                        # (opid, t, kwargs, via)
        state = {"opid": 0, "run_now": None, "mode_active": True}

        def make_cb(opid, which):
            def cb(*args, **kw):
                t = vm.now()
                via = "run_now" if state["run_now"] is not None else "loop"
                fired.append((opid, t, kw, via))
                obs["delay_fires"] += 1
                ent = None
                for name, e in model[which].items():
                    if e["op"] == opid:
                        ent = e
                        break
                clauses["delay_fire"] += 1
                if ent is None:
                    V("never_after_cancel", "C13:delay_fired_when_not_pending", opid=opid, t=t, via=via,
                      was_cancelled=opid in cancelled)
                    return
                del model[which][ent["name"]]
                if via == "loop" and abs(t - ent["deadline"]) > TOL:
                    V("delay_fire", "C13:delay_fired_at_wrong_time", opid=opid, t=t, deadline=ent["deadline"])
                if via == "run_now" and state["run_now"] != opid:
                    V("run_now", "C13:run_now_ran_other_callback", opid=opid, expected=state["run_now"])
                clauses["delay_kwargs"] += 1
                if args or kw != ent["kwargs"]:
                    V("delay_kwargs", "C13:run_now_drops_kwargs" if via == "run_now" else "C13:delay_kwargs_mismatch",
                      opid=opid, got=kw, stored=ent["kwargs"], via=via)
                if ent["action"]:
                    obs["nested_actions"] += 1
                    saved = state["run_now"]
                    state["run_now"] = None
                    try:
                        do_op(which, ent["action"])
                    finally:
                        state["run_now"] = saved
            return cb

        def cancel_entry(which, name):
            e = model[which].pop(name, None)
            if e is not None:
                cancelled.add(e["op"])
                obs["cancel_ops"] += 1

        def do_add(which, name, ms, action, nkw):
            state["opid"] += 1
            opid = state["opid"]
            kwargs = {"k%d" % i: "%d-%d" % (opid, i) for i in range(nkw)}
            cb = make_cb(opid, which)
            deadline = vm.now() + ms / 1000.0
            real = mgr[which].add(ms=ms, callback=cb, name=name, **kwargs)
            obs["delay_adds"] += 1
            if name is not None and real != name:
                V("delay_fire", "C13:add_returned_other_name", name=name, got=real)
            cancel_entry(which, real)
            model[which][real] = {"op": opid, "name": real, "deadline": deadline, "kwargs": kwargs, "action": action}

        def do_op(which, op):
            kind = op[0]
            if which == "mode" and not state["mode_active"] and kind in ("add", "add_if", "reset"):
                return
            if kind == "add":
                do_add(which, op[1], op[2], op[3] if len(op) > 3 else None, op[4] if len(op) > 4 else 1)
            elif kind == "add_if":
                name = op[1]
                clauses["delay_check"] += 1
                if name in model[which]:
                    state["opid"] += 1
                    dummy = make_cb(-state["opid"], which)   # must never be called
                    cancelled.add(-state["opid"])
                    got = mgr[which].add_if_doesnt_exist(op[2], dummy, name)
                    if got != name:
                        V("delay_check", "C13:add_if_returned_other_name", name=name, got=got)
                else:
                    state["opid"] += 1
                    opid = state["opid"]
                    nkw = op[4] if len(op) > 4 else 1
                    kwargs = {"k%d" % i: "%d-%d" % (opid, i) for i in range(nkw)}
                    deadline = vm.now() + op[2] / 1000.0
                    mgr[which].add_if_doesnt_exist(op[2], make_cb(opid, which), name, **kwargs)
                    model[which][name] = {"op": opid, "name": name, "deadline": deadline, "kwargs": kwargs,
                                          "action": op[3] if len(op) > 3 else None}
            elif kind == "reset":
                state["opid"] += 1
                opid = state["opid"]
                nkw = op[4] if len(op) > 4 else 1
                kwargs = {"k%d" % i: "%d-%d" % (opid, i) for i in range(nkw)}
                deadline = vm.now() + op[2] / 1000.0
                cancel_entry(which, op[1])
                mgr[which].reset(op[2], make_cb(opid, which), op[1], **kwargs)
                model[which][op[1]] = {"op": opid, "name": op[1], "deadline": deadline, "kwargs": kwargs,
                                       "action": op[3] if len(op) > 3 else None}
            elif kind == "remove":
                e = model[which].get(op[1])
                if e is not None and abs(e["deadline"] - vm.now()) <= TOL:
                    obs["coincident_deadline_ops"] += 1
                cancel_entry(which, op[1])
                mgr[which].remove(op[1])
            elif kind == "clear":
                for name in list(model[which]):
                    cancel_entry(which, name)
                mgr[which].clear()
            elif kind == "run_now":
                e = model[which].get(op[1])
                n0 = len(fired)
                saved = state["run_now"]
                state["run_now"] = e["op"] if e else -1
                try:
                    mgr[which].run_now(op[1])
                finally:
                    state["run_now"] = saved
                clauses["run_now"] += 1
                ran = [f for f in fired[n0:] if f[3] == "run_now"]
                if e is not None:
                    obs["cancel_ops"] += 1
                    if not any(f[0] == e["op"] for f in ran):
                        V("run_now", "C13:run_now_did_not_run_pending_callback", name=op[1], opid=e["op"])
                    cancelled.add(e["op"])     # it ran now: the scheduled call must be cancelled
                elif ran:
                    V("run_now", "C13:run_now_ran_without_pending_delay", name=op[1])
            elif kind == "check":
                pass
            check_all(which)

        def check_all(which):
            for name in NAMES:
                clauses["delay_check"] += 1
                real = mgr[which].check(name)
                if bool(real) != (name in model[which]):
                    V("delay_check", "C13:check_untruthful", mgr=which, name=name, real=real,
                      model=name in model[which], t=vm.now())

        def after_advance():
            now = vm.now()
            for which in model:
                for name, e in model[which].items():
                    clauses["delay_missed"] += 1
                    if e["deadline"] < now - TOL:
                        V("delay_missed", "C13:delay_did_not_fire", mgr=which, name=name, deadline=e["deadline"], now=now)
                check_all(which)

        crashed = None
        try:
            for op in case["ops"]:
                kind = op[0]
                if kind == "adv":
                    shape.append("A" + _bucket(op[1]))
                    vm.advance(op[1] / 1000.0)
                    after_advance()
                elif kind == "mode_stop":
                    shape.append("S")
                    if state["mode_active"]:
                        for name in list(model["mode"]):
                            cancel_entry("mode", name)
                        mode.stop()
                        state["mode_active"] = False
                        vm.advance(0)
                        after_advance()
                elif kind == "mode_start":
                    shape.append("T")
                    if not state["mode_active"]:
                        mode.start()
                        vm.advance(0)
                        # a start while the (held) stop is still in progress is refused by the mode
                        state["mode_active"] = bool(mode.active and not mode.stopping)
                        mgr["mode"] = mode.delay
                else:
                    shape.append(kind[0] + (_bucket(op[3]) if kind in ("add", "add_if", "reset") else "") +
                                 ("!" if kind in ("add", "add_if", "reset") and op[4] else ""))
                    do_op(op[1], [kind] + list(op[2:]))
            vm.advance(HORIZONS["final_settle_s"])
            after_advance()
            for which in model:
                if model[which]:
                    V("delay_missed", "C13:delay_did_not_fire", mgr=which, left=list(model[which]))
        except MpfCrash as e:
            crashed = repr(e)
            V("delay_fire", "C13:crash_in_delay_callback", exc=crashed[:500])
    clauses["never_after_cancel"] += len(cancelled)     # each cancelled op was watched to the final horizon
    nontrivial = clauses["delay_fire"] > 0 and obs["cancel_ops"] > 0
    return {"violations": viol, "clauses": clauses, "shape": "D" + "".join(shape), "nontrivial": nontrivial, "obs": obs}


class _Latency:
    """Injected processing latency: loop.time() reads base virtual time + latency accumulated by callbacks that
    'took time' in the current loop instant.  Drift-free code schedules from its own last deadline and is not
    affected; code that re-reads the clock accumulates the latency (that is the drift being monitored)."""

    def __init__(self):
        from mpf.tests.loop import TimeTravelLoop
        self.cls = TimeTravelLoop
        self.orig = TimeTravelLoop.time
        self.v = 0.0
        self.base = None
        lat = self

        def time(loop):
            if lat.base != loop._time:
                lat.base = loop._time
                lat.v = 0.0
            return loop._time + lat.v
        TimeTravelLoop.time = time

    def burn(self, loop, secs):
        if self.base != loop._time:
            self.base = loop._time
            self.v = 0.0
        self.v += secs

    def close(self):
        self.cls.time = self.orig


def _run_periodic(case):
    lat = _Latency()
    try:
        return _run_periodic2(case, lat)
    finally:
        lat.close()


def _run_periodic2(case, lat):
    from vlib.boot import VMachine, MpfCrash
    clauses = {"periodic_tick": 0, "periodic_missed": 0, "never_after_cancel": 0}
    viol = []
    obs = {"periodic_ticks": 0, "periodic_tasks": 0, "cancel_ops": 0, "max_tick_index": 0}
    shape = []

    def V(clause, sig, **detail):
        if len(viol) < 20:
            viol.append({"clause": clause, "sig": sig, "detail": detail})

    with VMachine("modes: []\n") as vm:
        m = vm.machine
        tasks = {}    # tid -> dict(t0, interval, n, cancelled_at, task, cancel_after)

        def make_cb(tid):
            def cb():
                T = tasks[tid]
                t = vm.loop._time          # base virtual time of this loop instant
                t_read = vm.loop.time()    # what asyncio compares deadlines with: base + latency burned in this instant
                lat.burn(vm.loop, 0.001)   # this callback "takes" 1 ms
                obs["periodic_ticks"] += 1
                clauses["periodic_tick"] += 1
                if T["cancelled"]:
                    V("never_after_cancel", "C13:periodic_tick_after_cancel", tid=tid, t=t)
                    return
                T["n"] += 1
                obs["max_tick_index"] = max(obs["max_tick_index"], T["n"])
                exp = T["t0"] + T["n"] * T["interval"]
                # late: even the base time of this loop instant is past the nominal deadline (drift);
                # early: the clock asyncio reads has not reached it.  A deadline that falls inside the latency other
                # callbacks of the same instant have burned is due in this instant (injected latency, not MPF's doing)
                if t - exp > TOL or exp - t_read > TOL:
                    V("periodic_tick", "C13:periodic_tick_at_wrong_time", tid=tid, k=T["n"], t=t, t_read=t_read,
                      expected=exp)
                if T["cancel_after"] is not None and T["n"] >= T["cancel_after"]:
                    T["cancelled"] = True
                    obs["cancel_ops"] += 1
                    m.clock.unschedule(T["task"])
            return cb

        def after():
            now = vm.now()
            for tid, T in tasks.items():
                if T["cancelled"]:
                    continue
                clauses["periodic_missed"] += 1
                nxt = T["t0"] + (T["n"] + 1) * T["interval"]
                if nxt < now - TOL:
                    V("periodic_missed", "C13:periodic_tick_missed", tid=tid, k=T["n"] + 1, expected=nxt, now=now)

        try:
            for op in case["ops"]:
                if op[0] == "sched":
                    shape.append("s")
                    tid = op[1]
                    tasks[tid] = {"t0": vm.now(), "interval": op[2], "n": 0, "cancelled": False, "cancel_after": op[3]}
                    tasks[tid]["task"] = m.clock.schedule_interval(make_cb(tid), op[2])
                    obs["periodic_tasks"] += 1
                elif op[0] == "cancel":
                    shape.append("c")
                    T = tasks.get(op[1])
                    if T and not T["cancelled"]:
                        T["cancelled"] = True
                        obs["cancel_ops"] += 1
                        m.clock.unschedule(T["task"])
                else:
                    shape.append("a%d" % min(3, int(op[1])))
                    vm.advance(op[1])
                    after()
            vm.advance(5.0)
            after()
        except MpfCrash as e:
            V("periodic_tick", "C13:crash_in_periodic", exc=repr(e)[:500])
    clauses["never_after_cancel"] += sum(1 for T in tasks.values() if T["cancelled"])
    return {"violations": viol, "clauses": clauses, "shape": "P" + "".join(shape),
            "nontrivial": clauses["periodic_tick"] > 0 and obs["cancel_ops"] > 0, "obs": obs}


def _timer_mode_cfg(cfg):
    t = {"direction": cfg["direction"], "start_value": cfg["start_value"], "tick_interval": "%ss" % cfg["tick_interval"],
         "start_running": cfg["start_running"], "restart_on_complete": cfg["restart_on_complete"]}
    if cfg["end_value"] is not None:
        t["end_value"] = cfg["end_value"]
    if cfg["max_value"] is not None:
        t["max_value"] = cfg["max_value"]
    ce = []
    # note: entries without a value first (Timer._setup_control_events leaks kwargs of value-carrying entries
    # into later value-less ones; not part of this property, avoided here)
    for ev, action in (("start", "start"), ("stop", "stop"), ("reset", "reset"), ("restart", "restart")):
        ce.append({"event": "t_" + ev, "action": action})
    for ev, action, val in (("pause0", "pause", 0), ("pause_half", "pause", 0.5), ("pause2", "pause", 2),
                            ("add1", "add", 1), ("add3", "add", 3), ("sub1", "subtract", 1), ("sub2", "subtract", 2),
                            ("jump0", "jump", 0), ("jump5", "jump", 5), ("jump10", "jump", 10),
                            ("set_q", "set_tick_interval", 0.25), ("set_1", "set_tick_interval", 1),
                            ("chg_half", "change_tick_interval", 0.5), ("chg_2", "change_tick_interval", 2)):
        ce.append({"event": "t_" + ev, "action": action, "value": val})
    ce.append({"event": "t_reset_int", "action": "reset_tick_interval"})
    t["control_events"] = ce
    return {"mode": {"start_events": "m1_go", "stop_events": "m1_halt", "game_mode": False}, "timers": {"t1": t}}


class _TimerModel:
    """Reference model of the Timer device (ticks, running, phase)."""

    def __init__(self, cfg):
        self.cfg = cfg
        self.loaded = False

    def load(self, now, out):
        c = self.cfg
        self.loaded = True
        self.direction = c["direction"]
        self.end = c["end_value"]
        if self.direction == "down" and not self.end:
            self.end = 0
        self.start_value = c["start_value"]
        self.max = c["max_value"]
        self.interval = c["tick_interval"]
        self.base_interval = c["tick_interval"]
        self.ticks = self.start_value
        self.running = False
        self.next_tick = None       # exact expected time of next clock tick, or None
        self.phase_window = None    # (lo, hi] when phase unspecified
        self.pause_until = None
        if c["start_running"]:
            self.start(now, out)

    def unload(self, now, out):
        self.loaded = False
        self.running = False
        self.next_tick = None
        self.phase_window = None
        self.pause_until = None

    def done(self):
        if self.direction == "up":
            return self.end is not None and self.ticks >= self.end
        return self.ticks <= self.end

    def _anchor(self, now):
        self.next_tick = now + self.interval
        self.phase_window = None

    def _complete(self, now, out, depth=0):
        self.running = False
        self.next_tick = None
        self.phase_window = None
        self.pause_until = None
        out.append(("complete", self.ticks))
        if self.cfg["restart_on_complete"] and depth < 3:
            self.jump(self.start_value, now, out, depth + 1)
            if not self.running:
                self.start(now, out, depth + 1)

    def check_done(self, now, out, depth=0):
        if self.done():
            self._complete(now, out, depth)
            return True
        return False

    def start(self, now, out, depth=0):
        if self.running:
            return
        if self.check_done(now, out, depth):
            return
        self.running = True
        self.pause_until = None
        self._anchor(now)

    def stop(self, now, out):
        self.running = False
        self.next_tick = None
        self.phase_window = None
        self.pause_until = None

    def pause(self, secs, now, out):
        self.running = False
        self.next_tick = None
        self.phase_window = None
        if secs > 0:
            self.pause_until = now + int(secs * 1000) / 1000.0

    def jump(self, v, now, out, depth=0):
        self.ticks = v
        if self.max and self.ticks > self.max:
            self.ticks = self.max
        if self.running:
            self.next_tick = None
            self.phase_window = (now, now + self.interval)
        self.check_done(now, out, depth)

    def add(self, n, now, out):
        v = self.ticks + n
        if self.max and v > self.max:
            v = self.max
        self.ticks = v
        self.check_done(now, out)

    def sub(self, n, now, out):
        self.ticks -= n
        self.check_done(now, out)

    def set_interval(self, iv, now, out):
        self.interval = abs(iv)
        if self.running:
            self.next_tick = None
            self.phase_window = (now, now + self.interval)

    def clock_tick(self, now, out):
        self.ticks += -1 if self.direction == "down" else 1
        self.next_tick = now + self.interval
        self.phase_window = None
        self.check_done(now, out)


def _run_timer(case):
    lat = _Latency()
    try:
        return _run_timer2(case, lat)
    finally:
        lat.close()


def _run_timer2(case, lat):
    from vlib.boot import VMachine, MpfCrash
    cfg = case["cfg"]
    clauses = {"timer_tick": 0, "timer_complete": 0, "timer_no_tick_when_idle": 0, "timer_missed": 0, "timer_value": 0}
    viol = []
    obs = {"timer_clock_ticks": 0, "timer_completes": 0, "timer_ops": 0, "cancel_ops": 0, "timer_events": 0}
    shape = []

    def V(clause, sig, **detail):
        if len(viol) < 20:
            viol.append({"clause": clause, "sig": sig, "detail": detail})

    with VMachine(BASE_CFG, modes={"m1": _timer_mode_cfg(cfg)}) as vm:
        m = vm.machine
        mode = m.modes["m1"]
        log = []     # (event, t, ticks)

        def rec(ev):
            def h(**kwargs):
                log.append((ev, vm.loop._time, kwargs.get("ticks")))
                lat.burn(vm.loop, 0.001)
                obs["timer_events"] += 1
            return h

        for ev in ("tick", "complete", "started", "stopped", "paused"):
            m.events.add_handler("timer_t1_" + ev, rec(ev), priority=1000000)

        model = _TimerModel(cfg)
        timer = None
        pos = 0

        def consume(now_is_op_time, expected_completes):
            """Match newly logged events against the model.  Clock ticks are tick events that change the value."""
            nonlocal pos
            new = log[pos:]
            pos = len(log)
            return new

        def process_window(t_from, t_to):
            """Advance the model through (t_from, t_to] replaying observed clock ticks online."""
            nonlocal pos
            new = log[pos:]
            pos = len(log)
            exp_completes = []
            for ev, t, ticks in new:
                if ev == "tick":
                    # honour a due pause expiry first
                    if model.pause_until is not None and model.pause_until <= t + TOL and not model.running:
                        out = []
                        model.start(model.pause_until, out)
                        exp_completes.extend(out)
                    if ticks == model.ticks:
                        continue      # refresh tick event (start/restart), not a clock tick
                    clauses["timer_tick"] += 1
                    obs["timer_clock_ticks"] += 1
                    clauses["timer_no_tick_when_idle"] += 1
                    if not model.loaded or not model.running:
                        V("timer_no_tick_when_idle", "C13:timer_tick_while_not_running", t=t, ticks=ticks,
                          model_ticks=model.ticks)
                        continue
                    step = -1 if model.direction == "down" else 1
                    if ticks != model.ticks + step:
                        V("timer_value", "C13:timer_tick_wrong_value", t=t, ticks=ticks, model_ticks=model.ticks)
                    if model.next_tick is not None:
                        if abs(t - model.next_tick) > TOL:
                            V("timer_tick", "C13:timer_tick_at_wrong_time", t=t, expected=model.next_tick)
                    elif model.phase_window is not None:
                        lo, hi = model.phase_window
                        if not (lo - TOL < t <= hi + TOL):
                            V("timer_tick", "C13:timer_tick_outside_interval_after_phase_op", t=t, window=[lo, hi])
                    out = []
                    model.clock_tick(t, out)
                    exp_completes.extend(out)
                elif ev == "complete":
                    clauses["timer_complete"] += 1
                    obs["timer_completes"] += 1
                    if not exp_completes:
                        # completion may stem from a pause expiry whose start() found the timer done
                        if model.pause_until is not None and model.pause_until <= t + TOL and not model.running:
                            out = []
                            model.start(model.pause_until, out)
                            exp_completes.extend(out)
                    if not exp_completes and model.loaded and model.running:
                        # the clock tick that reaches the end value posts no tick event, only the completion
                        due = (model.next_tick is not None and abs(t - model.next_tick) <= TOL) or \
                              (model.phase_window is not None and
                               model.phase_window[0] - TOL < t <= model.phase_window[1] + TOL)
                        if due:
                            clauses["timer_tick"] += 1
                            obs["timer_clock_ticks"] += 1
                            out = []
                            model.clock_tick(t, out)
                            exp_completes.extend(out)
                    if exp_completes:
                        e = exp_completes.pop(0)
                        clauses["timer_value"] += 1
                        if e[1] != ticks:
                            V("timer_complete", "C13:timer_complete_wrong_value", t=t, ticks=ticks, expected=e[1])
                    else:
                        V("timer_complete", "C13:timer_complete_not_at_end_value", t=t, ticks=ticks,
                          model_ticks=model.ticks, end=model.end if model.loaded else None)
            # pause expiry without any tick in the window
            if model.loaded and model.pause_until is not None and model.pause_until <= t_to + TOL and not model.running:
                out = []
                model.start(model.pause_until, out)
                exp_completes.extend(out)
            for e in exp_completes:
                clauses["timer_complete"] += 1
                V("timer_complete", "C13:timer_complete_missing", expected_ticks=e[1], t_to=t_to)
            # missed ticks
            clauses["timer_missed"] += 1
            if model.loaded and model.running:
                if model.next_tick is not None and model.next_tick < t_to - TOL:
                    V("timer_missed", "C13:timer_tick_missed", expected=model.next_tick, now=t_to)
                if model.phase_window is not None and model.phase_window[1] < t_to - TOL:
                    V("timer_missed", "C13:timer_tick_missed", window=list(model.phase_window), now=t_to)
            if timer is not None and model.loaded:
                clauses["timer_value"] += 1
                if timer.ticks != model.ticks:
                    V("timer_value", "C13:timer_ticks_differs_from_model", real=timer.ticks, model=model.ticks, now=t_to)

        def apply_op_to_model(name, now):
            out = []
            if not model.loaded:
                return out
            if name == "start":
                model.start(now, out)
            elif name == "stop":
                model.stop(now, out)
            elif name == "reset":
                model.jump(model.start_value, now, out)
            elif name == "restart":
                model.jump(model.start_value, now, out)
                if not model.running:
                    model.start(now, out)
            elif name == "pause0":
                model.pause(0, now, out)
            elif name == "pause_half":
                model.pause(0.5, now, out)
            elif name == "pause2":
                model.pause(2, now, out)
            elif name == "add1":
                model.add(1, now, out)
            elif name == "add3":
                model.add(3, now, out)
            elif name == "sub1":
                model.sub(1, now, out)
            elif name == "sub2":
                model.sub(2, now, out)
            elif name.startswith("jump"):
                model.jump(int(name[4:]), now, out)
            elif name == "set_q":
                model.set_interval(0.25, now, out)
            elif name == "set_1":
                model.set_interval(1.0, now, out)
            elif name == "chg_half":
                model.set_interval(model.interval * 0.5, now, out)
            elif name == "chg_2":
                model.set_interval(model.interval * 2, now, out)
            elif name == "reset_int":
                model.set_interval(model.base_interval, now, out)
            return out

        def sync_op(expected):
            """After an op at the current instant: match complete events posted synchronously."""
            nonlocal pos
            new = log[pos:]
            pos = len(log)
            exp = list(expected)
            for ev, t, ticks in new:
                if ev == "complete":
                    clauses["timer_complete"] += 1
                    obs["timer_completes"] += 1
                    if exp:
                        e = exp.pop(0)
                        if e[1] != ticks:
                            V("timer_complete", "C13:timer_complete_wrong_value", t=t, ticks=ticks, expected=e[1])
                    else:
                        V("timer_complete", "C13:timer_complete_not_at_end_value", t=t, ticks=ticks,
                          model_ticks=model.ticks)
                elif ev == "tick":
                    if ticks != model.ticks and model.loaded:
                        # a value-changing tick at the very instant of an op can only be a clock tick that was due
                        # now; all due ticks have run before the op (see LEVEL_NOTE), so this is a tick out of turn
                        clauses["timer_no_tick_when_idle"] += 1
                        V("timer_no_tick_when_idle", "C13:timer_tick_at_op_instant", t=t, ticks=ticks,
                          model_ticks=model.ticks)
            for e in exp:
                clauses["timer_complete"] += 1
                V("timer_complete", "C13:timer_complete_missing", expected_ticks=e[1], t=vm.now())
            if timer is not None and model.loaded:
                clauses["timer_value"] += 1
                if timer.ticks != model.ticks:
                    V("timer_value", "C13:timer_ticks_differs_from_model", real=timer.ticks, model=model.ticks,
                      now=vm.now())

        try:
            mode_active = False

            def start_mode():
                nonlocal mode_active, timer
                mode.start()
                out = []
                model.load(vm.now(), out)
                vm.advance(0)
                mode_active = mode.active
                timer = m.timers["t1"]
                sync_op(out)

            start_mode()
            for op in case["ops"]:
                if op[0] == "adv":
                    shape.append("a%d" % min(3, int(op[1] * 2)))
                    t0 = vm.now()
                    vm.advance(op[1])
                    process_window(t0, vm.now())
                elif op[0] == "ev":
                    if not mode_active:
                        continue
                    shape.append(op[1][:3])
                    obs["timer_ops"] += 1
                    if op[1] in ("stop", "pause0", "pause_half", "pause2"):
                        obs["cancel_ops"] += 1
                    out = apply_op_to_model(op[1], vm.now())
                    m.events.post("t_" + op[1])
                    vm.advance(0)
                    sync_op(out)
                elif op[0] == "mode_stop":
                    if mode_active:
                        shape.append("S")
                        obs["cancel_ops"] += 1
                        model.unload(vm.now(), [])
                        mode.stop()
                        vm.advance(0)
                        mode_active = mode.active
                        sync_op([])
                elif op[0] == "mode_start":
                    if not mode_active:
                        shape.append("T")
                        start_mode()
            t0 = vm.now()
            vm.advance(HORIZONS["final_settle_s"])
            process_window(t0, vm.now())
        except MpfCrash as e:
            V("timer_tick", "C13:crash_in_timer", exc=repr(e)[:600])
    return {"violations": viol, "clauses": clauses, "shape": "M%s%s" % (cfg["direction"][0], "".join(shape)),
            "nontrivial": clauses["timer_tick"] > 0 and obs["cancel_ops"] > 0, "obs": obs}
