"""C15 — Persistent data is durable, never torn, and survives write failures.

Four monitors, all on the REAL DataManager / FileManager / YamlInterface writing REAL files in a temp dir
(MPF's own suite only ever uses the in-memory TestDataManager):

  sched   schedule exploration (incl. "tick" cases: 2-4 managers dirty in the same tick, writer threads
          interleaved statement by statement by a seeded random line scheduler, further rounds, shutdown).  The writer threads are real threads, but their time source is virtual
          (vlib/c15_sched.py: time.sleep / Event.wait of mpf.core.data_manager are served by a virtual clock,
          one thread runs at a time, delays are injected at statement boundaries through sys.monitoring LINE
          events).  Generated timelines of save_all / shutdown / one-shot I/O faults over 1-3 managers that
          share FileManager.  Oracles: on-disk history at every scheduling point, durability after clean
          shutdown, later saves after a failed write (bounded progress in VIRTUAL time).
  crash   fault enumeration.  A child process does save v1, save v2, save v3 through the real DataManager
          under `strace -f -P <files> -e inject=<syscall>:signal=KILL|error=E:when=K` for EVERY syscall of
          the v2 save that touches the temp file or the target.  Oracle: target is exactly v1 or v2 at the
          kill; after an injected error the target is still complete and v3 is written.
  reboot  a real MachineController (VMachine) whose machine_vars DataManager is the real one: up to three
          power cycles of generated set/configure timelines (incl. re-sets to the SAME value, and the owner
          re-arming an expiring variable right after the load), shutdown, next boot after a generated
          downtime.  Oracle: file == last save_all argument; saved entry (value AND expire) == what the last
          set implies (expire = time of last set + expire_secs); variables reload equal unless the saved /
          the refreshed expiry has passed.
  real    the same classes with NOTHING virtual: real time.sleep, real GIL preemption, shrunk min_wait_secs,
          several managers, a polling watcher.  A wall-clock watchdog there yields *inconclusive* only.
"""
import os

PROPERTY = "C15"
LEVEL = "fault_enumeration"
EXHAUSTIVE = False
TECHNIQUE = ("runtime monitoring: on-disk history checker + shutdown/fault oracles over the real DataManager writer "
             "threads under a deterministic virtual-time thread scheduler with statement-boundary delay injection; "
             "exhaustive strace syscall fault injection (kill / ENOSPC / EIO) over one save; reboot differential for "
             "machine variables; real-time stress with a polling watcher")
LEVEL_TEXT = ("Fault enumeration for the crash-point clause: for each payload shape every syscall of one save that "
              "touches the temp file or the target is hit once with SIGKILL and once each with ENOSPC and EIO (strace "
              "inject), and the target is parsed afterwards — exhaustive in the process-kill model for that save. "
              "Schedules, fault timings, histories and value types are unbounded and are explored (sampled) with a "
              "deterministic scheduler, so those clauses are held-on-observed only.")
LEVEL_NOTE = ("Trusted base: strace's -P path filter and per-tracee inject counters (each injected run is re-validated "
              "from its own strace log, misaligned runs are not counted); ruamel's safe loader as the independent "
              "parser; the virtual-time shim that replaces the names time/threading/_thread inside "
              "mpf.core.data_manager (classes otherwise unmodified); process-kill as the crash model (no fsync / "
              "power-loss model); the process is kept alive until the writer threads exit.")
RULE = ("case = one of {generated timeline of save_all/shutdown/fault ops + injected statement delays over 1-3 real "
        "managers (sched); exhaustive syscall fault enumeration of one save for one payload shape and fault kind "
        "(crash); machine-variable timeline + shutdown + reboot after a downtime (reboot); real-time multi-manager "
        "burst (real)}. distinct = mode + manager count + op-kind sequence + bucketed gaps/phase at shutdown + fault "
        "kind + payload size class. non-trivial = every deciding oracle of that mode was evaluated at least once "
        "(history AND a final durability/crash/reboot comparison).")
ASSUMPTIONS = [
    "crash = the process is killed (SIGKILL) at a syscall boundary; power loss / page-cache loss is not modelled (mpf never fsyncs)",
    "clean shutdown = thread_stopper set and the process kept alive until the writer threads exit (mpf itself does not join "
    "them); if a writer has not exited after the horizon the file is compared anyway and only a content mismatch is a violation",
    "a save whose own write attempt hit an INJECTED I/O error may be lost (the statement does not demand a retry); only saves "
    "issued after the failed write, and other managers' saves, must still reach the disk",
    "saves issued after thread_stopper was set are outside the statement and are not generated",
    "payloads are dicts with str keys whose values are YAML-representable: str/int/float(incl. nan, inf, -0.0)/bool/None/"
    "bytes/date/datetime/set/list/dict; tuples are excluded (YAML has no tuple, they reload as lists)",
    "exact-instant coincidences (a save_all or shutdown at exactly a writer wake-up time) are generated in both orders and "
    "whatever order results is judged by the same oracle",
    "machine variables: the persist flag / expire_secs are configured before the variable's last set (documented usage); "
    "values compare with Python == (1 == True == 1.0), NaN equals NaN; expiry within 1 ms of the boot time may go either way; "
    "a reloaded variable is persistent without expiry until its owner configures expire_secs again (mpf's documented "
    "reload behaviour); from then on its expiry is judged again",
    "virtual horizon after the last operation: 60 s + 40 x min_wait_secs + 3 x injected delays (the writer's own waits are "
    "min_wait_secs, a 1 s poll and 0.2 s busy polls)",
    "real mode: wall-clock watchdog (30 s) => the case is inconclusive, never a violation; the interpreter's GIL switch "
    "interval is varied (5 us .. 5 ms) as a scheduling knob; while the caller mutates a dict it handed over earlier, "
    "intermediate snapshots on disk only have to be complete YAML documents (the statement is silent about them)",
]
HORIZONS = {"virtual_settle_s": "60 + 40*min_wait + 3*sum(delays)", "real_watchdog_s": 30, "crash_child_timeout_s": 60}
TIERS = {
    "quick": {"cases": 1600, "batch": 100, "case_timeout": 120, "batch_timeout": 600},
    "thorough": {"cases": 32000, "batch": 500, "case_timeout": 180, "batch_timeout": 3000},
}
MIN_EVALS = {
    "quick": {"history": 4000, "shutdown_durability": 1000, "write_failure": 200, "crash_atomicity": 80,
              "error_atomicity": 130, "error_then_later_save": 130, "reboot_file": 80, "reboot_equal": 200,
              "reboot_expiry": 60, "reboot_saved_state": 60, "overlap_durability": 250},
    "thorough": {"history": 80000, "shutdown_durability": 20000, "write_failure": 4000, "crash_atomicity": 600,
                 "error_atomicity": 1000, "error_then_later_save": 1000, "reboot_file": 1500, "reboot_equal": 4000,
                 "reboot_expiry": 1200, "reboot_saved_state": 1200, "overlap_durability": 5000},
}
SHRINK_KEYS = ["delays", "ops2", "ops"]

# position inside a batch -> mode (so that the expensive modes are spread over all workers)
_LAYOUT = {"quick": {"crash": 3, "real": 3, "reboot": 8}, "thorough": {"crash": 6, "real": 15, "reboot": 40}}

CRASH_SHAPES = ["tiny", "unicode", "nested", "multiline", "two_buffers", "many_buffers"]
CRASH_FAULTS = ["kill", "ENOSPC", "EIO"]


def extra_coverage(recs):
    """Evidence for the fault-enumeration level: how many crash / error points were hit, and whether every
    enumeration of this run was complete (each syscall of the save hit exactly once, re-validated from the log)."""
    tot = {"kill_points": 0, "error_points": 0, "enumerations": 0, "complete_enumerations": 0, "misaligned": 0,
           "child_timeouts": 0, "child_runs": 0}
    combos = {}
    for r in recs:
        o = r.get("obs") or {}
        if not o.get("crash_cases"):
            continue
        tot["enumerations"] += 1
        tot["complete_enumerations"] += int(o.get("enumerations_complete", 0))
        tot["kill_points"] += int(o.get("crash_points_enumerated", 0))
        tot["error_points"] += int(o.get("error_points_enumerated", 0))
        tot["misaligned"] += int(o.get("misaligned_injections", 0))
        tot["child_timeouts"] += int(o.get("child_timeouts", 0))
        tot["child_runs"] += int(o.get("child_runs", 0))
        key = "|".join(str(r.get("shape", "")).split("|")[1:3])
        combos[key] = combos.get(key, 0) + 1
    tot["exhaustive"] = tot["enumerations"] > 0 and tot["enumerations"] == tot["complete_enumerations"]
    tot["scope"] = ("every syscall touching the temp file or the target during ONE save, per (payload shape, fault kind); "
                    "process-kill / errno model")
    tot["shape_fault_combinations"] = combos
    return {"crash_points_enumerated": tot}


# =============================================================================================
# generation
# =============================================================================================
def gen_case(rng, tier, index):
    lay = _LAYOUT.get(tier, _LAYOUT["quick"])
    bsz = TIERS[tier]["batch"]
    pos, batch = index % bsz, index // bsz
    if pos < lay["crash"]:
        k = batch * lay["crash"] + pos
        return _gen_crash(rng, k)
    pos -= lay["crash"]
    if pos < lay["real"]:
        return _gen_real(rng, tier)
    pos -= lay["real"]
    if pos < lay["reboot"]:
        return _gen_reboot(rng)
    return _gen_sched(rng)


def _gap(rng, mw):
    return rng.choice([0.0, 1e-4, mw * 0.5, mw - 1e-4, mw, mw + 1e-4, mw + 0.5, mw + 1.0, mw + 1.0001,
                       2 * mw + 1.3, rng.uniform(0, 2 * mw + 2.2), rng.uniform(0, mw)])


def _gen_tick(rng):
    """Several data managers of one process get dirty in the SAME tick (end of game: audits + earnings +
    high scores + machine vars; shutdown releasing all writers at once), their writer threads are interleaved
    statement by statement by the seeded random line scheduler, then more rounds and the shutdown follow."""
    from vlib import c15_values as V
    n = rng.choice([2, 3, 3, 4])
    mw = [rng.choice([0.02, 0.1, 0.2, 1.0]) for _ in range(n)]
    ops = []
    t = max(mw) + rng.choice([0.05, 0.3, 1.2])
    rounds = rng.choice([2, 2, 3, 4])
    for r in range(rounds):
        ms = list(range(n)) if (r == rounds - 1 or rng.random() < 0.5) else rng.sample(range(n), rng.randint(2, n))
        rng.shuffle(ms)
        for m in ms:
            ops.append({"t": round(t, 6), "op": "save", "m": m, "body": V.gen_body(rng, rng.choice([0, 0, 300, 5000])),
                        "alias": False, "first": rng.random() < 0.5})
            t += rng.choice([0.0, 0.0, 0.0, 1e-4])
        if r < rounds - 1:
            t += rng.choice([0.0005, 0.01, 0.3, max(mw) * 0.5, max(mw) + 1.3, 2.5])
    ops.append({"t": round(t + rng.choice([0.0, 1e-4, 0.01, max(mw) * 0.5, max(mw) + 2.5, 4.0]), 6), "op": "stop",
                "first": rng.random() < 0.5})
    return {"mode": "sched", "n": n, "mw": mw, "deep": False, "ops": ops, "delays": [],
            "jitter": {"p": rng.choice([0.1, 0.25, 0.5, 0.8]), "seed": rng.randrange(1 << 30),
                       "dts": rng.choice([[0.0], [0.0, 0.0, 0.0005], [0.0, 0.0005, 0.003, 0.02], [0.0, 0.0, 0.0, 0.3]])},
            "tie": rng.randrange(1 << 30), "initial": False}


def _gen_sched(rng):
    from vlib import c15_values as V
    if rng.random() < 0.25:
        return _gen_tick(rng)
    n = rng.choice([1, 1, 2, 2, 3])
    mw = [rng.choice([0.02, 0.1, 0.2, 1.0, 1.0]) for _ in range(n)]
    deep = n >= 2 and rng.random() < 0.3
    ops = []
    t = rng.choice([0.0, 0.0, mw[0] * 0.5, mw[0], mw[0] + 0.3])
    big = rng.choice([None, None, 0, 300, 20000])
    for _ in range(rng.choice([1, 2, 3, 4, 6, 10])):
        m = rng.randrange(n)
        t += _gap(rng, mw[m])
        ops.append({"t": round(t, 6), "op": "save", "m": m, "body": V.gen_body(rng, big), "alias": rng.random() < 0.3,
                    "first": rng.random() < 0.5})
        k = rng.random()
        if k < 0.12:        # the owner saves again without a change
            t += _gap(rng, mw[m])
            ops.append({"t": round(t, 6), "op": "resave", "m": m, "same_obj": rng.random() < 0.5, "first": rng.random() < 0.5})
        elif k < 0.30:      # ... or with a change of TYPE only (1 -> True -> 1.0)
            for _ in range(rng.choice([1, 1, 2])):
                t += _gap(rng, mw[m])
                ops.append({"t": round(t, 6), "op": "typeswap", "m": m, "first": rng.random() < 0.5})
    fault = None
    if rng.random() < 0.35:
        j = rng.randrange(len(ops))
        fault = rng.choice(["blockdir", "enospc", "replace", "dump_write", "dump_write"])
        ops.append({"t": round(max(0.0, ops[j]["t"] - rng.choice([0.0, 1e-4, 0.01, 0.5])), 6), "op": "fault_on",
                    "kind": fault, "m": rng.choice([None, ops[j]["m"]]), "oneshot": rng.random() < 0.8,
                    "first": True})
        if rng.random() < 0.5:
            ops.append({"t": round(ops[j]["t"] + rng.choice([0.5, 1.5, 3.0]), 6), "op": "fault_off", "first": True})
        for _ in range(rng.choice([0, 1, 2])):
            m = rng.randrange(n)
            t += _gap(rng, mw[m]) + rng.choice([0, 1.2])
            if rng.random() < 0.5:      # the same content again (a retry / an unchanged state saved again)
                ops.append({"t": round(t, 6), "op": "resave", "m": rng.choice([m, ops[j]["m"]]),
                            "same_obj": rng.random() < 0.5, "first": False})
            else:
                ops.append({"t": round(t, 6), "op": "save", "m": m, "body": V.gen_body(rng, 0), "alias": False,
                            "first": False})
    if fault is None or rng.random() < 0.3:
        m_last = ops[-1]["m"] if ops[-1]["op"] in ("save", "resave", "typeswap") else 0
        ts = t + rng.choice([_gap(rng, mw[m_last]), _gap(rng, mw[m_last]), mw[m_last] + 2.5])
        ops.append({"t": round(ts, 6), "op": "stop", "first": rng.random() < 0.5})
    delays = []
    for _ in range(rng.choice([0, 0, 1, 2, 3, 5])):
        delays.append([rng.randrange(n), rng.randrange(0, 10), rng.randrange(1, 3000 if deep and rng.random() < 0.5 else (
            150 if deep else 45)), rng.choice([0.0, 0.001, 0.05, 0.3, 1.5])])
    return {"mode": "sched", "n": n, "mw": mw, "deep": deep, "ops": ops, "delays": delays,
            "tie": rng.randrange(1 << 30), "initial": rng.random() < 0.3, "resave_after_failure": rng.random() < 0.8}


def _gen_crash(rng, k):
    shape = CRASH_SHAPES[k % len(CRASH_SHAPES)]
    fault = CRASH_FAULTS[(k // len(CRASH_SHAPES)) % len(CRASH_FAULTS)]
    return {"mode": "crash", "shape": shape, "fault": fault, "salt": rng.randrange(1 << 20)}


def _gen_real(rng, tier):
    from vlib import c15_values as V
    n = rng.choice([2, 3, 4])
    mw = rng.choice([0.02, 0.05, 0.1]) if tier == "quick" else rng.choice([0.02, 0.1, 0.2, 1.0])
    ops = []
    for _ in range(rng.choice([3, 6, 10])):
        burst = rng.sample(range(n), rng.randint(1, n))
        ops.append({"gap": rng.choice([0.0, 0.001, mw * 0.5, mw, mw * 1.5, mw + 0.02]), "ms": burst,
                    "body": _real_body(rng, V), "alias": rng.random() < 0.5})
        k = rng.random()
        if k < 0.35:        # same content again / type-only change of what these managers saved last
            ops.append({"gap": rng.choice([0.0, 0.001, mw * 0.5, mw * 1.5, mw + 0.3]), "ms": burst,
                        "kind": rng.choice(["resave", "typeswap", "typeswap"])})
    return {"mode": "real", "n": n, "mw": mw, "ops": ops, "stop_gap": rng.choice([0.0, 0.001, mw * 0.5, mw, mw + 1.2]),
            "switch_us": rng.choice([5, 50, 500, 5000])}


def _real_body(rng, V):
    body = V.gen_body(rng, rng.choice([0, 3000, 60000, 200000]))
    if rng.random() < 0.6:
        body["many"] = {"$": "many", "n": rng.choice([300, 2000, 6000])}
    return body


def _gen_reboot(rng):
    from vlib import c15_values as V
    names = ["mv_a", "mv_b", "mv_c", "mv_d"]
    expiring = []

    def cfg_set(ops, name, persist=True, e="pick"):
        if e == "pick":
            e = rng.choice([None, None, 5, 60, 3600])
        ops.append({"op": "cfg", "name": name, "persist": persist, "expire_secs": e})
        ops.append({"op": "set", "name": name, "value": V.gen_value(rng)})
        if persist and e and name not in expiring:
            expiring.append(name)
        return e

    ops = []
    if rng.random() < 0.8:
        cfg_set(ops, rng.choice(names), True, rng.choice([None, 5, 60, 3600, 3600]))
        if rng.random() < 0.5:
            ops.append({"op": "adv", "dt": rng.choice([0.3, 1.0, 1.5, 2.5])})
    if rng.random() < 0.5:
        names = names + ["cfg_int", "cfg_str", "cfg_np"]
    for _ in range(rng.choice([1, 2, 4, 8])):
        k = rng.random()
        name = rng.choice(names)
        if k < 0.45:
            ops.append({"op": "set", "name": name, "value": V.gen_value(rng)})
        elif k < 0.65:
            cfg_set(ops, name, rng.random() < 0.8)
        elif k < 0.8:
            # the owner sets the variable again to the value it already has (credits mode does on every start)
            ops.append({"op": "adv", "dt": rng.choice([0.5, 2.0, 7.0, 30.0, 100.0])})
            ops.append({"op": "reset", "name": rng.choice(expiring) if expiring and rng.random() < 0.8 else name})
            if rng.random() < 0.4:
                ops.append({"op": "adv", "dt": rng.choice([1.5, 3.0])})
                cfg_set(ops, rng.choice(names), True, None)
        else:
            ops.append({"op": "adv", "dt": rng.choice([0.0, 0.3, 0.9999, 1.0, 1.0001, 2.5, 30.0])})
    ops.append({"op": "adv", "dt": rng.choice([0.0, 0.0, 1e-3, 0.5, 0.9999, 1.0, 1.0001, 1.5, 2.5, 5.0])})
    case = {"mode": "reboot", "ops": ops,
            "downtime": rng.choice([0.0, 1.0, 4.0, 6.0, 59.0, 61.0, 3000.0, 3590.0, 3610.0, 4000.0, 1e6]),
            "config_vars": any(o.get("name", "").startswith("cfg_") for o in ops) or rng.random() < 0.3}
    # ---- second power cycle
    if rng.random() < 0.6:
        ops2 = []
        if expiring and rng.random() < 0.8:
            # right after the load the owner re-arms its variable: configure + set to the reloaded value
            for name in rng.sample(expiring, rng.randint(1, len(expiring))):
                if rng.random() < 0.3:
                    ops2.append({"op": "adv", "dt": rng.choice([0.0, 0.5, 2.0])})
                ops2.append({"op": "cfg", "name": name, "persist": True, "expire_secs": rng.choice([5, 60, 3600])})
                ops2.append({"op": "reset", "name": name})
        for _ in range(rng.choice([0, 0, 1, 2])):
            k = rng.random()
            if k < 0.4:
                ops2.append({"op": "adv", "dt": rng.choice([0.5, 1.5, 3.0, 20.0])})
            elif k < 0.7:
                ops2.append({"op": "reset", "name": rng.choice(expiring or names)})
            else:
                cfg_set(ops2, rng.choice(names + ["mv_trigger"]), True, rng.choice([None, None, 60]))
        if rng.random() < 0.35:
            # some other persistent variable changes afterwards (that rewrites the whole persistent set)
            ops2.append({"op": "adv", "dt": rng.choice([0.0, 1.5, 3.0])})
            ops2.append({"op": "cfg", "name": "mv_trigger", "persist": True, "expire_secs": None})
            ops2.append({"op": "set", "name": "mv_trigger", "value": rng.randrange(1, 1000)})
        ops2.append({"op": "adv", "dt": rng.choice([0.0, 0.5, 1.0001, 2.5, 5.0])})
        case["ops2"] = ops2
        case["downtime2"] = rng.choice([0.0, 1.0, 4.0, 6.0, 59.0, 61.0, 3000.0, 3590.0, 3610.0, 4000.0, 1e6])
    return case


# =============================================================================================
# run
# =============================================================================================
def run_case(case):
    mode = case.get("mode")
    if mode == "sched":
        return _run_sched(case)
    if mode == "crash":
        return _run_crash(case)
    if mode == "reboot":
        return _run_reboot(case)
    if mode == "real":
        return _run_real(case)
    raise ValueError("unknown mode %r" % (mode,))


def _uniq(viol):
    seen, out = set(), []
    for v in viol:
        if v["sig"] not in seen:
            seen.add(v["sig"])
            out.append(v)
    return out


def _bucket(x):
    for b, name in ((0, "0"), (1e-3, "eps"), (0.25, "s"), (1.0, "m"), (2.5, "l")):
        if x <= b:
            return name
    return "xl"


# --------------------------------------------------------------------------------------------- sched
def _run_sched(case):
    import shutil
    import tempfile
    from vlib import c15_values as V
    from vlib.c15_engine import Engine
    from vlib.c15_sched import Inconclusive

    n = max(1, int(case.get("n", 1)))
    mw = [float(x) for x in (case.get("mw") or [0.1])]
    delays = [d for d in case.get("delays", []) if isinstance(d, list) and len(d) == 4]
    ops = [o for o in case.get("ops", []) if isinstance(o, dict) and "op" in o]
    ops = sorted(ops, key=lambda o: o.get("t", 0.0))
    horizon = 60.0 + 40.0 * max(mw) + 3.0 * sum(float(d[3]) for d in delays)
    clauses = {"history": 0, "shutdown_durability": 0, "write_failure": 0, "overlap_durability": 0}
    obs = {"sched_cases": 1, "handoffs": 0, "delays_hit": 0, "failed_writes": 0, "injected_failed_writes": 0,
           "writer_never_exited": 0, "excused_saves": 0, "scheduling_point_observations": 0, "max_concurrent_saves": 0,
           "watchdog_inconclusive": 0, "writes": 0, "resaves_of_unchanged_content": 0, "type_only_changes": 0}
    viol = []
    base = tempfile.mkdtemp(prefix="c15-s-")
    initial = None
    if case.get("initial"):
        initial = {i: {"_v": 0, "_m": i, "boot": ["old", i]} for i in range(n)}
    eng = None
    phase_at_stop = []
    try:
        eng = Engine(base, ["dm%d" % i for i in range(n)], mw, delays=delays, tie_seed=case.get("tie", 0),
                     deep=bool(case.get("deep")), initial=initial, jitter=case.get("jitter"))
        if initial:     # what the manager loaded at construction must be what was on disk
            for i in range(n):
                clauses["history"] += 1
                if not V.same(eng.loaded[i], initial[i]):
                    viol.append({"clause": "history", "sig": "C15:load_differs_from_file",
                                 "detail": {"loaded": V.short(eng.loaded[i]), "file": V.short(initial[i])}})
        for o in ops:
            if eng.stop_seq is not None:
                break
            eng.advance_to(float(o.get("t", 0.0)), wake_at_t=not o.get("first"))
            kind = o["op"]
            if kind == "save":
                eng.save(int(o.get("m", 0)), V.build(o.get("body", {})), alias=bool(o.get("alias")))
            elif kind == "resave":
                eng.resave(int(o.get("m", 0)), same_obj=bool(o.get("same_obj")))
                obs["resaves_of_unchanged_content"] += 1
            elif kind == "typeswap":
                if eng.typeswap(int(o.get("m", 0))) is not None:
                    obs["type_only_changes"] += 1
            elif kind == "fault_on":
                eng.fault_on(o.get("kind", "enospc"), o.get("m"), oneshot=bool(o.get("oneshot", True)))
            elif kind == "fault_off":
                eng.fault_off()
            elif kind == "stop":
                phase_at_stop = [r.blocked_in or r.state for r in eng.sched.threads]
                eng.stop()
        # ---- one failed write must not stop later saves (bounded progress in virtual time)
        eng.fault_off()
        if eng.failures and eng.stop_seq is None:
            eng.advance(0.0)
            # (1) the owners save their state again, UNCHANGED (the content of the failed write included);
            # (2) fresh versions.  Only the on-disk content is judged: it must be what was last handed over.
            phases = []
            if case.get("resave_after_failure", True) and eng.last_saved:
                phases.append(("resave", {m: eng.resave(m, same_obj=bool((m + case.get("tie", 0)) % 2))
                                          for m in sorted(eng.last_saved)}))
                obs["resaves_of_unchanged_content"] += len(phases[-1][1])
                eng.advance(horizon)
                phases[-1] = phases[-1] + ({m: eng.on_disk(m) for m in phases[-1][1]},)
            phases.append(("fresh", {m: eng.save(m, {"probe": True}) for m in range(n)}))
            eng.advance(horizon)
            phases[-1] = phases[-1] + ({m: eng.on_disk(m) for m in phases[-1][1]},)
            for kind, probes, disk in phases:
              for m, pv in probes.items():
                clauses["write_failure"] += 1
                v, sig, detail, _ = disk[m]
                if v != pv:
                    viol.append({"clause": "write_failure", "sig": _diagnose(eng, m, True, pv, v, kind), "detail": {
                        "manager": m, "probe": kind, "probe_version": pv, "on_disk_version": v, "virtual_wait_s": horizon,
                        "failed_writes": [f[1:] for f in eng.failures[:3]], "FileManager.is_busy": eng.is_busy(),
                        "saves_in_flight": eng.inflight, "threads": eng.sched.describe(), "events": eng.events[-12:]}})
        # ---- clean shutdown: stopper set, process kept alive until the writers exit
        if not phase_at_stop:
            phase_at_stop = [r.blocked_in or r.state for r in eng.sched.threads]
        eng.stop()
        exited = eng.wait_exit(horizon)
        if not exited:
            obs["writer_never_exited"] += 1
        for m in sorted(eng.last_saved):
            lv = eng.last_saved[m]
            s_m = max(s for s, mm, vv in eng.save_order if mm == m and vv == lv)
            path = eng.hist[m].path
            if any(f[0] > s_m and f[3] and os.path.abspath(f[1]) == os.path.abspath(path) for f in eng.failures):
                obs["excused_saves"] += 1      # its own write hit an injected I/O error
                continue
            clauses["shutdown_durability"] += 1
            if eng.max_inflight >= 2:
                clauses["overlap_durability"] += 1     # ... judged after two saves were inside FileManager.save at once
            v, sig, detail, raw = eng.on_disk(m)
            if v != lv:
                viol.append({"clause": "shutdown_durability", "sig": _diagnose(eng, m, False, lv, v), "detail": {
                    "manager": m, "min_wait_secs": mw[m % len(mw)], "last_saved_version": lv, "on_disk_version": v,
                    "on_disk_problem": sig, "writers_exited": exited, "phase_at_stop": phase_at_stop,
                    "failed_writes": [f[1:] for f in eng.failures[:3]], "FileManager.is_busy": eng.is_busy(),
                    "threads": eng.sched.describe(), "events": eng.events[-14:], "delays": eng.sched.trace[-6:]}})
        for h in eng.hist:
            clauses["history"] += h.evals
            obs["scheduling_point_observations"] += h.observations
            for hv in h.violations:
                if eng.max_inflight >= 2 and any(not f[3] for f in eng.failures):
                    hv = {"clause": "history", "sig": "C15:is_busy_race_concurrent_dumps",
                          "detail": dict(hv["detail"], observed=hv["sig"], max_concurrent_saves=eng.max_inflight)}
                viol.append(hv)
        obs["jitter_delays"] = eng.sched.jitter_hits
        obs["overlapping_save_cases"] = 1 if eng.max_inflight >= 2 else 0
        if eng.is_busy() and eng.inflight == 0:
            obs["is_busy_set_at_quiescence"] = 1
        obs["handoffs"] = eng.sched.handoffs
        obs["delays_hit"] = eng.sched.delays_hit
        obs["failed_writes"] = len(eng.failures)
        obs["injected_failed_writes"] = sum(1 for f in eng.failures if f[3])
        obs["max_concurrent_saves"] = eng.max_inflight
        obs["writes"] = eng.save_calls
        died = [r.died for r in eng.sched.threads if r.died]
        if died:
            obs["writer_thread_died"] = len(died)
    except Inconclusive:
        obs["watchdog_inconclusive"] += 1
        return {"violations": [], "clauses": {}, "shape": "sched-inconclusive", "nontrivial": False, "obs": obs}
    finally:
        if eng is not None:
            eng.close()
        shutil.rmtree(base, ignore_errors=True)
    kinds = "".join({"save": "s", "resave": "r", "typeswap": "t", "fault_on": "F", "fault_off": "f",
                     "stop": "X"}.get(o["op"], "?") for o in ops)
    fk = next((o.get("kind") for o in ops if o["op"] == "fault_on"), "-")
    gaps = "".join(_bucket(b.get("t", 0) - a.get("t", 0)) + "," for a, b in zip(ops, ops[1:]))
    shape = "S|n%d|%s|%s|%s|fault=%s|deep=%d|d%d|j%s|stop@%s" % (
        n, ",".join(_bucket(x) for x in mw), kinds, gaps, fk, bool(case.get("deep")), min(len(delays), 3),
        (case.get("jitter") or {}).get("p", 0), ",".join(str(p) for p in phase_at_stop))
    trace = (eng.events[-25:] + eng.sched.trace[-10:]) if eng is not None else []
    return {"violations": _uniq(viol), "clauses": clauses, "shape": shape, "obs": obs, "trace": trace,
            "nontrivial": clauses["history"] > 0 and clauses["shutdown_durability"] > 0}


def _diagnose(eng, m, probe, want=None, got=None, kind="fresh"):
    """Mechanism signature of a save that did not reach the disk (the verdict itself is black-box)."""
    if want and got and want[0] == got[0] and got[1] < want[1]:
        return "C15:type_only_change_not_written"       # disk holds 1 where True / 1.0 was saved last
    recs = eng.sched.threads
    rec = recs[m] if m < len(recs) else None
    spont = [f for f in eng.failures if not f[3]]
    if rec is not None and rec.died and not spont:
        return "C15:writer_thread_died"
    if spont:
        # a write raised although no fault was injected into it
        if eng.max_inflight >= 2:
            return "C15:is_busy_race_concurrent_dumps"
        if any(f[3] and f[0] < spont[0][0] for f in eng.failures):
            return "C15:yaml_dumper_poisoned_after_failed_dump"
        return "C15:save_lost_to_spontaneous_write_error"
    if eng.failures and eng.is_busy() and eng.inflight == 0:
        return "C15:is_busy_stuck_after_failed_write"
    if eng.is_busy() and eng.inflight == 0:
        # no write ever failed, nobody is inside FileManager.save, yet the flag is set: every writer spins
        return "C15:is_busy_stuck_after_overlapping_saves" if eng.max_inflight >= 2 else "C15:is_busy_stuck_without_writer"
    if eng.failures and sum(1 for q, mm, r in eng.save_order if mm == m and r == want) >= 2:
        return "C15:resave_of_failed_content_dropped"   # same content handed again after its write had failed
    if probe:
        return "C15:later_save_never_written"
    if rec is not None and rec.state == "done":
        return "C15:dirty_save_dropped_at_shutdown"
    return "C15:save_not_written_writer_still_running"


# --------------------------------------------------------------------------------------------- stubs (filled below)
_STRACE = "/usr/bin/strace"


def _parse_strace(path):
    """-> list of (pid, syscall_name, line)"""
    import re
    out = []
    rx = re.compile(r"^(\d+)\s+([a-z_0-9]+)\(")
    try:
        with open(path, errors="replace") as f:
            for line in f:
                m = rx.match(line)
                if m:
                    out.append((int(m.group(1)), m.group(2), line.rstrip("\n")))
                elif "+++ killed by" in line or "+++ exited" in line:
                    out.append((int(line.split()[0]), "+++", line.rstrip("\n")))
    except FileNotFoundError:
        pass
    return out


def _crash_child(base, shape, salt, inject=None, timeout=60):
    """One child run in a fresh directory; returns (rc, stdout_json_or_None, strace_entries, dirs)."""
    import json
    import shutil
    import subprocess
    import sys
    from vlib import boot
    shutil.rmtree(base, ignore_errors=True)
    data = os.path.join(base, "data")
    os.makedirs(data)
    os.makedirs(os.path.join(base, "snap"))
    alias = os.path.join(base, "alias")
    os.symlink(data, alias)
    log = os.path.join(base, "strace.log")
    here = os.path.dirname(os.path.dirname(os.path.abspath(__file__)))
    env = dict(os.environ, PYTHONPATH=os.pathsep.join([boot.tree_root(), here]), VERIF_TREE=boot.tree_root(),
               PYTHONDONTWRITEBYTECODE="1", PYTHONHASHSEED="0")
    cmd = [_STRACE, "-f", "-o", log, "-P", os.path.join(data, "a.yaml"), "-P", os.path.join(data, "_a.yaml"),
           "-P", os.path.join(data, "MARK")]
    if inject:
        cmd += ["-e", "inject=" + inject]
    cmd += [sys.executable, "-m", "vlib.c15_child", base, alias, shape, str(salt)]
    try:
        p = subprocess.run(cmd, cwd=here, env=env, stdout=subprocess.PIPE, stderr=subprocess.PIPE, timeout=timeout)
        rc, so, se = p.returncode, p.stdout.decode(errors="replace"), p.stderr.decode(errors="replace")
    except subprocess.TimeoutExpired:
        return "timeout", None, _parse_strace(log), ""
    rep = None
    for line in so.splitlines():
        if line.startswith("{"):
            try:
                rep = json.loads(line)
            except ValueError:
                pass
    return rc, rep, _parse_strace(log), se[-800:]


def _window(entries):
    """Syscalls of the v2 save: everything between the two MARK accesses.  -> (list of (pid, name, ordinal, line), ok)"""
    marks = [i for i, e in enumerate(entries) if "MARK" in e[2] and e[1] in ("access", "faccessat", "faccessat2")]
    if len(marks) < 2:
        return [], False
    counts = {}
    out = []
    for i, (pid, name, line) in enumerate(entries):
        if name == "+++":
            continue
        counts[(pid, name)] = counts.get((pid, name), 0) + 1
        if marks[0] < i < marks[1]:
            out.append((pid, name, counts[(pid, name)], line))
    return out, True


def _run_crash(case):
    import shutil
    import tempfile
    from vlib import c15_values as V
    shape, fault, salt = case["shape"], case["fault"], case.get("salt", 0)
    clauses = {"crash_atomicity": 0, "error_atomicity": 0, "error_then_later_save": 0}
    obs = {"crash_cases": 1, "crash_points_enumerated": 0, "error_points_enumerated": 0, "child_runs": 0,
           "misaligned_injections": 0, "child_timeouts": 0, "syscalls_in_window": 0, "errors_not_surfacing": 0}
    viol = []
    versions = {v: V.crash_payload(shape, salt, v) for v in (1, 2, 3)}
    root = tempfile.mkdtemp(prefix="c15-k-")
    base = os.path.join(root, "run")

    def which(path):
        """-> (version|None, problem|None)"""
        raw = V.read_file(path)
        if raw is None:
            return None, "missing"
        ok, val = V.parse_bytes(raw)
        if not ok:
            return None, "unparseable: %s head=%s" % (val, V.short(raw[:80]))
        for v, pv in versions.items():
            if V.same(val, pv):
                return v, None
        return None, "not a saved version: %s" % V.short(val, 200)

    try:
        # ---- pass 0: no injection; learn the syscall sequence of the v2 save
        rc, rep, entries, se = _crash_child(base, shape, salt)
        obs["child_runs"] += 1
        win, ok = _window(entries)
        tgt = os.path.join(base, "data", "a.yaml")
        if rc != 0 or not ok or not win or rep is None:
            raise RuntimeError("baseline child run failed rc=%r window_ok=%r stderr=%s" % (rc, ok, se))
        base_final = which(tgt)
        base_v2 = which(os.path.join(base, "snap", "after_v2.yaml"))
        if base_final[0] == 3 and base_v2[0] != 2:
            # the snapshot is a hard link to the inode that was the target after the v2 save; it no longer holds
            # v2, so the v3 save rewrote that inode IN PLACE instead of replacing the directory entry
            clauses["crash_atomicity"] += 1
            viol.append({"clause": "crash_atomicity", "sig": "C15:target_modified_in_place",
                         "detail": {"hardlinked_snapshot_after_v2_now_holds": base_v2, "final": base_final}})
        elif base_v2[0] != 2 or base_final[0] != 3:
            # no fault was injected: the plain sequence save v1, v2, v3, shutdown did not end as saved
            clauses["error_then_later_save"] += 1
            viol.append({"clause": "error_then_later_save", "sig": "C15:baseline_child_not_as_saved",
                         "detail": {"after_v2": base_v2, "final": base_final, "report": rep}})
            win = []
        writer_pids = set(pid for pid, name, k, line in win)
        obs["syscalls_in_window"] = len(win)
        names = [w[1] for w in win]
        for j, (pid, name, ordinal, line) in enumerate(win):
            if fault == "kill":
                spec = "%s:signal=KILL:when=%d" % (name, ordinal)
            else:
                spec = "%s:error=%s:when=%d" % (name, fault, ordinal)
            rc, rep, entries, se = _crash_child(base, shape, salt, inject=spec)
            obs["child_runs"] += 1
            if rc == "timeout":
                obs["child_timeouts"] += 1
                continue
            # ---- re-validate from this run's own log that the fault hit the j-th syscall of the v2 save
            marks = [i for i, e in enumerate(entries) if "MARK" in e[2] and e[1].startswith(("access", "faccessat"))]
            if fault == "kill":
                hit = [i for i, e in enumerate(entries) if e[1] == name and e[2].rstrip().endswith("= ?")]
                landed = (len(hit) == 1 and len(marks) == 1 and hit[0] > marks[0]
                          and [e[1] for e in entries[marks[0] + 1:hit[0] + 1] if e[1] != "+++"] == names[:j + 1]
                          and rep is None)
            else:
                hit = [i for i, e in enumerate(entries) if "(INJECTED)" in e[2]]
                landed = (len(hit) == 1 and len(marks) == 2 and marks[0] < hit[0] < marks[1]
                          and entries[hit[0]][1] == name
                          and [e[1] for e in entries[marks[0] + 1:hit[0] + 1]] == names[:j + 1])
            if not landed:
                obs["misaligned_injections"] += 1
                continue
            where = {"syscall": name, "index_in_save": j, "of": len(win), "strace_line": entries[hit[0]][2][:160],
                     "shape": shape, "fault": fault}
            if fault == "kill":
                obs["crash_points_enumerated"] += 1
                clauses["crash_atomicity"] += 1
                v, prob = which(tgt)
                if v not in (1, 2):
                    viol.append({"clause": "crash_atomicity", "sig": "C15:torn_target_after_kill",
                                 "detail": dict(where, target_version=v, problem=prob)})
                continue
            obs["error_points_enumerated"] += 1
            if rep is None or rc != 0:
                viol.append({"clause": "error_atomicity", "sig": "C15:process_died_on_io_error",
                             "detail": dict(where, rc=rc, stderr=se[-300:])})
                continue
            surfaced = not (which(os.path.join(base, "snap", "after_v2.yaml"))[0] == 2)
            if not surfaced:
                obs["errors_not_surfacing"] += 1     # e.g. ioctl(TCGETS): the errno is swallowed by Python, save went through
            clauses["error_atomicity"] += 1
            v, prob = which(os.path.join(base, "snap", "after_v2.yaml"))
            if v not in (1, 2):
                viol.append({"clause": "error_atomicity", "sig": "C15:torn_target_after_io_error",
                             "detail": dict(where, target_version=v, problem=prob)})
            clauses["error_then_later_save"] += 1
            v2b, prob2b = which(os.path.join(base, "snap", "after_v2_again.yaml"))
            if v2b != 2 and not rep.get("is_busy") and not rep.get("died") and len(rep.get("save_errors", [])) < 2:
                # v2 was handed over again after its write had failed (or succeeded): v2 must be on disk now
                viol.append({"clause": "error_then_later_save", "sig": "C15:resave_of_failed_content_dropped", "detail": dict(
                    where, after_resave_version=v2b, problem=prob2b, virtual_wait_s=120, child_report=rep)})
            v3, prob3 = which(os.path.join(base, "snap", "after_v3.yaml"))
            vf, probf = which(tgt)
            if v3 != 3 or vf != 3:
                sig = "C15:is_busy_stuck_after_failed_write" if rep.get("is_busy") else (
                    "C15:writer_thread_died" if rep.get("died") else (
                        "C15:yaml_dumper_poisoned_after_failed_dump" if len(rep.get("save_errors", [])) >= 2
                        else "C15:later_save_never_written"))
                viol.append({"clause": "error_then_later_save", "sig": sig, "detail": dict(
                    where, after_later_save_version=v3, problem=prob3, final_version=vf, final_problem=probf,
                    virtual_wait_s=120, child_report=rep)})
    finally:
        shutil.rmtree(root, ignore_errors=True)
    enumerated = obs["crash_points_enumerated"] + obs["error_points_enumerated"]
    complete = enumerated == obs["syscalls_in_window"] and enumerated > 0
    obs["enumerations_complete"] = 1 if complete else 0
    return {"violations": _uniq(viol), "clauses": clauses, "obs": obs,
            "shape": "K|%s|%s|n%d" % (shape, fault, obs["syscalls_in_window"]),
            "nontrivial": complete}


def _no_sets(spec):
    if isinstance(spec, list):
        return [_no_sets(x) for x in spec]
    if isinstance(spec, dict):
        if spec.get("$") == "set":
            return list(spec.get("v", []))
        return {k: _no_sets(v) for k, v in spec.items()}
    return spec


_CFG_VARS = {"cfg_int": {"initial_value": 5, "value_type": "int", "persist": True},
             "cfg_str": {"initial_value": "hello", "value_type": "str", "persist": True},
             "cfg_np": {"initial_value": 1, "value_type": "int", "persist": False}}


def _run_reboot(case):
    """Up to three boots of a real MachineController whose machine_vars DataManager is the real one.
    boot k: [reload oracle against what boot k-1 left] -> generated ops -> real shutdown ->
            file == last save_all argument -> clear-case model cross-check (value AND expire)."""
    import copy
    import datetime
    import shutil
    import tempfile
    from vlib import c15_values as V
    from vlib.boot import VMachine
    from vlib.c15_sched import Sched, Inconclusive
    from vlib.c15_engine import fresh_process_state
    from mpf.core import data_manager as dm_mod, file_manager as fm_mod, machine_vars as mv_mod
    from mpf.file_interfaces import yaml_interface as yi_mod
    from mpf.core.machine import MachineController
    from mpf.tests.MpfTestCase import TestMachineController
    from mpf.tests.loop import TestClock

    clauses = {"reboot_file": 0, "reboot_equal": 0, "reboot_expiry": 0, "reboot_saved_state": 0, "history": 0}
    obs = {"reboot_cases": 1, "boots": 0, "mv_sets": 0, "mv_same_value_resets": 0, "mv_save_all_calls": 0,
           "expired_entries": 0, "unexpired_entries": 0, "borderline_expiry_skipped": 0, "model_judged_vars": 0,
           "model_expiry_reload_checks": 0, "watchdog_inconclusive": 0}
    viol = []
    root = tempfile.mkdtemp(prefix="c15-m-")
    path = os.path.join(root, "persist", "machine_vars.yaml")
    sched = Sched(tie_seed=0)
    offset = [0.0]
    handed = []          # every save_all argument (deep copy), in order, over all boots
    load_times = []
    orig = {"cdm": TestMachineController.__dict__["create_data_manager"], "gdt": TestClock.__dict__["get_datetime"],
            "save_all": dm_mod.DataManager.__dict__["save_all"],
            "load": mv_mod.MachineVariables.__dict__["load_machine_vars"]}

    def create_data_manager(self, name):
        if name == "machine_vars":
            return MachineController.create_data_manager(self, name)       # the REAL one (default rate limit)
        return orig["cdm"](self, name)

    def get_datetime(self):
        return orig["gdt"](self) + datetime.timedelta(seconds=offset[0])

    def save_all(self, data):
        if getattr(self, "filename", None) == path:
            handed.append(copy.deepcopy(data))
        return orig["save_all"](self, data)

    def load_machine_vars(self, dm, current_time):
        load_times.append(current_time)
        return orig["load"](self, dm, current_time)

    use_cfg = bool(case.get("config_vars"))
    cfg = {"mpf": {"paths": {"machine_vars": path}}}
    if use_cfg:
        cfg["machine_vars"] = copy.deepcopy(_CFG_VARS)
    boots_ops = [[o for o in case.get("ops", []) if isinstance(o, dict) and "op" in o]]
    ops2 = [o for o in (case.get("ops2") or []) if isinstance(o, dict) and "op" in o]
    if case.get("third_boot") and not any(o.get("name") == "mv_trigger" for o in ops2):
        # legacy form: something else is saved during boot 2
        ops2 = ops2 + [{"op": "cfg", "name": "mv_trigger", "persist": True, "expire_secs": None},
                       {"op": "set", "name": "mv_trigger", "value": 1}, {"op": "adv", "dt": 2.5}]
    three = bool(case.get("third_boot")) or bool(case.get("ops2"))
    boots_ops.append(ops2)
    downtimes = [float(case.get("downtime", 0.0)), float(case.get("downtime2", 10.0))]
    shape_ops = ""

    def new_md(value=None, persist=False):
        return {"value": value, "persist": persist, "expire_secs": None, "expiry": None, "judged": False,
                "touched": False}

    def run_ops(vm, ops, model):
        """Generated operations of one power cycle; the reference model follows the documented meaning."""
        nonlocal shape_ops
        mvars = vm.machine.variables

        def now_ts():
            return vm.machine.clock.get_datetime().timestamp()
        for o in ops:
            k = o["op"]
            if k == "adv":
                dt = float(o.get("dt", 0))
                vm.advance(dt)
                sched.advance(dt)
                shape_ops += "a" + _bucket(dt)
            elif k == "cfg":
                name = o["name"]
                e = o.get("expire_secs")
                mvars.configure_machine_var(name, persist=bool(o.get("persist")), expire_secs=e)
                md = model.setdefault(name, new_md())
                md.update(persist=bool(o.get("persist")), expire_secs=e, expiry=(now_ts() + e) if e else None,
                          judged=False, touched=True)
                shape_ops += "c" + ("p" if o.get("persist") else "n") + ("e" if e else "")
            elif k in ("set", "reset"):
                name = o["name"]
                if k == "reset":
                    if not mvars.is_machine_var(name):
                        continue
                    val = copy.deepcopy(mvars.get_machine_var(name))       # set again to the SAME value
                    obs["mv_same_value_resets"] += 1
                else:
                    val = V.build(_no_sets(o.get("value")))
                md = model.setdefault(name, new_md())
                prev = mvars.get_machine_var(name)
                mvars.set_machine_var(name, copy.deepcopy(val))
                obs["mv_sets"] += 1
                changed = not V.loose_equal(prev, val)
                if isinstance(prev, (int, float)) and isinstance(val, (int, float)):
                    try:        # "change" of a number is documented as the amount of the change
                        changed = bool(val - prev)
                    except (OverflowError, TypeError):
                        pass
                md["value"] = val
                md["touched"] = True
                if md["expire_secs"]:
                    md["expiry"] = now_ts() + md["expire_secs"]
                if val is None:
                    md["judged"] = False        # None and "absent" are the same to get_machine_var
                elif md["persist"] and (changed or md["expire_secs"]):
                    md["judged"] = True
                shape_ops += "s" if k == "set" else "r"
        return now_ts()

    def settle_writers():
        t_end = sched.now + 200.0
        while not sched.all_done() and sched.now < t_end:
            sched.advance(0.5)
        return sched.all_done()

    def check_saved(boot_no, model, exited, final_gap):
        """-> last handed dict if the file is exactly the last save_all argument, else None (violation added)."""
        last = handed[-1]
        raw = V.read_file(path)
        clauses["reboot_file"] += 1
        okp, disk = (False, "missing") if raw is None else V.parse_bytes(raw)
        if not okp or not V.same(disk, last):
            older = okp and any(V.same(disk, h) for h in handed[:-1])
            sig = "C15:dirty_save_dropped_at_shutdown" if (exited and (older or raw is None)) else (
                "C15:machine_vars_file_not_as_saved")
            viol.append({"clause": "reboot_file", "sig": sig, "detail": {
                "boot": boot_no, "on_disk": V.short(disk, 400), "last_save_all": V.short(last, 400),
                "writers_exited": exited, "save_all_calls": len(handed), "on_disk_is_an_older_save": bool(older),
                "final_gap_s": final_gap, "threads": sched.describe()}})
            return None
        # ---- the persistent state the machine held is what was handed over (clear cases): value AND expire
        for name, md in model.items():
            if not md["judged"]:
                continue
            obs["model_judged_vars"] += 1
            clauses["reboot_saved_state"] += 1
            ent = last.get(name) if isinstance(last, dict) else None
            bad = None
            if not isinstance(ent, dict) or "value" not in ent:
                bad = "not in the saved data"
            elif not V.loose_equal(ent["value"], md["value"]):
                bad = "saved value differs"
            elif (md["expiry"] is None) != (not ent.get("expire")):
                bad = "expiry presence differs"
            elif md["expiry"] is not None and abs(ent["expire"] - md["expiry"]) > 1e-3:
                bad = "expiry time differs"
            if bad:
                sig = "C15:persistent_var_not_saved_as_set" if bad in ("not in the saved data", "saved value differs") \
                    else "C15:refreshed_expiry_not_saved"
                viol.append({"clause": "reboot_saved_state", "sig": sig, "detail": {
                    "boot": boot_no, "name": name, "problem": bad, "saved_entry": V.short(ent),
                    "in_memory_model": V.short({k: md[k] for k in ("value", "persist", "expire_secs", "expiry")}),
                    "meaning": "expiry = time of the last set + expire_secs"}})
        return last

    def check_reload(boot_no, mv, ct, last, prev_model):
        """Reload oracle of boot `boot_no` against the data boot_no-1 handed over (and its model's expiry)."""
        survivors = {}
        for name, ent in (last.items() if isinstance(last, dict) else []):
            if not isinstance(ent, dict) or "value" not in ent:
                continue
            exp = ent.get("expire")
            is_cfg = use_cfg and name in _CFG_VARS
            if exp and abs(exp - ct) <= 1e-3:
                obs["borderline_expiry_skipped"] += 1
                continue
            if exp and exp < ct:
                obs["expired_entries"] += 1
                clauses["reboot_expiry"] += 1
                if mv.is_machine_var(name) and not is_cfg and mv.get_machine_var(name) is not None:
                    viol.append({"clause": "reboot_expiry", "sig": "C15:expired_var_reloaded", "detail": {
                        "boot": boot_no, "name": name, "expire": exp, "boot_time": ct, "expired_for_s": ct - exp,
                        "reloaded_value": V.short(mv.get_machine_var(name))}})
                continue
            obs["unexpired_entries"] += 1
            clauses["reboot_equal"] += 1
            if exp:
                clauses["reboot_expiry"] += 1
            got = mv.get_machine_var(name)
            if not mv.is_machine_var(name) or not V.loose_equal(got, ent["value"]):
                sig = "C15:unexpired_var_dropped" if (exp and not mv.is_machine_var(name)) else \
                    "C15:persistent_var_not_reloaded_equal"
                viol.append({"clause": "reboot_equal", "sig": sig, "detail": {
                    "boot": boot_no, "name": name, "saved": V.short(ent), "reloaded": V.short(got),
                    "is_machine_var": mv.is_machine_var(name), "boot_time": ct, "expire": exp}})
            elif not exp and name not in _CFG_VARS:
                survivors[name] = ent["value"]
        # ---- the same against the REFRESHED expiry the machine held in memory (time of last set + expire_secs)
        for name, md in prev_model.items():
            if not md["judged"] or md["expiry"] is None or (use_cfg and name in _CFG_VARS):
                continue
            if abs(md["expiry"] - ct) <= 1e-3:
                obs["borderline_expiry_skipped"] += 1
                continue
            obs["model_expiry_reload_checks"] += 1
            clauses["reboot_expiry"] += 1
            present = mv.is_machine_var(name) and mv.get_machine_var(name) is not None
            if md["expiry"] < ct and present:
                viol.append({"clause": "reboot_expiry", "sig": "C15:var_reloaded_after_refreshed_expiry", "detail": {
                    "boot": boot_no, "name": name, "refreshed_expiry": md["expiry"], "boot_time": ct,
                    "expired_for_s": ct - md["expiry"], "reloaded_value": V.short(mv.get_machine_var(name)),
                    "file_entry": V.short(last.get(name) if isinstance(last, dict) else None)}})
            elif md["expiry"] > ct and (not present or not V.loose_equal(mv.get_machine_var(name), md["value"])):
                viol.append({"clause": "reboot_expiry", "sig": "C15:var_dropped_before_refreshed_expiry", "detail": {
                    "boot": boot_no, "name": name, "refreshed_expiry": md["expiry"], "boot_time": ct,
                    "remaining_s": md["expiry"] - ct, "reloaded_value": V.short(mv.get_machine_var(name)),
                    "file_entry": V.short(last.get(name) if isinstance(last, dict) else None)}})
        return survivors

    evaluated_boots = 0
    try:
        fresh_process_state(fm_mod, yi_mod)
        sched.install_shims([dm_mod, fm_mod, yi_mod])
        TestMachineController.create_data_manager = create_data_manager
        TestClock.get_datetime = get_datetime
        dm_mod.DataManager.save_all = save_all
        mv_mod.MachineVariables.load_machine_vars = load_machine_vars

        last, prev_model, survivors, end_ts = None, {}, {}, None
        n_boots = 3 if three else 2
        for boot_no in range(1, n_boots + 1):
            if boot_no > 1:
                ct1 = load_times[0]
                offset[0] = (end_ts - ct1) + downtimes[boot_no - 2]
                # MpfTestCase switches a load cache on (YamlInterface.cache = True, production default is False):
                # a reboot must read the file, not the cache
                yi_mod.YamlInterface.file_cache.pop(path, None)
            vm = VMachine(config=cfg)
            obs["boots"] += 1
            model = {}
            final_gap = None
            try:
                mvars = vm.machine.variables
                if boot_no > 1:
                    ct = load_times[-1]
                    new_surv = check_reload(boot_no, mvars, ct, last, prev_model)
                    if boot_no == 3:
                        # a variable that was persistent and reloaded stays persistent ("should be persisted
                        # again"): untouched during boot 2, it is still there after the next reboot
                        for name, val in survivors.items():
                            clauses["reboot_equal"] += 1
                            if not mvars.is_machine_var(name) or not V.loose_equal(mvars.get_machine_var(name), val):
                                viol.append({"clause": "reboot_equal", "sig": "C15:reloaded_var_no_longer_persistent",
                                             "detail": {"name": name, "value_after_boot_2": V.short(val),
                                                        "is_machine_var_after_boot_3": mvars.is_machine_var(name),
                                                        "value_after_boot_3": V.short(mvars.get_machine_var(name)),
                                                        "file_after_boot_2": V.short(last, 400)}})
                    survivors = new_surv
                    # what the machine holds after the load: reloaded variables are persistent, without expire_secs
                    for name, ent in (last.items() if isinstance(last, dict) else []):
                        if isinstance(ent, dict) and "value" in ent and mvars.is_machine_var(name):
                            per = _CFG_VARS[name]["persist"] if (use_cfg and name in _CFG_VARS) else True
                            model[name] = new_md(mvars.get_machine_var(name), per)
                if boot_no < 3:
                    sched.advance(0.0)
                    ops = boots_ops[boot_no - 1]
                    end_ts = run_ops(vm, ops, model)
                    if ops and ops[-1]["op"] == "adv":
                        final_gap = ops[-1].get("dt")
                    shape_ops += "|"
            finally:
                vm.close()                      # real _do_stop(): posts shutdown, sets thread_stopper
            exited = settle_writers()
            obs["mv_save_all_calls"] = len(handed)
            if boot_no == 3:
                break
            if not handed:
                return {"violations": [], "clauses": clauses, "obs": obs, "shape": "M|nosave|" + shape_ops,
                        "nontrivial": False}
            if any(v["sig"] != "C15:refreshed_expiry_not_saved" for v in viol):
                break
            last = check_saved(boot_no, model, exited, final_gap)
            if last is None:
                break
            evaluated_boots += 1
            survivors = {n: v for n, v in survivors.items() if not (n in model and model[n]["touched"])}
            prev_model = model
            if any(v["sig"] != "C15:refreshed_expiry_not_saved" for v in viol):
                break       # (a stale expiry on disk is followed into the next boot: does the variable outlive it?)
    except Inconclusive:
        obs["watchdog_inconclusive"] += 1
        return {"violations": [], "clauses": {}, "obs": obs, "shape": "M|inconclusive", "nontrivial": False}
    finally:
        TestMachineController.create_data_manager = orig["cdm"]
        TestClock.get_datetime = orig["gdt"]
        dm_mod.DataManager.save_all = orig["save_all"]
        mv_mod.MachineVariables.load_machine_vars = orig["load"]
        sched.teardown()
        fresh_process_state(fm_mod, yi_mod)
        yi_mod.YamlInterface.file_cache.pop(path, None)
        shutil.rmtree(root, ignore_errors=True)
    return {"violations": _uniq(viol), "clauses": clauses, "obs": obs,
            "shape": "M|%s|down=%s,%s|cfg=%d|b%d" % (shape_ops, _bucket(downtimes[0] / 100.0),
                                                     _bucket(downtimes[1] / 100.0), use_cfg, 3 if three else 2),
            "nontrivial": clauses["reboot_file"] > 0 and (clauses["reboot_equal"] > 0 or bool(viol))}


def _run_real(case):
    """Each real-time case runs in its own interpreter: writer threads that never exit (they are the finding
    D12 on an unfixed tree) must not leak into later cases of this worker."""
    import json
    import subprocess
    import sys
    from vlib import boot
    here = os.path.dirname(os.path.dirname(os.path.abspath(__file__)))
    env = dict(os.environ, PYTHONPATH=os.pathsep.join([boot.tree_root(), here]), VERIF_TREE=boot.tree_root(),
               PYTHONDONTWRITEBYTECODE="1", PYTHONHASHSEED="0")
    code = ("import sys, json, os; from vlib import boot; boot.guard_import(); import checks.c15_persist as C; "
            "r = C._run_real_inproc(json.loads(sys.stdin.read())); sys.stdout.write('\\n' + json.dumps(r) + '\\n'); "
            "sys.stdout.flush(); os._exit(0)")
    try:
        p = subprocess.run([sys.executable, "-c", code], input=json.dumps(case).encode(), cwd=here, env=env,
                           stdout=subprocess.PIPE, stderr=subprocess.PIPE, timeout=100)
    except subprocess.TimeoutExpired:
        return {"violations": [], "clauses": {}, "obs": {"real_cases": 1, "real_inconclusive": 1},
                "shape": "R|timeout", "nontrivial": False, "trace": ["real-mode child exceeded 100 s wall"]}
    lines = [l for l in p.stdout.decode(errors="replace").splitlines() if l.startswith("{")]
    if p.returncode != 0 or not lines:
        raise RuntimeError("real-mode child failed rc=%s: %s" % (p.returncode, p.stderr.decode(errors="replace")[-1500:]))
    return json.loads(lines[-1])


def _run_real_inproc(case):
    """Nothing virtual: real threads, real time.sleep, real GIL preemption.  Wall-clock only ever yields
    'inconclusive'; verdicts are taken only once every writer thread has EXITED (quiescence)."""
    import copy
    import shutil
    import sys
    import tempfile
    import threading
    import time
    from vlib import c15_values as V
    from vlib.c15_engine import stub_machine, History
    from mpf.core import data_manager as dm_mod, file_manager as fm_mod

    n = max(1, int(case.get("n", 2)))
    mw = float(case.get("mw", 0.05))
    ops = [o for o in case.get("ops", []) if isinstance(o, dict)]
    clauses = {"history": 0, "shutdown_durability": 0}
    obs = {"real_cases": 1, "real_inconclusive": 0, "real_watcher_reads": 0, "real_failed_writes": 0,
           "real_writer_died": 0, "real_max_concurrent_saves": 0, "real_writes": 0, "real_type_only_changes": 0}
    viol = []
    root = tempfile.mkdtemp(prefix="c15-r-")
    stopper = threading.Event()
    machine = stub_machine(root, ["dm%d" % i for i in range(n)], stopper)
    FM = fm_mod.FileManager
    orig_save_desc = FM.__dict__["save"]
    orig_save = FM.save
    orig_wt = dm_mod.DataManager.__dict__["_writing_thread"]
    lock = threading.Lock()
    st = {"inflight": 0, "max": 0, "calls": 0, "fail": [], "exited": {}, "died": {}}

    def save(filename, data):
        with lock:
            st["inflight"] += 1
            st["calls"] += 1
            st["max"] = max(st["max"], st["inflight"])
        try:
            return orig_save(filename, data)
        except Exception as e:
            with lock:
                st["fail"].append((os.path.basename(filename), repr(e)[:200]))
            raise
        finally:
            with lock:
                st["inflight"] -= 1

    def writing_thread(self):
        try:
            return orig_wt(self)
        except BaseException as e:    # the writer thread died
            st["died"][self.name] = repr(e)[:300]
            raise
        finally:
            st["exited"][self.name] = True

    old_switch = sys.getswitchinterval()
    managers, hist = [], []
    stop_watch = threading.Event()
    seen = [[] for _ in range(n)]        # per manager: distinct consecutive raw contents observed by the watcher

    def watcher():
        last = [b"\0"] * n
        while not stop_watch.is_set():
            for i in range(n):
                raw = V.read_file(hist[i].path)
                obs["real_watcher_reads"] += 1
                if raw != last[i]:
                    last[i] = raw
                    if len(seen[i]) < 4000:
                        seen[i].append(raw)
            time.sleep(0.0002)

    inconclusive = None
    try:
        FM.is_busy = False
        FM.init()
        FM.save = staticmethod(save)
        dm_mod.DataManager._writing_thread = writing_thread
        sys.setswitchinterval(max(5e-6, float(case.get("switch_us", 5000)) * 1e-6))
        os.makedirs(os.path.join(root, "data"), exist_ok=True)
        for i in range(n):
            hist.append(History(os.path.join(root, "data", "dm%d.yaml" % i)))
        for i in range(n):
            managers.append(dm_mod.DataManager(machine, "dm%d" % i, min_wait_secs=mw))
        wt = threading.Thread(target=watcher, daemon=True)
        wt.start()
        time.sleep(mw * 1.5 + 0.02)
        next_v = 1
        last_saved = {}
        aliased = set()          # managers whose dict was ever mutated in place (snapshot tolerance)
        last_alias = set()       # ... and whose LAST save was such a mutation
        for o in ops:
            time.sleep(max(0.0, min(3.0, float(o.get("gap", 0)))))
            body = V.build(o.get("body", {}))
            for m in o.get("ms", [0]):
                m = int(m) % n
                if o.get("kind") in ("resave", "typeswap"):
                    rank = last_saved.get(m)
                    if rank is None or m in last_alias:
                        continue
                    data = copy.deepcopy(hist[m].versions[rank])
                    if o["kind"] == "typeswap":
                        if rank[1] >= 2:
                            continue
                        data = V.type_variant(data)
                        rank = (rank[0], rank[1] + 1)
                        hist[m].versions[rank] = copy.deepcopy(data)
                        last_saved[m] = rank
                        obs["real_type_only_changes"] += 1
                    managers[m].save_all(data)
                    continue
                v = next_v
                next_v += 1
                if o.get("alias") and m in last_saved and isinstance(managers[m].data, dict):
                    data = managers[m].data         # the caller mutates the dict it handed over earlier, then re-saves
                    aliased.add(m)
                    last_alias.add(m)
                    final = dict(body, _v=v, _m=m, _t=1)
                    hist[m].versions[(v, 0)] = copy.deepcopy(final)
                    for k in [k for k in list(data) if k not in final]:
                        del data[k]
                    data.update(final)
                else:
                    data = dict(body, _v=v, _m=m, _t=1)
                    hist[m].versions[(v, 0)] = copy.deepcopy(data)
                    last_alias.discard(m)
                last_saved[m] = (v, 0)
                managers[m].save_all(data)
        time.sleep(max(0.0, min(3.0, float(case.get("stop_gap", 0)))))
        stopper.set()
        # ---- quiescence = every writer thread exited; wall-clock watchdog => inconclusive
        t_end = time.monotonic() + 30.0
        stuck_since = None
        while len(st["exited"]) < n:
            if time.monotonic() > t_end:
                inconclusive = "watchdog: writer threads did not exit within 30 s wall"
                break
            if getattr(FM, "is_busy", False) and st["inflight"] == 0:
                stuck_since = stuck_since or time.monotonic()
                if time.monotonic() - stuck_since > 4.0:
                    inconclusive = ("writers spin on FileManager.is_busy with nobody inside FileManager.save "
                                    "(failed writes: %d, max concurrent saves: %d): no quiescence" % (
                                        len(st["fail"]), st["max"]))
                    break
            else:
                stuck_since = None
            time.sleep(0.01)
        time.sleep(0.01)
        stop_watch.set()
        wt.join(5)
        obs["real_failed_writes"] = len(st["fail"])
        obs["real_writer_died"] = len(st["died"])
        obs["real_max_concurrent_saves"] = st["max"]
        obs["real_writes"] = st["calls"]
        # ---- history (offline over what the watcher saw)
        for i in range(n):
            h = hist[i]
            lastv = (-1, 0)
            for raw in seen[i]:
                if raw is None:
                    continue
                clauses["history"] += 1
                v, sig, detail = h.classify(raw)
                if i in aliased and sig and not detail.get("error"):
                    # the caller was mutating the dict it had handed over while the writer thread copied it: the
                    # statement is silent about such snapshots.  Only "is a complete YAML document" is judged
                    # (plus monotony when the version key made it into the snapshot).
                    sig = None
                if sig:
                    if st["max"] >= 2:      # two saves were inside FileManager.save at once: name the mechanism
                        detail, sig = dict(detail, observed=sig, max_concurrent_saves=st["max"],
                                           failed_writes=st["fail"][:3]), "C15:is_busy_race_concurrent_dumps"
                    viol.append({"clause": "history", "sig": sig, "detail": dict(detail, manager=i, mode="real")})
                    continue
                if v is not None:
                    if v < lastv:
                        viol.append({"clause": "history", "sig": "C15:target_version_went_backwards",
                                     "detail": {"from": lastv, "to": v, "manager": i, "mode": "real"}})
                    lastv = max(lastv, v)
        if inconclusive is None:
            for m, lv in sorted(last_saved.items()):
                clauses["shutdown_durability"] += 1
                raw = V.read_file(hist[m].path)
                v, sig, detail = hist[m].classify(raw)
                if v != lv or sig:
                    name = "dm%d" % m
                    if v and v[0] == lv[0] and v[1] < lv[1]:
                        s2 = "C15:type_only_change_not_written"
                    elif name in st["died"]:
                        s2 = "C15:writer_thread_died"
                    elif st["fail"]:
                        s2 = "C15:is_busy_race_concurrent_dumps" if st["max"] >= 2 else \
                            "C15:save_lost_to_spontaneous_write_error"
                    else:
                        s2 = "C15:dirty_save_dropped_at_shutdown"
                    viol.append({"clause": "shutdown_durability", "sig": s2, "detail": {
                        "mode": "real", "manager": m, "min_wait_secs": mw, "last_saved_version": lv, "on_disk_version": v,
                        "on_disk_problem": sig, "failed_writes": st["fail"][:4], "died": st["died"],
                        "max_concurrent_saves": st["max"], "stop_gap": case.get("stop_gap")}})
        else:
            obs["real_inconclusive"] += 1
    finally:
        stop_watch.set()
        stopper.set()
        sys.setswitchinterval(old_switch)
        FM.save = orig_save_desc
        dm_mod.DataManager._writing_thread = orig_wt
        if inconclusive is None:
            FM.is_busy = False
        shutil.rmtree(root, ignore_errors=True)
    if inconclusive is not None:
        # threads that still spin would disturb later cases of this worker only through FileManager.is_busy,
        # which every case resets; they are daemon threads and die with the worker
        FM.is_busy = False
    return {"violations": _uniq(viol), "clauses": clauses, "obs": obs,
            "shape": "R|n%d|mw%s|ops%d|sw%s|%s" % (n, _bucket(mw), len(ops), case.get("switch_us"),
                                                 "inconclusive" if inconclusive else "ok"),
            "nontrivial": inconclusive is None and clauses["shutdown_durability"] > 0 and clauses["history"] > 0,
            "trace": [inconclusive] if inconclusive else []}
