"""C16 — Templates evaluate like Python and never act on stale values.

Two case kinds, both on a real machine (VMachine, virtual time):

* kind "eval": a batch of generated expressions of the supported grammar is evaluated by the real templates
  (RawTemplate/BoolTemplate/typed templates .evaluate, .evaluate_and_subscribe, and a conditional event handler
  dispatched by the real EventManager) and by Python itself (vlib.c16_ref) over mirror objects that read the same
  machine/player/settings/device state directly.  Oracle: equality of value AND type, the template default for missing
  variables and operator TypeErrors.
* kind "sub": templates are evaluated with subscription, then a generated history of changes (machine vars incl.
  removal, settings, player vars incl. None, game/turn/mode life cycle, counters, accrual, switch, timer, playfield
  balls, flipper) is applied.  After every change and a settle, a template whose reference value really changed must
  have had its future completed (else: stale).  Two condition-driven light_player entries are checked end to end
  (light lit iff the condition is true now).
"""
PROPERTY = "C16"
LEVEL = "exploration"
LEVEL_TEXT = ("Exploration: tens of thousands of generated expressions (differential against Python's own evaluation) "
              "and thousands of generated change histories on the real PlaceholderManager/EventManager/Player/"
              "MachineVariables/DeviceMonitor classes. The expression and history spaces are unbounded, so seeded "
              "sampling with a grammar that covers every operator-table entry is the level this family reaches.")
LEVEL_NOTE = ("Trusts CPython's ast/compile/eval as the reference semantics, three small shims in vlib/c16_ref.py "
              "(all-operand and/or, size guards for ** and *, tagging of [] lookup errors) and the mirror objects that "
              "read machine_vars / player.vars / device attributes directly. Staleness is only flagged when the reference "
              "value AND mpf's own fresh evaluate() both differ from what was delivered (harmful staleness).")
TECHNIQUE = ("runtime monitoring: differential oracle at BaseTemplate.evaluate / evaluate_and_subscribe and at conditional "
             "handler dispatch; freshness oracle on the returned subscription future and on a condition-driven light_player")
RULE = ("case = one booted machine + either ~130 generated expressions x 2 parameter environments (kind eval) or ~12 "
        "subscribed templates + 2 light_player conditions x a 30-60 step change history (kind sub); distinct = set of "
        "grammar features + parameter type signature (eval) or op-kind sequence + template features (sub); non-trivial = "
        "at least one differential evaluation (eval) or at least one really-changed-value freshness decision (sub)")
ASSUMPTIONS = [
    "grammar: + - * / // % ** ^, unary minus, not, the six single comparisons, and/or with 2-4 operands, if-else, tuples, "
    "literal and computed index, attribute/item access on machine, settings, current_player, players[i], device.<coll>.<dev>; "
    "chained comparisons, unary plus, slices, `in`, mode.* / game.* / machine.time are not generated",
    "a template whose Python value is None may return None or its default (the code maps None to the default by design)",
    "where Python raises something other than NameError or an operator TypeError (ZeroDivisionError, OverflowError, "
    "IndexError/KeyError/TypeError of []), the template may return its default or raise; only a returned value is flagged",
    "evaluate_and_subscribe with a parameter name that does not exist at all may raise (deliberate config-error path); "
    "a player/machine/device value that is merely absent (no game, no such player) must give the default",
    "operands are bounded (** exponents <= 64, sequence repetition <= 2000); larger ones are skipped, not judged",
    "freshness: only harmful staleness is flagged (reference value changed under != AND mpf's fresh evaluate() differs "
    "from the delivered value AND the future is not done after the settle + 6 extra loop iterations); spurious "
    "notifications are accepted; a change to an equal value of another type (1 -> True -> 1.0) is not a change, and a "
    "staleness that exists only because of such a replacement (decided by re-evaluating the reference with these "
    "replacements undone) is not flagged",
    "change histories include magnitude bursts: a player or machine variable is set to a value of extreme magnitude "
    "(1e9..2.5e15 ints/floats, negative, 1e-9/1e-3 floats) and then moved by steps <= 1e-9 of that magnitude "
    "(add_pv/add_mv); every such step that changes the reference value is a freshness decision (clause fresh_tiny_step); "
    "templates whose operands become too large to evaluate (** / * guards) are not subscribed until that changes",
    "values are int/float/bool/str/None as the property quantifies; list/dict valued player or machine variables are "
    "not generated (the accrual's list-valued `value` is read through a literal index only)",
    "device attributes covered: counter value/enabled/completed (system-wide, mode, persisted), accrual value[i], switch "
    "state, timer ticks/running, playfield balls/available_balls, flipper enabled; shots, ball devices, other devices are not",
    "light_player end-to-end conditions use attribute access, comparisons, and/or/not and if-else only; the same two "
    "condition texts are configured machine-wide, in game mode m1 and in free-standing mode m2 on different lights; a "
    "mode's entries are judged only while the mode is fully up (active, not starting, not stopping) - what a stopped "
    "mode leaves behind belongs to C07",
]
HORIZONS = {"settle_min_s": 0.013, "settle_max_s": 2.21, "extra_loop_iterations": 6}
TIERS = {
    "quick": {"cases": 544, "batch": 17, "case_timeout": 90},
    "thorough": {"cases": 32000, "batch": 100, "case_timeout": 120},
}
MIN_EVALS = {
    "quick": {"eval": 40000, "eval_bool": 40000, "sub_value": 15000, "cond_handler": 4000, "cond_chain": 1000, "fresh": 1500,
              "fresh_tiny_step": 100, "player_e2e": 8000, "player_e2e_shared_condition": 5000},
    "thorough": {"eval": 2000000, "eval_bool": 2000000, "sub_value": 800000, "cond_handler": 200000, "fresh": 90000,
                 "fresh_tiny_step": 6000, "player_e2e": 400000, "player_e2e_shared_condition": 250000},
}


class _ShrinkKeys(list):
    """List-valued case keys the generic shrinker may drop elements from.

    The worker shrinks EVERY violating case (up to 20 s each).  While several genuine defects are unrepaired nearly every
    case violates, which would turn the quick tier into minutes; so only the first few shrink requests of a worker
    process are honoured (the aggregator keeps the smallest case per signature anyway, and every violation detail
    already names the exact expression / condition, environment and the operations since the last notification).
    """

    budget = int(__import__("os").environ.get("C16_SHRINKS_PER_WORKER", "2"))

    def __iter__(self):
        if _ShrinkKeys.budget <= 0:
            return iter(())
        _ShrinkKeys.budget -= 1
        return super().__iter__()


SHRINK_KEYS = _ShrinkKeys(["exprs", "templates", "ops"])

N_EXPR = 130

# signatures of mechanisms already understood (ordering only: unknown ones are reported first)
_KNOWN_ORDER = (
    "C16:tuple_wrong_value", "C16:computed_index_unsupported", "C16:unary_minus_raises_instead_of_default",
    "C16:item_read_not_subscribed", "C16:item_read_subscribe_raises", "C16:machine_var_removed_not_notified",
    "C16:player_var_none_not_notified", "C16:logic_block_state_swap_not_notified",
    "C16:accrual_inplace_change_not_notified", "C16:current_player_not_notified_at_game_end",
    "C16:if_branch_error_drops_test_subscription",
)


# ======================================================================================================================
# generation
def _gen_env(rng):
    from vlib import c16_ref as R
    env = {}
    for p in R.PARAMS:
        env[p] = R.rand_value(rng, "iiiffbbssn")
    if rng.random() < 0.3:      # a homogeneous numeric environment exercises arithmetic deeply
        for p in R.PARAMS:
            env[p] = R.rand_value(rng, "iiif")
    return env


def _gen_prep(rng):
    """State the expressions are evaluated in."""
    from vlib import c16_ref as R
    ops = []
    for name in R.MVARS:
        if rng.random() < 0.7:
            ops.append(["set_mv", name, R.rand_value(rng)])
    if rng.random() < 0.5:
        ops.append(["set_setting", "st0", rng.choice([1, 2, 3])])
    if rng.random() < 0.5:
        ops.append(["set_setting", "st1", rng.choice([0, 5])])
    players = rng.choice([0, 1, 1, 2, 2, 3])
    if players:
        ops.append(["start_game"])
        for _ in range(players - 1):
            ops.append(["add_player"])
        for i in range(players):
            for name in R.PVARS:
                if rng.random() < 0.6:
                    ops.append(["set_pv", i, name, R.rand_value(rng, "iiifbssn")])
        if rng.random() < 0.7:
            ops.append(["post", "m1_start"])
            for _ in range(rng.randint(0, 4)):
                ops.append(["post", rng.choice(["c1_count", "c2_count", "a1_e0", "a1_e1", "a1_e2"])])
            if rng.random() < 0.3:
                ops.append(["wait", 2.3])
        if players > 1 and rng.random() < 0.4:
            ops.append(["drain"])
    for _ in range(rng.randint(0, 3)):
        ops.append(["post", rng.choice(["cg_count", "cg_disable", "cg_enable"])])
    if rng.random() < 0.4:
        ops.append(["switch", "s1", 1])
    return ops


_LIFE = [["start_game"], ["add_player"], ["drain"], ["stop_game"], ["post", "m1_start"], ["post", "m1_stop"],
         ["post", "m2_start"], ["post", "m2_start"], ["post", "m2_stop"]]
_POSTS = ["c1_count", "c2_count", "cg_count", "cg_reset", "c1_reset", "cg_enable", "cg_disable", "a1_e0", "a1_e1",
          "a1_e2", "a1_reset"]


def _gen_ops(rng, n):
    """Change history.  A rough model of the game state keeps most operations applicable (the run skips the rest)."""
    from vlib import c16_ref as R
    ops = []
    st = {"game": False, "players": 0, "drains": 0, "mode": False}

    def life(op):
        k = op[0]
        if k == "start_game" and not st["game"]:
            st.update(game=True, players=1, drains=0, mode=False)
        elif k == "add_player" and st["game"] and st["drains"] == 0 and st["players"] < 4:
            st["players"] += 1
        elif k == "drain" and st["game"]:
            st["drains"] += 1
            st["mode"] = False
            if st["drains"] >= 3 * st["players"]:
                st.update(game=False, players=0)
        elif k == "stop_game":
            st.update(game=False, players=0, mode=False)
        elif k == "post" and op[1] == "m1_start" and st["game"]:
            st["mode"] = True
        elif k == "post" and op[1] == "m1_stop":
            st["mode"] = False
        ops.append(op)

    def burst():
        """A variable takes a value of extreme magnitude and then moves by steps that are tiny relative to it."""
        base, steps = rng.choice(R.MAGNITUDES)
        if st["game"] and rng.random() < 0.65:
            who, var = rng.choice(["cur", "cur", 0, 1]), rng.choice(R.PVARS)
            ops.append(["set_pv", who, var, base])
            for _ in range(rng.randint(2, 4)):
                if rng.random() < 0.3:
                    ops.append(["post", rng.choice(_POSTS)])
                ops.append(["add_pv", who, var, rng.choice(steps)])
        else:
            var = rng.choice(R.MVARS)
            ops.append(["set_mv", var, base])
            for _ in range(rng.randint(2, 4)):
                if rng.random() < 0.3:
                    ops.append(["set_setting", "st0", rng.choice([1, 2, 3])])
                ops.append(["add_mv", var, rng.choice(steps)])

    while len(ops) < n:
        x = rng.random()
        if rng.random() < 0.045:
            burst()
        elif not st["game"] and x < 0.30:
            life(["start_game"])
        elif st["game"] and not st["mode"] and x < 0.25:
            life(["post", "m1_start"])
        elif x < 0.40:
            ops.append(["set_mv", rng.choice(R.MVARS), R.rand_value(rng)])
        elif x < 0.45:
            ops.append(["remove_mv", rng.choice(R.MVARS)])
        elif x < 0.51:
            s = rng.choice(R.SETTINGS)
            ops.append(["set_setting", s, rng.choice([1, 2, 3] if s == "st0" else [0, 5])])
        elif x < 0.66:
            who = rng.choice(["cur", "cur", 0, 1, 2])
            if rng.random() < 0.25:
                ops.append(["add_pv", who, rng.choice(["pv0", "pv2"]), rng.choice([1, 2, -1, 10])])
            else:
                ops.append(["set_pv", who, rng.choice(R.PVARS), R.rand_value(rng, "iiifbssnn")])
        elif x < 0.76:
            life(list(rng.choice(_LIFE)))
        elif x < 0.90:
            ops.append(["post", rng.choice(_POSTS)])
        elif x < 0.94:
            ops.append(["switch", "s1", rng.choice([0, 1])])
        elif x < 0.97:
            ops.append(["flipper", rng.choice(["enable", "disable"])])
        else:
            ops.append(["wait", rng.choice([0.6, 1.3, 2.7])])
    for op in ops:
        op.append(rng.choice([0.013, 0.013, 0.37, 2.21]))     # settle time after the op
    return ops


def _gen_cond(rng, depth=0):
    """Small safe condition for the end-to-end light_player entries (attribute access only)."""
    import ast
    from vlib import c16_ref as R
    x = rng.random()
    if depth >= 2 or x < 0.55:
        leaf = R.placeholder_leaf(rng, p_item=0.0, allow_missing=False,
                                  kinds=["machine", "machine", "settings", "current_player", "players", "device", "device"])
        while "accruals" in ast.unparse(leaf):
            leaf = R.placeholder_leaf(rng, p_item=0.0, allow_missing=False)
        y = rng.random()
        if y < 0.2:
            return leaf
        lit = rng.choice([0, 1, 2, 3, 5, True, False, None, "a", 1.5])
        if rng.random() < 0.15:
            lit = rng.choice(R.BIG_THRESHOLDS)      # crossed only by the tiny steps of a magnitude burst
        lit = R._const(lit)
        return ast.Compare(left=leaf, ops=[rng.choice(R.CMPOPS)()], comparators=[lit])
    if x < 0.85:
        return ast.BoolOp(op=rng.choice([ast.And, ast.Or])(),
                          values=[_gen_cond(rng, depth + 1) for _ in range(rng.choice([2, 2, 3]))])
    if x < 0.93:
        return ast.UnaryOp(op=ast.Not(), operand=_gen_cond(rng, depth + 1))
    return ast.IfExp(test=_gen_cond(rng, depth + 1), body=_gen_cond(rng, depth + 1), orelse=_gen_cond(rng, depth + 1))


def gen_case(rng, tier, index):
    import ast
    from vlib import c16_ref as R
    if index % 2 == 0:
        g = R.Gen(rng)
        exprs = []
        for i in range(N_EXPR):
            if i % 3 == 0:
                g.p_placeholder = 0.45
            else:
                g.p_placeholder = 0.12
            exprs.append(g.source(rng.choice([2, 3, 4, 6, 8, 12, 18, 25])))
        return {"kind": "eval", "prep": _gen_prep(rng), "exprs": exprs, "envs": [_gen_env(rng), _gen_env(rng)]}
    g = R.Gen(rng, p_placeholder=0.6, p_item=0.2, p_tuple=0.04, p_computed_index=0.0, p_missing=0.0, params=False)
    templates = []
    while len(templates) < 12:
        src = g.source(rng.choice([1, 2, 3, 4, 6, 9]))
        if R.placeholder_leaves(src):
            templates.append(src)
    conds = [ast.unparse(ast.fix_missing_locations(ast.Expression(body=_gen_cond(rng)))) for _ in range(2)]
    return {"kind": "sub", "templates": templates, "conds": conds, "ops": _gen_ops(rng, rng.randint(30, 60))}


# ======================================================================================================================
# machine under test
def _config(conds=()):
    cfg = {
        "modes": ["m1", "m2"],
        "machine_vars": {"mv0": {"initial_value": 5, "value_type": "int"},
                         "mv1": {"initial_value": "a", "value_type": "str"}},
        "player_vars": {"pv0": {"initial_value": 0, "value_type": "int"},
                        "pv1": {"initial_value": "a", "value_type": "str"}},
        "settings": {"st0": {"label": "x", "values": {1: "one", 2: "two", 3: "three"}, "default": 1,
                             "key_type": "int", "sort": 1},
                     "st1": {"label": "y", "values": {0: "no", 5: "five"}, "default": 5, "key_type": "int",
                             "sort": 2, "machine_var": "st1_store"}},
        "counters": {"cg": {"count_events": "cg_count", "starting_count": 0, "reset_events": "cg_reset",
                            "enable_events": "cg_enable", "disable_events": "cg_disable", "start_enabled": True}},
        "switches": {"s1": {"number": "1"}, "s_flip": {"number": "2"}},
        "coils": {"c_flip": {"number": "1", "default_pulse_ms": 10, "allow_enable": True}},
        "flippers": {"f1": {"main_coil": "c_flip", "activation_switch": "s_flip"}},
        "lights": {"l%d" % i: {"number": str(3 * i), "subtype": "led", "type": "rgb"} for i in range(6)},
    }
    if conds:
        cfg["light_player"] = {"{%s}" % c: {"l%d" % i: "red"} for i, c in enumerate(conds)}
    return cfg


def _modes(conds=()):
    """m1 (game mode) and m2 (free-standing mode).  Both repeat the machine-wide light_player conditions - the very same
    condition text - on lights of their own, so one condition is active in up to three contexts of one config player."""
    import copy
    modes = copy.deepcopy(_MODES)
    if conds:
        for k, name in enumerate(("m1", "m2")):
            modes[name]["light_player"] = {"{%s}" % c: {"l%d" % (2 * (k + 1) + i): "red"} for i, c in enumerate(conds)}
    return modes


# context name, first light
_CONTEXTS = (("_global", 0), ("m1", 2), ("m2", 4))

_MODES = {"m2": {"mode": {"start_events": "m2_start", "stop_events": "m2_stop", "game_mode": False}}, "m1": {
    "mode": {"start_events": "m1_start", "stop_events": "m1_stop", "game_mode": True},
    "counters": {"c1": {"count_events": "c1_count", "starting_count": 0, "persist_state": True,
                        "reset_events": "c1_reset"},
                 "c2": {"count_events": "c2_count", "starting_count": 3, "persist_state": False,
                        "count_complete_value": 5, "direction": "up"}},
    "accruals": {"a1": {"events": ["a1_e0", "a1_e1", "a1_e2"], "reset_events": "a1_reset"}},
    "timers": {"t1": {"start_value": 0, "end_value": 100000, "start_running": True, "tick_interval": "1s"}},
}}


class _Mirrors:
    """Plain objects that read the state the placeholders expose, by a path of their own."""

    def __init__(self, machine):
        from vlib import c16_ref as R
        m = machine
        missing = R.RefMissing
        real_attr = {(c, d, a): r for c, d, a, r in R.DEVICE_ATTRS}
        reads = self.reads = set()
        override = self.override = {}       # key -> value, used for counterfactual evaluations only

        class Machine:
            def __getattr__(self, n):
                reads.add(("machine", n))
                if ("machine", n) in override:
                    return override[("machine", n)]
                e = m.variables.machine_vars.get(n)
                return e["value"] if e is not None else None
            __getitem__ = __getattr__

        class Settings:
            def __getattr__(self, n):
                reads.add(("settings", n))
                if ("settings", n) in override:
                    return override[("settings", n)]
                entry = m.settings._settings[n]
                e = m.variables.machine_vars.get(entry.machine_var)
                v = e["value"] if e is not None else entry.default
                return v if v in entry.values else entry.default

        class Player:
            def __init__(self, idx):
                self.__dict__["_idx"] = idx

            def __getattr__(self, n):
                key = ("current_player", n) if self._idx is None else ("players", self._idx, n)
                reads.add(key)
                if key in override:
                    return override[key]
                game = m.game
                if not game or not game.player:
                    raise missing("not in a game")
                if self._idx is None:
                    p = game.player
                else:
                    if self._idx >= len(game.player_list):
                        raise missing("no such player")
                    p = game.player_list[self._idx]
                return p.vars.get(n, 0)
            __getitem__ = __getattr__

        class Players:
            def __getitem__(self, i):
                return Player(i)

        class Dev:
            def __init__(self, path):
                self.__dict__["_path"] = path

            def __getattr__(self, n):
                path = self._path + (n,)
                if len(path) < 3:
                    return Dev(path)
                reads.add(("device",) + path)
                if ("device",) + path in override:
                    return override[("device",) + path]
                dev = getattr(m, path[0])[path[1]]
                v = getattr(dev, real_attr[path])
                return list(v) if isinstance(v, list) else v
            __getitem__ = __getattr__

        self.ns = {"machine": Machine(), "settings": Settings(), "current_player": Player(None),
                   "players": Players(), "device": Dev(())}

    def read_key(self, key):
        """-> ('v', raw value) or ('missing',) for a leaf key as produced by c16_ref.placeholder_leaves."""
        from vlib import c16_ref as R
        try:
            if key[0] == "players":
                return ("v", getattr(self.ns["players"][key[1]], key[2]))
            obj = self.ns[key[0]]
            for part in key[1:]:
                obj = getattr(obj, part)
            return ("v", obj)
        except R.RefMissing:
            return ("missing",)

    def type_only_changes(self, before, leaves):
        """Leaf keys whose value was replaced by an equal one of another type (1 -> True -> 1.0): {key: old value}."""
        from vlib import c16_ref as R
        out = {}
        for leaf in leaves:
            old, new = before.get(leaf[3]), self.read_key(leaf[3])
            if old and old[0] == "v" and new[0] == "v" and not R.differs(old[1], new[1]) and not R.same(old[1], new[1]):
                out[leaf[3]] = old[1]
        return out


class _World:
    """Applies generated operations to the real machine through its public entry points."""

    def __init__(self, vm, obs):
        self.vm = vm
        self.m = vm.machine
        self.obs = obs

    def _player(self, who):
        g = self.m.game
        if not g or not g.player:
            return None
        if who == "cur":
            return g.player
        return g.player_list[who] if who < len(g.player_list) else None

    def apply(self, op):
        """Returns True when the operation was applicable and performed."""
        m, t = self.m, self.vm.t
        k = op[0]
        self.tiny_step = False
        if k == "set_mv":
            m.variables.set_machine_var(op[1], op[2])
        elif k == "remove_mv":
            if not m.variables.is_machine_var(op[1]):
                return False
            m.variables.remove_machine_var(op[1])
        elif k == "set_setting":
            m.settings.set_setting_value(op[1], op[2])
        elif k == "start_game":
            if m.game:
                return False
            t.start_game()
        elif k == "add_player":
            if not m.game or not m.game.player or m.game.player.ball != 1 or m.game.num_players >= 4:
                return False
            t.hit_and_release_switch("s_start")
            self.vm.advance(1)
        elif k == "drain":
            if not m.game or m.game.balls_in_play <= 0:
                return False
            t.drain_all_balls()
        elif k == "stop_game":
            if not m.game:
                return False
            t.stop_game()
        elif k == "add_mv":
            cur = m.variables.get_machine_var(op[1])
            if isinstance(cur, bool) or not isinstance(cur, (int, float)) or cur + op[2] == cur:
                return False
            self.tiny_step = abs(op[2]) <= 1e-9 * abs(cur + op[2])
            m.variables.set_machine_var(op[1], cur + op[2])
        elif k in ("set_pv", "add_pv"):
            p = self._player(op[1])
            if p is None:
                return False
            if k == "set_pv":
                setattr(p, op[2], op[3])
            else:
                cur = p.vars.get(op[2], 0)
                if isinstance(cur, bool) or not isinstance(cur, (int, float)) or cur + op[3] == cur:
                    return False
                self.tiny_step = abs(op[3]) <= 1e-9 * abs(cur + op[3])
                setattr(p, op[2], cur + op[3])
        elif k == "post":
            m.events.post(op[1])
        elif k == "switch":
            t.hit_switch_and_run(op[1], 0) if op[2] else t.release_switch_and_run(op[1], 0)
        elif k == "flipper":
            getattr(m.flippers["f1"], op[1])()
        elif k == "wait":
            self.vm.advance(op[1])
        else:
            return False
        return True

    def settle(self, secs):
        self.vm.advance(secs)
        for _ in range(6):
            self.vm.advance(0)


def _op_settle(op):
    return op[-1] if isinstance(op[-1], float) else 0.013


# ======================================================================================================================
# oracle helpers
class _Sentinel:
    def __repr__(self):
        return "<DEFAULT>"


def _call(fn, *args):
    try:
        return "value", fn(*args)
    except BaseException as e:     # noqa
        if isinstance(e, (KeyboardInterrupt, SystemExit)) or type(e).__name__ == "CaseTimeout":
            raise
        chain = []
        x = e
        while x is not None and len(chain) < 4:
            chain.append(type(x).__name__)
            x = x.__cause__ or x.__context__
        return "raise", "%s: %s [%s]" % (type(e).__name__, str(e)[:160], ">".join(chain))


def _judge(ref_kind, ref_val, got, default, conv=None, subscribe=False):
    """Compare one template outcome with the reference.  -> None (ok) or failure kind."""
    from vlib import c16_ref as R
    how, val = got
    if ref_kind == R.VALUE:
        if how == "raise":
            return "raises_where_python_has_value"
        if ref_val is None:
            return None if (val is default or val is None or (conv is not None and R.same(val, default))) \
                else "wrong_value"
        exp = conv(ref_val) if conv else ref_val
        if R.same(val, exp):
            return None
        return "default_instead_of_value" if val is default else "wrong_value"
    if ref_kind == "noname":
        if how == "raise":
            return None if subscribe else "missing_variable_raises"
        return None if (val is default or (conv is not None and R.same(val, default))) else "value_for_missing_variable"
    if ref_kind == R.MISSING:
        if how == "raise":
            return "missing_variable_raises"
        return None if (val is default or (conv is not None and R.same(val, default))) else "value_for_missing_variable"
    if ref_kind == R.TYPEERR:
        if how == "raise":
            return "raises_instead_of_default"
        return None if (val is default or (conv is not None and R.same(val, default))) else "value_for_incompatible_operands"
    if ref_kind == R.SOFT:
        if how == "raise":
            return None
        return None if (val is default or (conv is not None and R.same(val, default))) else "value_where_python_raises"
    return None


def _attribute(fail, feats, subscribe=False):
    """Mechanism signature for a failed differential evaluation."""
    if "tuple" in feats and _is_live("C16:tuple_wrong_value"):
        return "C16:tuple_wrong_value"
    if "computed_index" in feats and _is_live("C16:computed_index_unsupported"):
        return "C16:computed_index_unsupported"
    if fail == "raises_instead_of_default" and "usub" in feats and _is_live("C16:unary_minus_raises_instead_of_default"):
        return "C16:unary_minus_raises_instead_of_default"
    if subscribe and fail == "missing_variable_raises" and "item_placeholder" in feats and \
            _is_live("C16:item_read_subscribe_raises"):
        return "C16:item_read_subscribe_raises"
    return "C16:" + fail


def _ref(src, ns):
    """ref_eval with NameError separated from absent placeholder values."""
    from vlib import c16_ref as R
    kind, val = R.ref_eval(src, ns)
    if kind == R.MISSING and val.startswith("NameError"):
        return "noname", val
    return kind, val


def _norm(kind, val):
    """What a subscriber would be shown: a concrete value or 'the default'."""
    from vlib import c16_ref as R
    if kind == R.VALUE and val is not None:
        return ("v", val)
    if kind in (R.SOFT, R.SKIP):
        return None
    return ("default",)


def _norm_differs(a, b):
    from vlib import c16_ref as R
    if a is None or b is None:
        return False
    if a[0] != b[0]:
        return True
    return a[0] == "v" and R.differs(a[1], b[1])


def _explain(changed, ops, feats=(), prev_kind=None, now=None):
    """Known mechanisms that explain why a read leaf changed without notification. changed: [(src, root, item, key)]."""
    import re
    kinds = [o[0] for o in ops]
    sigs = []
    now = now or {}
    for src, root, item, _key in changed:
        var = re.search(r"\b(pv\d|mv\w)\b", src)
        var = var.group(1) if var else None
        # every mechanism that could explain this leaf; the ones not present in this tree are filtered out below
        if root in ("current_player", "players") and any(o[0] == "set_pv" and o[2] == var and o[3] is None for o in ops):
            sigs.append("C16:player_var_none_not_notified")
        if item:
            sigs.append("C16:item_read_not_subscribed")
        if root == "current_player" and ("stop_game" in kinds or "drain" in kinds) and now.get(src) == ("default",):
            sigs.append("C16:current_player_not_notified_at_game_end")
        if root == "machine" and any(o[0] == "remove_mv" and o[1] == var for o in ops):
            sigs.append("C16:machine_var_removed_not_notified")
        if root == "device" and "accruals" in src and any(o[0] == "post" and o[1].startswith("a1_e") for o in ops):
            sigs.append("C16:accrual_inplace_change_not_notified")
        if root == "device" and _key[2] in ("c1", "c2", "a1") and \
                any(o[0] in ("drain", "stop_game", "start_game") or (o[0] == "post" and o[1] in ("m1_start", "m1_stop"))
                    for o in ops):
            sigs.append("C16:logic_block_state_swap_not_notified")
    if changed and prev_kind in ("missing", "typeerror") and "if" in feats:
        # the previous evaluation ended in a TemplateEvalError below an if-else
        sigs.append("C16:if_branch_error_drops_test_subscription")
    sigs = [x for x in sigs if _is_live(x)]
    for s in _KNOWN_ORDER:      # the documented player-variable behaviour explains a case only if nothing else does
        if s in sigs and s != "C16:player_var_none_not_notified":
            return s
    return sigs[0] if sigs else None



# ======================================================================================================================
# Which of the already understood mechanisms are present in the tree under test?  Decided once per worker process by
# one canonical minimal reproduction each (these are also the shortest repros of the defects).  The answer is used ONLY
# to label a violation with a mechanism signature - never to decide whether something is a violation.
_LIVE = None


def _probe_mechanisms():
    global _LIVE
    if _LIVE is not None:
        return _LIVE
    from vlib import c16_ref as R
    from vlib.boot import VMachine
    live = {}
    default = _Sentinel()
    with VMachine(_config(), modes=_MODES, kind="fake") as vm:
        m = vm.machine
        pm = m.placeholder_manager
        world = _World(vm, {})

        def ev(src, env):
            return _call(pm.build_raw_template(src, default).evaluate, env)

        def stale_after(src, action):
            """Subscribe (re-subscribing on every notification like config players do), act, settle:
            True when the last delivered value is outdated but the last future is still pending."""
            t = pm.build_raw_template(src, default)
            state = {}

            def resubscribe(fut=None):
                if fut is not None and fut.cancelled():
                    return
                state["value"], state["fut"] = t.evaluate_and_subscribe({})
                state["fut"].add_done_callback(resubscribe)

            resubscribe()
            action()
            world.settle(0.37)
            after = t.evaluate({})
            res = R.differs(state["value"], after) and not state["fut"].done()
            state["fut"].cancel()
            return res

        def guarded(name, fn):
            try:
                live[name] = bool(fn())
            except BaseException as e:     # noqa - a probe that blows up keeps its label available
                if isinstance(e, (KeyboardInterrupt, SystemExit)) or type(e).__name__ == "CaseTimeout":
                    raise
                live[name] = True
            vm.t._exception = None

        guarded("C16:tuple_wrong_value", lambda: not (ev("(1, c)", {"c": 2})[0] == "value" and
                                                      R.same(ev("(1, c)", {"c": 2})[1], (1, 2))))
        guarded("C16:computed_index_unsupported", lambda: ev("'ab'[c]", {"c": 1}) != ("value", "b"))
        guarded("C16:unary_minus_raises_instead_of_default", lambda: ev("-c", {"c": None})[0] == "raise")
        guarded("C16:item_read_subscribe_raises",
                lambda: _call(pm.build_raw_template("current_player['pv0']", default).evaluate_and_subscribe, {})[0]
                == "raise")
        guarded("C16:item_read_not_subscribed",
                lambda: stale_after("machine['mv0']", lambda: m.variables.set_machine_var("mv0", 77)))
        m.variables.set_machine_var("mv2", 1)
        guarded("C16:machine_var_removed_not_notified",
                lambda: stale_after("machine.mv2", lambda: m.variables.remove_machine_var("mv2")))
        guarded("C16:if_branch_error_drops_test_subscription",
                lambda: stale_after("machine.mvx + 1 if machine.mv0 else 2",
                                    lambda: m.variables.set_machine_var("mv0", 0)))
        try:
            world.apply(["start_game"])
            world.apply(["post", "m1_start"])
            world.settle(0.37)
        except BaseException:   # noqa
            pass
        guarded("C16:player_var_none_not_notified",
                lambda: stale_after("current_player.pv0", lambda: setattr(m.game.player, "pv0", None)))
        guarded("C16:accrual_inplace_change_not_notified",
                lambda: stale_after("device.accruals.a1.value[0]", lambda: m.events.post("a1_e0")))
        guarded("C16:logic_block_state_swap_not_notified",
                lambda: stale_after("device.counters.c1.value", lambda: m.events.post("m1_stop")))
        guarded("C16:current_player_not_notified_at_game_end",
                lambda: stale_after("current_player.pv1", lambda: vm.t.stop_game()))
    _LIVE = live
    return live


def _is_live(sig):
    return _probe_mechanisms().get(sig, True)


# ======================================================================================================================
def run_case(case):
    _probe_mechanisms()     # before the case's own machine exists (closing a machine unsets the current event loop)
    if case["kind"] == "eval":
        return _run_eval(case)
    return _run_sub(case)


def _finish(viol, clauses, shape, nontrivial, obs):
    viol.sort(key=lambda v: v["sig"] in _KNOWN_ORDER)
    seen, uniq = set(), []
    for v in viol:
        if v["sig"] not in seen:
            seen.add(v["sig"])
            uniq.append(v)
    return {"violations": uniq, "clauses": clauses, "shape": shape, "nontrivial": nontrivial, "obs": obs}


def _machinery_crash(e):
    import traceback
    txt = "".join(traceback.format_exception(type(e), e, e.__traceback__))
    x = e
    while x is not None:
        x = x.__cause__ or x.__context__
        if x is not None:
            txt += "".join(traceback.format_exception(type(x), x, x.__traceback__))
    return ("placeholder_manager.py" in txt or "device_monitor.py" in txt), txt[-8000:]


def _run_eval(case):
    import math
    from vlib import c16_ref as R
    from vlib.boot import VMachine

    clauses = {"eval": 0, "eval_bool": 0, "eval_typed": 0, "sub_value": 0, "cond_handler": 0}
    obs = {"skipped_too_big": 0, "ref_value": 0, "ref_missing": 0, "ref_typeerror": 0, "ref_soft": 0,
           "ops_applied": 0, "ops_skipped": 0, "expr_nodes": 0}
    viol = []
    feats_all = set()
    default = _Sentinel()

    with VMachine(_config(), modes=_MODES, kind="fake") as vm:
        m = vm.machine
        pm = m.placeholder_manager
        world = _World(vm, obs)
        for op in case.get("prep", []):
            try:
                ok = world.apply(op)
            except AssertionError:
                ok = False
            obs["ops_applied" if ok else "ops_skipped"] += 1
            vm.advance(0.05)
        world.settle(0.2)
        mirrors = _Mirrors(m)
        calls = []

        def handler(**kwargs):
            calls.append(1)

        def bad(clause, fail, feats, src, env, ref, got, subscribe=False, extra=None):
            d = {"expr": src, "env": env, "python": [ref[0], R.short(ref[1])], "mpf": [got[0], R.short(got[1])],
                 "failure": fail}
            if extra:
                d.update(extra)
            viol.append({"clause": clause, "sig": _attribute(fail, feats, subscribe), "detail": d})

        for n, src in enumerate(case.get("exprs", [])):
            feats = R.features(src)
            feats_all |= feats
            obs["expr_nodes"] += src.count(" ") + 1
            raw = pm.build_raw_template(src, default)
            boolt = pm.build_bool_template(src)
            for env in case["envs"]:
                ns = dict(mirrors.ns)
                ns.update(env)
                ref = _ref(src, ns)
                if ref[0] == R.SKIP:
                    obs["skipped_too_big"] += 1
                    continue
                obs["ref_" + {"value": "value", "noname": "missing", R.MISSING: "missing",
                              R.TYPEERR: "typeerror", R.SOFT: "soft"}[ref[0]]] += 1
                if ref[0] == R.VALUE:
                    for f in feats:     # how often each grammar feature took part in a value-vs-value comparison
                        obs["value_with_" + f] = obs.get("value_with_" + f, 0) + 1
                # ---- RawTemplate.evaluate
                got = _call(raw.evaluate, dict(env))
                clauses["eval"] += 1
                fail = _judge(ref[0], ref[1], got, default)
                if fail:
                    bad("eval", fail, feats, src, env, ref, got)
                # ---- BoolTemplate.evaluate (what conditions use); default False
                gotb = _call(boolt.evaluate, dict(env))
                clauses["eval_bool"] += 1
                failb = _judge(ref[0], ref[1], gotb, False, conv=bool)
                if failb:
                    bad("eval_bool", failb, feats, src, env, ref, gotb, extra={"template": "bool"})
                # ---- typed templates on finite real numbers
                v = ref[1]
                if ref[0] == R.VALUE and isinstance(v, (int, float)) and \
                        (not isinstance(v, float) or math.isfinite(v)) and abs(v) < 1e300:
                    for build, conv, dflt in ((pm.build_int_template, int, 0), (pm.build_float_template, float, 0.0),
                                              (pm.build_string_template, str, "")):
                        tt = build(src, dflt)
                        gott = _call(tt.evaluate, dict(env))
                        clauses["eval_typed"] += 1
                        failt = _judge(ref[0], v, gott, dflt, conv=conv)
                        if failt == "wrong_value" and type(gott[1]) is conv and gott[1] == conv(v):
                            failt = None      # -0 vs -0.0 of the literal shortcut: sign of zero is not judged here
                        if failt:
                            bad("eval_typed", failt, feats, src, env, ref, gott, extra={"template": conv.__name__})
                # ---- evaluate_and_subscribe must compute the same value
                gots = _call(raw.evaluate_and_subscribe, dict(env))
                clauses["sub_value"] += 1
                if gots[0] == "value":
                    val, fut = gots[1]
                    try:
                        fut.cancel()
                    except Exception:   # noqa
                        pass
                    gots = ("value", val)
                fails = _judge(ref[0], ref[1], gots, default, subscribe=True)
                if fails:
                    bad("sub_value", fails, feats, src, env, ref, gots, subscribe=True)
                # ---- conditional handler dispatched by the real EventManager
                if n % 4 == 0 and not failb and gotb[0] == "value" and ref[0] != R.SOFT and "{" not in src \
                        and "}" not in src:
                    expect = bool(ref[1]) if ref[0] == R.VALUE else False
                    del calls[:]
                    key = m.events.add_handler("c16_ev{%s}" % src, handler)
                    m.events.post("c16_ev", **env)
                    vm.advance(0.01)
                    m.events.remove_handler_by_key(key)
                    clauses["cond_handler"] += 1
                    if bool(calls) != expect:
                        viol.append({"clause": "cond_handler",
                                     "sig": _attribute("conditional_handler_wrong_dispatch", feats),
                                     "detail": {"expr": src, "env": env, "python": [ref[0], R.short(ref[1])],
                                                "handler_ran": bool(calls), "expected": expect}})
            if n % 20 == 19:
                vm.advance(0)

        # ---- several handlers guarded by the SAME conditional event string, where an earlier handler changes what
        # the condition reads: each later handler must be dispatched on the value current at its own turn
        import random as _random
        import types as _types
        rr = _random.Random(repr(case.get("exprs", [])[:3]) + repr(case.get("envs", [])[:1]))
        chain_conds = ["machine.c16_tok>0", "machine.c16_tok>=2", "machine.c16_tok==1", "machine.c16_tok!=0 and x>0",
                       "not machine.c16_tok", "machine.c16_tok<limit", "machine.c16_tok>0 or x>0"]
        clauses["cond_chain"] = 0
        for _round in range(8):
            cond = rr.choice(chain_conds)
            init = rr.choice([0, 1, 1, 2, 3])
            k = rr.choice([2, 3, 4])
            muts = [rr.choice([-1, -1, -2, 1, 0, "zero"]) for _ in range(k)]
            cenv = {"x": rr.choice([0, 1]), "limit": rr.choice([1, 2, 3])}
            same_string = rr.random() < 0.7
            m.variables.set_machine_var("c16_tok", init)
            vm.advance(0.01)
            ccalls = []
            keys = []

            def mk(i):
                def h(**kwargs):
                    ccalls.append(i)
                    v = m.variables.get_machine_var("c16_tok")
                    m.variables.set_machine_var("c16_tok", 0 if muts[i] == "zero" else v + muts[i])
                return h
            for i in range(k):
                cs = cond if same_string or i % 2 == 0 else "(%s)" % cond
                keys.append(m.events.add_handler("c16_chain{%s}" % cs, mk(i), priority=100 - i))
            m.events.post("c16_chain", **cenv)
            vm.advance(0.01)
            for key in keys:
                m.events.remove_handler_by_key(key)
            val = init
            exp = []
            for i in range(k):
                ns = dict(cenv)
                ns["machine"] = _types.SimpleNamespace(c16_tok=val)
                if eval(cond, {"__builtins__": {}}, ns):     # noqa: generated condition
                    exp.append(i)
                    val = 0 if muts[i] == "zero" else val + muts[i]
            clauses["cond_chain"] += 1
            if ccalls != exp:
                viol.append({"clause": "cond_chain", "sig": "C16:conditional_handler_dispatched_on_stale_condition",
                             "detail": {"cond": cond, "init": init, "mutations": muts, "env": cenv,
                                        "handlers_called": ccalls, "expected": exp, "same_string": same_string}})

    types = "".join(type(case["envs"][0][p]).__name__[0] for p in sorted(case["envs"][0])) if case.get("envs") else ""
    shape = "E:" + ",".join(sorted(feats_all)) + "|" + types
    return _finish(viol, clauses, shape, clauses["eval"] > 0, obs)


def _run_sub(case):
    from vlib import c16_ref as R
    from vlib.boot import VMachine

    clauses = {"sub_value": 0, "fresh": 0, "fresh_tiny_step": 0, "player_e2e": 0, "player_e2e_shared_condition": 0}
    obs = {"ops_applied": 0, "ops_skipped": 0, "notified": 0, "notified_and_changed": 0, "resubscribed": 0,
           "fresh_eval_raised": 0, "templates_dropped": 0, "changed_but_mpf_equal": 0, "only_type_changed": 0,
           "player_reevaluations": 0, "skipped_too_big": 0}
    viol = []
    default = _Sentinel()
    conds = []
    for c in case.get("conds", []):
        if c not in conds:
            conds.append(c)
    restore = []
    try:
        entries = _run_sub_body(case, conds, clauses, obs, viol, default, restore)
    finally:
        for undo in restore:
            undo()

    feats = set()
    for e in entries:
        feats |= e["feats"]
    shape = "S:" + ">".join(obs.pop("_shape_ops")) + "|" + ",".join(sorted(f for f in feats if not f.startswith("bin:")))
    return _finish(viol, clauses, shape, clauses["fresh"] > 0, obs)


def _run_sub_body(case, conds, clauses, obs, viol, default, restore):
    from vlib import c16_ref as R
    from vlib.boot import VMachine

    with VMachine(_config(conds), modes=_modes(conds), kind="fake") as vm:
        m = vm.machine
        pm = m.placeholder_manager
        world = _World(vm, obs)
        mirrors = _Mirrors(m)
        ns = mirrors.ns

        def leaf_vals(leaves):
            return {l[0]: _norm(*_ref(l[0], ns)) for l in leaves}

        entries = []
        for src in case.get("templates", []):
            entries.append({"src": src, "t": pm.build_raw_template(src, default), "leaves": R.placeholder_leaves(src),
                            "feats": R.features(src), "dead": False})

        def subscribe(e, why):
            mirrors.reads.clear()
            ref = _ref(e["src"], ns)
            e["ref"] = ref
            e["reads"] = set(mirrors.reads)
            e["leafvals"] = leaf_vals(e["leaves"])
            e["keyvals"] = {l[3]: mirrors.read_key(l[3]) for l in e["leaves"]}
            e["ops_since"] = []
            if ref[0] == R.SKIP:
                # operands too large to evaluate (the real template would attempt the same ** or *): wait for a change
                e["pending"] = True
                obs["skipped_too_big"] += 1
                return
            got = _call(e["t"].evaluate_and_subscribe, {})
            clauses["sub_value"] += 1
            if got[0] == "raise":
                fail = _judge(ref[0], ref[1], got, default, subscribe=True)
                # no subscription exists now: try again after the next change (a tuple may have left malformed
                # subscriptions behind, such a template is dropped for good)
                e["pending"] = True
                if "tuple" in e["feats"]:
                    e["dead"] = True
                obs["templates_dropped"] += 1
                if fail:
                    viol.append({"clause": "sub_value", "sig": _attribute(fail, e["feats"], True),
                                 "detail": {"expr": e["src"], "when": why, "python": [ref[0], R.short(ref[1])],
                                            "mpf": list(got), "failure": fail}})
                return
            val, fut = got[1]
            e["delivered"], e["fut"] = val, fut
            e["pending"] = False
            fail = _judge(ref[0], ref[1], ("value", val), default, subscribe=True)
            if fail:
                viol.append({"clause": "sub_value", "sig": _attribute(fail, e["feats"], True),
                             "detail": {"expr": e["src"], "when": why, "python": [ref[0], R.short(ref[1])],
                                        "mpf": ["value", R.short(val)], "failure": fail}})

        world.settle(0.1)
        for e in entries:
            subscribe(e, "initial")

        # ---- condition-driven light_player entries, end to end -------------------------------------------------
        # What the player last acted on is known exactly: every re-evaluation ends in a handle_subscription_change call
        # (handler-invocation boundary), where the state the condition was computed from is recorded.
        cond_leaves = [R.placeholder_leaves(c) for c in conds]
        snaps = {}      # (context, condition index) -> state the player last acted on

        def snapshot(ctx, i):
            mirrors.reads.clear()
            ref = _ref(conds[i], ns)
            snaps[(ctx, i)] = {"ref": ref, "reads": set(mirrors.reads), "vals": leaf_vals(cond_leaves[i]),
                               "keyvals": {l[3]: mirrors.read_key(l[3]) for l in cond_leaves[i]}, "ops": []}

        from mpf.config_players.light_player import LightPlayer
        orig_handle = LightPlayer.handle_subscription_change

        def observed_handle(self_, value, settings, priority, context, key):
            if self_.machine is m and key in conds:
                try:
                    snapshot(context, conds.index(key))
                    obs["player_reevaluations"] += 1
                except Exception:   # noqa - observation only
                    pass
            return orig_handle(self_, value, settings, priority, context, key)

        LightPlayer.handle_subscription_change = observed_handle
        restore.append(lambda: setattr(LightPlayer, "handle_subscription_change", orig_handle))
        for i in range(len(conds)):
            snapshot("_global", i)

        def context_live(ctx):
            """Machine-wide entries always act; a mode's entries only while the mode is fully up."""
            if ctx == "_global":
                return True
            mode = m.modes[ctx]
            return bool(mode.active) and not mode.stopping and not getattr(mode, "_starting", False)

        def check_conds(step, op):
            for ctx, first_light in _CONTEXTS:
                if not context_live(ctx):
                    continue
                for i, c in enumerate(conds):
                    check_cond(step, op, ctx, first_light + i, i, c)

        def check_cond(step, op, ctx, light, i, c):
                ref = _ref(c, ns)
                if ref[0] in (R.SOFT, R.SKIP):
                    return
                truth = bool(ref[1]) if ref[0] == R.VALUE else False
                lit = tuple(m.lights["l%d" % light].get_color().rgb) != (0, 0, 0)
                clauses["player_e2e"] += 1
                if ctx != "_global":
                    clauses["player_e2e_shared_condition"] += 1
                if (ctx, i) not in snaps:
                    snapshot(ctx, i)
                snap = snaps[(ctx, i)]
                if op is not None:
                    snap["ops"].append(op)
                if lit == truth:
                    return
                now = leaf_vals(cond_leaves[i])
                changed = [l for l in cond_leaves[i]
                           if _norm_differs(snap["vals"].get(l[0]), now.get(l[0])) and l[3] in snap["reads"]]
                type_only = mirrors.type_only_changes(snap["keyvals"], cond_leaves[i])
                if changed and type_only and step >= 0:
                    mirrors.override.update(type_only)
                    try:
                        cf = _ref(c, ns)
                    finally:
                        mirrors.override.clear()
                    cf_truth = bool(cf[1]) if cf[0] == R.VALUE else False
                    ok_truth = bool(snap["ref"][1]) if snap["ref"][0] == R.VALUE else False
                    if cf[0] in (R.SOFT, R.SKIP) or cf_truth == ok_truth:
                        changed = []
                if not changed and step >= 0:
                    # nothing the last evaluation read differs under != (only equal values of another type)
                    obs["only_type_changed"] += 1
                    return
                sig = _explain(changed, snap["ops"], R.features(c), snap["ref"][0], now) or "C16:condition_player_stale"
                viol.append({"clause": "player_e2e", "sig": sig,
                             "detail": {"condition": c, "context": ctx, "light": "l%d" % light, "step": step,
                                        "ops_since_last_evaluation": snap["ops"][-6:],
                                        "light_on": lit, "python_truth": truth,
                                        "changed_leaves": [l[0] for l in changed]}})

        check_conds(-1, None)
        shape_ops = []
        for step, op in enumerate(case.get("ops", [])):
            try:
                ok = world.apply(op)
                world.settle(_op_settle(op))
            except BaseException as exc:     # noqa
                if isinstance(exc, (KeyboardInterrupt, SystemExit)) or type(exc).__name__ == "CaseTimeout":
                    raise
                mine, txt = _machinery_crash(exc)
                if not mine and isinstance(exc, AssertionError) and "unittest/case.py" in txt:
                    obs["ops_skipped"] += 1      # a test-case helper's own precondition assert: op not applicable
                    continue
                tuples = [e["src"] for e in entries if "tuple" in e["feats"]]
                if tuples and "ensure_future" in txt and _is_live("C16:tuple_wrong_value"):
                    # the malformed (value, subscriptions) pairs of a tuple literal reached Util.any
                    viol.append({"clause": "sub_value", "sig": "C16:tuple_wrong_value",
                                 "detail": {"step": step, "op": op, "templates_with_tuple": tuples,
                                            "crash": txt[-600:]}})
                    break
                if not mine:
                    raise
                viol.append({"clause": "fresh", "sig": "C16:template_machinery_crash",
                             "detail": {"step": step, "op": op, "traceback": txt[-1500:]}})
                break
            obs["ops_applied" if ok else "ops_skipped"] += 1
            if not ok:
                continue
            shape_ops.append(op[0] if op[0] != "post" else op[1])
            for e in entries:
                if e["dead"]:
                    continue
                if e.get("pending"):
                    subscribe(e, "retry after step %d" % step)
                    continue
                e["ops_since"].append(op)
                ref_now = _ref(e["src"], ns)
                changed = _norm_differs(_norm(*e["ref"]), _norm(*ref_now))
                done = e["fut"].done()
                if changed:
                    clauses["fresh"] += 1
                    if world.tiny_step:      # the variable moved by <= 1e-9 of its magnitude and the value followed
                        clauses["fresh_tiny_step"] += 1
                if done:
                    obs["notified"] += 1
                    if changed:
                        obs["notified_and_changed"] += 1
                    obs["resubscribed"] += 1
                    subscribe(e, "after step %d" % step)
                    continue
                if not changed:
                    continue
                fresh = _call(e["t"].evaluate, {})
                if fresh[0] == "raise":
                    obs["fresh_eval_raised"] += 1
                    subscribe(e, "after step %d" % step)
                    continue
                if not R.differs(fresh[1], e["delivered"]):
                    obs["changed_but_mpf_equal"] += 1
                    continue
                now = leaf_vals(e["leaves"])
                # only what the delivered value was computed from can be expected to notify
                changed_leaves = [l for l in e["leaves"]
                                  if l[3] in e["reads"] and _norm_differs(e["leafvals"].get(l[0]), now.get(l[0]))]
                type_only = mirrors.type_only_changes(e["keyvals"], e["leaves"])
                if changed_leaves and type_only:
                    # would the != changes alone (type-only replacements undone) have changed the value?
                    mirrors.override.update(type_only)
                    try:
                        counterfactual = _ref(e["src"], ns)
                    finally:
                        mirrors.override.clear()
                    if not _norm_differs(_norm(*e["ref"]), _norm(*counterfactual)):
                        changed_leaves = []
                if not changed_leaves:
                    # the value differs only because something was replaced by an equal value of another type
                    obs["only_type_changed"] += 1
                    subscribe(e, "after type-only change at step %d" % step)
                    continue
                sig = _explain(changed_leaves, e["ops_since"], e["feats"], e["ref"][0], now) or "C16:stale_subscription"
                viol.append({"clause": "fresh", "sig": sig,
                             "detail": {"expr": e["src"], "step": step, "op": op,
                                        "ops_since_subscribe": e["ops_since"][-6:],
                                        "delivered": R.short(e["delivered"]), "fresh_evaluate": R.short(fresh[1]),
                                        "python_before": R.short(e["ref"][1]), "python_now": R.short(ref_now[1]),
                                        "changed_leaves": [l[0] for l in changed_leaves], "future_done": False}})
                subscribe(e, "after stale at step %d" % step)
            check_conds(step, op)
        for e in entries:
            if not e["dead"] and not e.get("pending"):
                try:
                    e["fut"].cancel()
                except Exception:   # noqa
                    pass

    obs["_shape_ops"] = shape_ops
    return entries
