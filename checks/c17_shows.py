"""C17 — Shows run on schedule without drift and clean up after themselves.

One booted machine per case (virtual time).  Generated show files (relative/absolute/duration timing, hold steps,
tokens in keys and values, fades), generated show_player entries (machine-wide and in a mode) and a generated
request timeline (play/stop/pause/resume/advance/step_back/update, mode stop, exact-instant coincidences, long
loop runs).  Boundaries wrapped at run time (nothing in /repo is edited):

  Show.play_with_config            -> a show instance is started (config, start time, start step)
  RunningShow.stop/pause/...       -> requests reaching an instance
  ConfigPlayer.show_play_callback  -> a step of a show context is handed to a player (index, start_time)
  Light.color / Driver.enable...   -> the effect arriving at the device (key, colour, fade, priority, start_time)
  recording event handlers         -> played/looped/completed/stopped events
  Light.stack, ConfigPlayer.instances, coil hw state -> what is left after stop

The observation log is replayed through vlib/c17_model.py (independent schedule/effects/event model).
"""

PROPERTY = "C17"
LEVEL = "exploration"
LEVEL_TEXT = ("Exploration: generated show files, play configurations and request timelines are run on the real "
              "Show/RunningShow/ShowPlayer/LightPlayer/Light objects of a booted machine in exact virtual time; every "
              "step hand-over, device command, show event and the state left after stop is checked against an "
              "independent schedule model. Durations, speeds and request sequences are unbounded, so sampling (with "
              "deliberate exact-instant coincidences, long loop runs and injected clock latency) is what this reaches.")
LEVEL_NOTE = ("Trusts MPF's TimeTravelLoop (timers due at the current virtual instant have run when an advance "
              "returns), the virtual platform, and the generator's alphabet of show constructs; statement-silent "
              "request combinations are accepted either way (see assumptions).")
TECHNIQUE = ("runtime monitoring: online reference-model monitor over wrapped show/player/device boundaries, plus "
             "post-stop state inspection against the never-played baseline")
RULE = ("case = generated shows + show_player variants + request timeline on one booted machine; distinct = sequence "
        "of request kinds with bucketed advances plus the show/variant shape; non-trivial = at least one scheduled "
        "(timer) step was checked against the model, one show was stopped or completed and its clean-up inspected")
ASSUMPTIONS = [
    "tolerance 1e-6 s on every nominal time; a step is 'executed at T' when the loop instant it ran in contains T "
    "(base <= T <= base + injected latency)",
    "half of the cases inject 0.5 ms of clock latency per step hand-over (loop.time() runs ahead of the instant's "
    "base time) so that re-reading the clock instead of adding step durations shows up as drift",
    "loops=N means N repeats after the first pass (documented); a show whose only step has a positive duration is "
    "only played with loops=0 (docstring and code disagree, statement silent)",
    "sync_ms: start at the next multiple of the interval; a request exactly on a multiple may start then or one "
    "interval later; the effective interval is the request's own sync_ms when it has one (an explicit 0 = start "
    "immediately) and the machine-wide `mpf: default_show_sync_ms` (non-zero in 3 of 8 cases) only when it has none",
    "resume: the next step may run immediately (MPF) or the interrupted step may run out its remaining time; "
    "resume of a show that is not paused may do nothing or run the next step now - but must keep ONE schedule",
    "advance of a paused show may or may not resume automatic stepping; step_back from the first step may go to "
    "any step; update (speed) keeps or rescales the pending step and uses the new speed afterwards; update that "
    "clears manual_advance may or may not resume stepping",
    "pause/resume/advance/step_back/update before a synchronised start, and resume/advance across a step without "
    "any player section inside the latency window, make the instance 'indeterminate': only the after-stop and "
    "clean-up clauses are evaluated for it",
    "play on a key that already has a running show may keep, advance or replace it (statement silent); whatever "
    "instance exists must follow its own schedule",
    "events checked: played, looped, completed, stopped (the statement's four) and the shows' own step events; "
    "events_when_paused/resumed/advanced/stepped_back/updated are not checked",
    "clean-up: after stop only a fade-out entry (light default fade) may remain under the show's key until its "
    "fade ends; hardware brightness values are C09's subject and not compared",
    "show step times are written so that MPF's 1-ms string_to_ms truncation (C12) does not apply",
    "timers due at one virtual instant may fire in either order: when a show's step without player sections (or "
    "its completion) and its stop by another show's synchronised start / a stop request fall on one instant, "
    "either order is accepted (its events are then not checked / 'completed' is optional)",
    "several entries of one step addressing the same light (name, tag, token): any one of them may win, exactly one "
    "command per light is required; tokens that are part of a light name are always supplied",
    "child shows started by a `shows:` step may be kept, advanced or replaced when the parent re-plays the step; "
    "each instance must follow its own schedule and must be stopped when the parent stops",
    "a last step consisting only of `time:` is the show format's end marker (gives the previous step its length)",
    "twin-light family: two identically configured lights get the same lower shows at the same instants, only one "
    "of them additionally gets covering shows; once every covering show is stopped (and the light's default "
    "fade-out, if any, is over) Light.get_color() of both must be equal at every sampled instant, exactly (colour is "
    "a pure function of the stack and the virtual time); all shows of a case have distinct priorities (equal "
    "priorities are ordered by the context string, which differs between the twins)",
    "twin-light family: 88% of the cases have every covering show above every lower show; in the rest one cover "
    "sits BELOW a lower show. A fade begun by a show ABOVE the cover starts from the colour visible underneath at "
    "that instant (Light.get_color_below) and keeps that snapshot when the cover is stopped during the fade: on "
    "/repo the light then differs from its twin until that fade ends. Read literally ('exactly as they would be had "
    "the show never run') that is a defect; it is a known finding with its own signature, assigned only while such "
    "a fade is in progress on a case with a cover below (any other difference keeps the general signature)",
]
HORIZONS = {"final_settle_s": 3.0}
TIERS = {
    "quick": {"cases": 2300, "batch": 50, "case_timeout": 90},
    "thorough": {"cases": 44000, "batch": 250, "case_timeout": 180},
}
# cases with index >= TWIN_FROM[tier] belong to the "twin light" family (differential never-ran oracle, see _run_twin)
TWIN_FROM = {"quick": 2000, "thorough": 40000}
_MIN_Q = {"step_time": 80000, "step_index": 80000, "step_effects": 200000, "light_start_time": 100000,
          "events": 50000, "cleanup_light": 20000, "cleanup_instances": 200000, "no_step_after_stop": 100000,
          "completion": 150, "routing": 8000, "final_state": 5000, "immediate_step": 50000, "start_time": 150,
          "stop_explained": 1500, "sync_effective": 4000, "sync_zero_on_grid": 150,
          "cover_removed_twin": 2500, "cover_removed_twin_midfade": 300}
MIN_EVALS = {"quick": _MIN_Q, "thorough": {k: v * 10 for k, v in _MIN_Q.items()}}
SHRINK_KEYS = ["ops"]

SPEEDS = [0.25, 0.5, 1, 1, 2, 4, 1.5, 3, 0.7, 1.3]
DUR_MS = [20, 30, 50, 75, 100, 125, 250, 333, 500, 750, 1000, 1000, 1500]
LIGHT_KEYS = ["l0", "l1", "l2", "l3", "grp", "l0, l3", "(lt)", "l(num)"]
COLORS = ["ff0000", "00ff00", "0000ff", "red", "blue", "lime", "yellow", "white", "on", "123456", "(col)", "(col)"]
TOKEN_VALUES = {"lt": ["l0", "l3", "grp", "l1, l2"], "num": ["0", "2", "3"], "col": ["red", "00ff00", "blue", "ffff00"]}
KEYS = ["k0", "k1", "k2"]
MODE_PRIORITY = 100
BURN = 0.0005


# =============================================================================================
# generation
def _gen_show(rng, name, short=False, allow_child=False):
    n = rng.choice([1, 2, 2, 3, 3, 4, 5, 6])
    steps = []
    used = set()
    hold_seen = False
    for i in range(n):
        last = i == n - 1
        if short:
            ms = rng.choice([20, 30, 50, 75])
        else:
            ms = rng.choice(DUR_MS)
        if (last and rng.random() < 0.25) or (not last and rng.random() < 0.04):
            ms = -1
        lights = []
        k = rng.random()
        nl = 0 if k < 0.12 else rng.choice([1, 1, 2, 3])
        keys = rng.sample(LIGHT_KEYS, nl)
        for key in keys:
            col = rng.choice(COLORS)
            form = rng.random()
            if form < 0.55:
                val = col
            elif form < 0.8:
                val = "%s-f%dms" % (col, rng.choice([50, 100, 200, 400]))
            else:
                val = {"color": col, "fade": rng.choice([None, 80, 300]), "priority": rng.choice([0, 0, 1, 3])}
            lights.append([key, val])
            for tok in ("lt", "num", "col"):
                if "(%s)" % tok in key or "(%s)" % tok in (val["color"] if isinstance(val, dict) else val):
                    used.add(tok)
        coil = None
        if rng.random() < 0.15:
            coil = rng.choice([["c0", "enable"], ["c0", "enable"], ["c0", "disable"], ["c1", "pulse"]])
        child = None
        if allow_child and rng.random() < 0.12:
            child = {"show": "ch", "loops": rng.choice([0, -1, -1, 1]), "speed": rng.choice([1, 2, 0.5])}
        mark = None
        if rng.random() < 0.3 or (not lights and not coil and not child and rng.random() < 0.5):
            mark = "mk_%s_%d" % (name, i)
        # how the duration is written
        if ms == -1:
            enc = "D"
            hold_seen = True
        else:
            opts = ["D", "D", "T", "T"]
            if not hold_seen:
                opts.append("A")
            if ms == 1000:
                opts.append("N")
            enc = rng.choice(opts)
        steps.append({"ms": ms, "enc": enc, "lights": lights, "coil": coil, "mark": mark, "child": child})
    lead = rng.choice([0, 0, 0, 0, 100, 250]) if not short else 0
    if n > 1 and steps[-1]["enc"] == "N" and steps[-2]["enc"] in ("T", "A") and not steps[-1]["lights"] and \
            not steps[-1]["coil"] and not steps[-1]["mark"] and not steps[-1]["child"]:
        steps[-1]["enc"] = "D"      # a last step consisting only of `time:` is the format's end marker, not a step
    if n == 1 and steps[0]["ms"] > 0 and steps[0]["enc"] in ("T", "A"):
        steps[0]["enc"] = "D"
    return {"name": name, "steps": steps, "lead_ms": lead, "tokens": sorted(used), "zero_time": rng.random() < 0.3}


def _gen_variant(rng, vid, show, scope, key, force=None):
    force = force or {}
    nsteps = len(show["steps"]) + (1 if show["lead_ms"] else 0)
    min_ms = min([s["ms"] for s in show["steps"] if s["ms"] > 0] or [1000])
    speeds = [s for s in SPEEDS if min_ms / s >= 10]
    tokens = {}
    for tok in show["tokens"]:
        if tok in ("col", "num") or rng.random() < 0.85:
            tokens[tok] = rng.choice(TOKEN_VALUES[tok])
    single_timed = len(show["steps"]) == 1 and show["steps"][0]["ms"] > 0 and not show["lead_ms"]
    v = {"vid": vid, "scope": scope, "key": key, "show": show["name"],
         "speed": rng.choice(speeds),
         "loops": 0 if single_timed else rng.choice([0, 0, 0, 1, 1, 2, 3, -1, -1]),
         "start_step": rng.choice([1, 1, 1, 1, 2, -1, -2, nsteps, 0]),
         "sync_ms": rng.choice([None, None, 0, 0, 250, 100]),     # None: not written; 0: explicit `sync_ms: 0`
         "priority": rng.choice([0, 0, 5, 60]),
         "manual": rng.random() < 0.12,
         "start_running": rng.random() >= 0.08,
         "tokens": tokens,
         "events": rng.random() < 0.7}
    if abs(v["start_step"]) > nsteps:
        v["start_step"] = 1
    v.update(force)
    return v


# directed case (shrunk from a generated one): cover below a show that begins a fade while the cover is visible
_TWIN_DIRECTED_COVER_BELOW = (
    {"family": "twin", "lows": [{"steps": [{"ms": 1500, "color": "800080", "fade": None, "form": "str", "dark":
    False}, {"ms": 3000, "color": "ff8000", "fade": None, "form": "str", "dark": False}, {"ms": 500, "color":
    "yellow", "fade": 1000, "form": "dict", "dark": False}, {"ms": 3000, "color": "800080", "fade": None, "form":
    "str", "dark": False}], "prio": 1, "loops": -1, "speed": 2}, {"steps": [{"ms": 500, "color": "ff8000", "fade":
    200, "form": "dict", "dark": False}, {"ms": 500, "color": "white", "fade": 800, "form": "str", "dark": False},
    {"ms": 750, "color": "blue", "fade": 800, "form": "str", "dark": False}], "prio": 8, "loops": 0, "speed": 1}],
    "covers": [{"steps": [{"ms": 3000, "color": "blue", "fade": None, "form": "str", "dark": False}, {"ms": 1000,
    "color": "800080", "fade": 800, "form": "dict", "dark": False}, {"ms": -1, "color": "white", "fade": None,
    "form": "str", "dark": False}], "prio": 4, "loops": -1, "speed": 1}, {"steps": [{"ms": -1, "color": "black",
    "fade": None, "form": "str", "dark": False}], "prio": 60, "loops": -1, "speed": 1}], "ops": [["cover_play",
    0], ["low_play", 1], ["cover_stop"], ["adv", 1]], "light_fade": 0, "lead_ms": 250})


def gen_case(rng, tier, index):
    if index == TWIN_FROM.get(tier, 1 << 60):
        return dict(_TWIN_DIRECTED_COVER_BELOW)     # the known finding's minimal history, observed on every run
    if index >= TWIN_FROM.get(tier, 1 << 60):
        return _gen_twin(rng)
    long_run = index % 10 == 9
    case = {"latency": rng.random() < 0.5 or long_run, "long": long_run,
            "default_sync_ms": rng.choice([0, 0, 0, 0, 0, 400, 150, 250])}
    if long_run:
        show = _gen_show(rng, "s0", short=True)
        for st in show["steps"]:
            if st["ms"] == -1:
                st["ms"] = 50
                st["enc"] = "D"
        if len(show["steps"]) == 1:
            show["steps"].append({"ms": 30, "enc": "D", "lights": [["l1", "0000ff"]], "coil": None, "mark": None,
                                  "child": None})
        shows = [show]
        v0 = _gen_variant(rng, 0, show, "g", "k0", force={"loops": -1, "manual": False, "start_running": True,
                                                          "events": True})
        variants = [v0]
        if rng.random() < 0.5:
            sh2 = _gen_show(rng, "s1")
            shows.append(sh2)
            variants.append(_gen_variant(rng, 1, sh2, rng.choice(["g", "m"]), "k1"))
        ops = [["play", 0]]
        total = rng.choice([30, 60, 150]) if tier == "quick" else rng.choice([60, 150, 400])
        parts = rng.randint(1, 4)
        for p in range(parts):
            ops.append(["adv", int(total * 1000 / parts)])
            k = rng.random()
            if k < 0.3:
                ops.append(["ctl", "g", "k0", rng.choice(["pause", "advance", "step_back", "resume"])])
                ops.append(["adv", rng.choice([0, 10, 100])])
                ops.append(["ctl", "g", "k0", rng.choice(["resume", "advance"])])
            elif k < 0.5:
                ops.append(["upd", "g", "k0", rng.randrange(3)])
            elif k < 0.7 and len(variants) > 1:
                ops.append(["play", 1])
        case.update({"shows": shows, "variants": variants, "ops": ops})
        return case
    nshow = rng.choice([1, 2, 2, 3])
    shows = [_gen_show(rng, "s%d" % i, allow_child=True) for i in range(nshow)]
    if any(st.get("child") for sh in shows for st in sh["steps"]):
        ch = _gen_show(rng, "ch")
        for st in ch["steps"]:
            # the child is played without tokens
            st["lights"] = [[k, v] for k, v in st["lights"] if "(" not in k and
                            "(" not in (v["color"] if isinstance(v, dict) else v)]
        ch["tokens"] = []
        st = ch["steps"]
        if len(st) > 1 and st[-1]["enc"] == "N" and st[-2]["enc"] in ("T", "A") and not st[-1]["lights"] and \
                not st[-1]["coil"] and not st[-1]["mark"] and not st[-1]["child"]:
            st[-1]["enc"] = "D"     # (see _gen_show) keep it a step, not the format's end marker
        shows.append(ch)
    variants = []
    for vid in range(rng.randint(2, 6)):
        show = rng.choice([sh for sh in shows if sh["name"] != "ch"])
        variants.append(_gen_variant(rng, vid, show, rng.choice(["g", "g", "m"]), rng.choice(KEYS)))
    slots = sorted(set((v["scope"], v["key"]) for v in variants))
    ops = []
    if rng.random() < 0.5:
        for _ in range(rng.randint(1, 3)):
            ops.append(["bg", rng.choice(["l0", "l1", "l2", "l3"]), rng.choice([0, 3, 50, 500]),
                        rng.choice([[1, 2, 3], [200, 100, 0], [9, 9, 9]])])
    nops = rng.randint(8, 30 if tier == "quick" else 60)
    for _ in range(nops):
        k = rng.random()
        if k < 0.22 or not ops:
            ops.append(["play", rng.randrange(len(variants))])
        elif k < 0.62:
            played = sorted(set((variants[o[1]]["scope"], variants[o[1]]["key"]) for o in ops if o[0] == "play"))
            scope, key = rng.choice(played) if played and rng.random() < 0.85 else rng.choice(slots)
            act = rng.choice(["stop", "pause", "pause", "resume", "resume", "resume", "advance", "advance", "advance",
                              "step_back", "step_back"])
            ops.append(["ctl", scope, key, act])
        elif k < 0.66:
            scope, key = rng.choice(slots)
            ops.append(["upd", scope, key, rng.randrange(3)])
        elif k < 0.86:
            ops.append(["adv", rng.choice([0, 1, 5, 10, 20, 50, 100, 125, 250, 333, 500, 1000, 2000, 5000])])
        elif k < 0.94:
            scope, key = rng.choice(slots)
            ops.append(["advsym", scope, key, rng.choice(["at", "at", "before", "after", "half"])])
        elif k < 0.96:
            ops.append(["mode_stop"])
        elif k < 0.98:
            ops.append(["mode_start"])
        else:
            ops.append(["bg", rng.choice(["l0", "l1", "l2", "l3"]), rng.choice([0, 3, 50, 500]),
                        rng.choice([[1, 2, 3], [200, 100, 0], None])])
    case.update({"shows": shows, "variants": variants, "ops": ops})
    return case


# =============================================================================================
# twin-light family: "as if the stopped show had never run", observed differentially
TW_COLORS = ["red", "blue", "lime", "yellow", "white", "ff8000", "123456", "00ffff", "800080", "black"]
TW_FADES = [200, 300, 500, 800, 1000, 1500, 2000]
TW_ADV_COVER = [0, 50, 100, 250, 400, 500, 650, 800, 1000, 1200, 1700, 2300]
TW_ADV_SAMPLE = [0, 1, 10, 37, 50, 100, 125, 250, 333, 500, 900]


def _gen_twin_show(rng, nsteps, fade_p, hold_last=False):
    steps = []
    for j in range(nsteps):
        ms = rng.choice([250, 500, 750, 1000, 1500, 2000, 3000])
        if hold_last and j == nsteps - 1:
            ms = -1
        fade = rng.choice(TW_FADES) if rng.random() < (fade_p if j else fade_p / 2) else None
        steps.append({"ms": ms, "color": rng.choice(TW_COLORS), "fade": fade,
                      "form": rng.choice(["str", "str", "dict"]),
                      "dark": j > 0 and rng.random() < 0.08})
    return steps


def _gen_twin(rng):
    nlow = rng.choice([1, 1, 2])
    prios = rng.sample([0, 1, 2, 3, 5, 8], nlow)
    lows = []
    for i in range(nlow):
        lows.append({"steps": _gen_twin_show(rng, rng.choice([2, 3, 3, 4, 5]), 0.65), "prio": prios[i],
                     "loops": rng.choice([-1, -1, -1, 0, 1]), "speed": rng.choice([1, 1, 1, 0.5, 2])})
    # covering shows are ABOVE every lower show: a show that sits below another show's entry legitimately provides
    # the start colour of a fade that the upper show begins meanwhile (see ASSUMPTIONS / proposed_fixes/C17_i_NOTES.md)
    cprios = rng.sample([10, 20, 60, 100], 2)
    if rng.random() < 0.12:
        # one cover BELOW a lower show: on /repo a fade that the upper show begins meanwhile keeps the cover's colour
        # as its start colour after the cover stopped (known finding, own signature; see DESIGN.md section 10)
        cprios[0] = rng.choice([4, 6, 7])
    covers = [{"steps": _gen_twin_show(rng, rng.choice([1, 1, 2, 3]), 0.3, hold_last=rng.random() < 0.6),
               "prio": cprios[i], "loops": -1, "speed": 1} for i in range(2)]
    ops = [["low_play", 0]]
    second_started = nlow == 1
    for _ in range(rng.randint(1, 3)):
        ops.append(["adv", rng.choice([0, 100, 300, 500, 700, 1000, 1500])])
        if not second_started and rng.random() < 0.6:
            ops.append(["low_play", 1])
            second_started = True
        ops.append(["cover_play", 0])
        two = rng.random() < 0.2
        for _ in range(rng.randint(1, 3)):
            ops.append(["adv", rng.choice(TW_ADV_COVER)])
            k = rng.random()
            if k < 0.15:
                ops.append(["low_ctl", rng.randrange(nlow), rng.choice(["advance", "pause", "resume", "step_back"])])
            elif k < 0.3 and two:
                ops.append(["cover_play", 1])
                two = False
            elif k < 0.4 and not second_started:
                ops.append(["low_play", 1])
                second_started = True
        ops.append(["cover_stop"])
        if rng.random() < 0.3:
            ops.append(["adv", rng.choice([0, 50, 200])])
        ops.append(["cover_stop"])
        for _ in range(rng.randint(3, 8)):
            ops.append(["adv", rng.choice(TW_ADV_SAMPLE)])
            if rng.random() < 0.06:
                ops.append(["low_ctl", rng.randrange(nlow), rng.choice(["advance", "resume", "pause"])])
    return {"family": "twin", "lows": lows, "covers": covers, "ops": ops,
            "light_fade": rng.choice([0, 0, 0, 100]), "lead_ms": rng.choice([0, 250, 13])}


def _twin_show_yaml(steps):
    out = []
    for st in steps:
        y = {"duration": -1 if st["ms"] == -1 else "%dms" % st["ms"]}
        if not st["dark"]:
            if st["form"] == "dict":
                v = {"color": st["color"]}
                if st["fade"] is not None:
                    v["fade"] = "%dms" % st["fade"]
            else:
                v = st["color"] if st["fade"] is None else "%s-f%dms" % (st["color"], st["fade"])
            y["lights"] = {"(led)": v}
        out.append(y)
    return out


def _run_twin(case):
    from vlib.boot import VMachine, MpfCrash

    viol = []
    clauses = {"cover_removed_twin": 0, "cover_removed_twin_midfade": 0}
    obs = {"twin_cases": 1, "twin_cover_stops": 0, "twin_cover_stops_inside_lower_fade": 0,
           "twin_samples_while_lower_fade_running": 0, "twin_lower_refade_while_covered": 0,
           "twin_samples_skipped_cover_fadeout": 0, "virtual_seconds": 0}
    lights = {}
    for name, num in (("ta", 10), ("tb", 14)):
        lights[name] = {"number": num, "subtype": "led", "type": "rgb"}
        if case.get("light_fade"):
            lights[name]["fade_ms"] = int(case["light_fade"])
    show_files = {}
    for i, lo in enumerate(case["lows"]):
        show_files["low%d" % i] = _twin_show_yaml(lo["steps"])
    for i, co in enumerate(case["covers"]):
        show_files["cover%d" % i] = _twin_show_yaml(co["steps"])
    shape = []
    with VMachine({"lights": lights}, shows=show_files) as vm:
        m = vm.machine
        la, lb = m.lights["ta"], m.lights["tb"]
        running_low = {}        # i -> (show on ta, show on tb)
        running_cover = []      # RunningShow on ta only
        st = {"clear_from": 0.0, "last_stop": None, "reported": 0}

        def settle():
            for _ in range(50):
                vm.advance(0)
                if not vm.loop._ready and not m.events.event_queue:
                    break

        def lower_fading(light):
            now = vm.now()
            return any(e.dest_time and e.dest_time > now and e.dest_color is not None for e in light.stack)

        def compare(after):
            now = vm.now()
            if running_cover:
                return
            if now < st["clear_from"]:
                obs["twin_samples_skipped_cover_fadeout"] += 1
                return
            if st["last_stop"] is None:
                return          # no cover has been stopped yet: nothing to compare against
            ca, cb = tuple(la.get_color()), tuple(lb.get_color())
            clauses["cover_removed_twin"] += 1
            if lower_fading(lb):
                clauses["cover_removed_twin_midfade"] += 1
                obs["twin_samples_while_lower_fade_running"] += 1
            if ca != cb:
                st["reported"] += 1
                sig = "C17:light_differs_from_twin_that_never_saw_stopped_show"
                if min(c["prio"] for c in case["covers"]) < max(lo["prio"] for lo in case["lows"]) and \
                        (lower_fading(la) or lower_fading(lb)):
                    # a show ABOVE the stopped cover is in a fade: the mechanism of the known finding
                    obs["twin_known_start_colour_samples"] = obs.get("twin_known_start_colour_samples", 0) + 1
                    sig = "C17:fade_started_above_a_later_stopped_show_keeps_its_colour_as_start_colour"
                if st["reported"] <= 2:
                    viol.append({"clause": "cover_removed_twin",
                                 "sig": sig,
                                 "detail": {"now": now, "cover_stopped_at": st["last_stop"], "after_op": after,
                                            "light_with_stopped_cover": ca, "twin_without_cover": cb,
                                            "stack_a": [repr(e) for e in la.stack],
                                            "stack_b": [repr(e) for e in lb.stack]}})

        try:
            vm.advance(case.get("lead_ms", 0) / 1000.0 + 0.25)
            for op in case["ops"]:
                kind = op[0]
                if kind == "adv":
                    shape.append("A" + _bucket(op[1]))
                    vm.advance(op[1] / 1000.0)
                    obs["virtual_seconds"] += op[1] / 1000.0
                elif kind == "low_play":
                    i = op[1]
                    if i >= len(case["lows"]) or i in running_low:
                        continue
                    lo = case["lows"][i]
                    shape.append("L%d" % len(lo["steps"]))
                    pair = []
                    for led in ("ta", "tb"):
                        pair.append(m.shows["low%d" % i].play(priority=lo["prio"], loops=lo["loops"], speed=lo["speed"],
                                                               show_tokens={"led": led}, sync_ms=0))
                    running_low[i] = tuple(pair)
                elif kind == "low_ctl":
                    pair = running_low.get(op[1])
                    if not pair:
                        continue
                    shape.append("c" + op[2][0:2])
                    covered = bool(running_cover)
                    for rs in pair:
                        getattr(rs, op[2])()
                    if covered and lower_fading(lb):
                        obs["twin_lower_refade_while_covered"] += 1
                elif kind == "cover_play":
                    i = op[1]
                    if i >= len(case["covers"]) or any(c[0] == i for c in running_cover):
                        continue
                    co = case["covers"][i]
                    shape.append("C%d" % len(co["steps"]))
                    rs = m.shows["cover%d" % i].play(priority=co["prio"], loops=co["loops"], speed=co["speed"],
                                                     show_tokens={"led": "ta"}, sync_ms=0)
                    running_cover.append((i, rs))
                elif kind == "cover_stop":
                    if not running_cover:
                        continue
                    shape.append("X")
                    i, rs = running_cover.pop(0)
                    rs.stop()
                    obs["twin_cover_stops"] += 1
                    if lower_fading(lb):
                        obs["twin_cover_stops_inside_lower_fade"] += 1
                    st["last_stop"] = vm.now()
                    st["clear_from"] = max(st["clear_from"], vm.now() + case.get("light_fade", 0) / 1000.0 + 0.001)
                settle()
                compare(op)
            # wind down: everything stopped -> both dark
            for c in running_cover:
                c[1].stop()
            del running_cover[:]
            for pair in running_low.values():
                for rs in pair:
                    rs.stop()
            vm.advance(1.0)
            compare(["end"])
        except MpfCrash as e:
            viol.append({"clause": "cover_removed_twin", "sig": "C17:crash_in_show_code",
                         "detail": {"exc": repr(e)[:700]}})
    return {"violations": viol, "clauses": clauses,
            "shape": "TW%d:%s#%s" % (len(case["lows"]), "".join(shape), "f" if case.get("light_fade") else "n"),
            "nontrivial": clauses["cover_removed_twin"] > 0, "obs": obs}


# =============================================================================================
# config / show file construction
UPD_SPEEDS = [0.5, 2, 1.5]


def _fmt_ms(ms, rel=False):
    return ("+" if rel else "") + "%dms" % ms


def _show_yaml(show):
    """The show file as a list of step dicts (written with ruamel by the harness)."""
    out = []
    total = show["lead_ms"]
    steps = show["steps"]
    for i, st in enumerate(steps):
        y = {}
        if i == 0:
            if show["lead_ms"]:
                y["time"] = _fmt_ms(show["lead_ms"])
            elif show.get("zero_time"):
                y["time"] = 0
        else:
            prev = steps[i - 1]
            if prev["enc"] == "T":
                y["time"] = _fmt_ms(prev["ms"], rel=True)
            elif prev["enc"] == "A":
                y["time"] = _fmt_ms(total)
        if st["enc"] == "D":
            if st["ms"] == -1:
                y["duration"] = -1
            elif st["ms"] % 125 == 0 and (i % 2 == 0):
                y["duration"] = st["ms"] / 1000.0
            else:
                y["duration"] = _fmt_ms(st["ms"])
        if st["lights"]:
            d = {}
            for key, val in st["lights"]:
                if isinstance(val, dict):
                    v = {"color": val["color"], "priority": val.get("priority", 0)}
                    if val.get("fade") is not None:
                        v["fade"] = "%dms" % val["fade"]
                    d[key] = v
                else:
                    d[key] = val
            y["lights"] = d
        if st["coil"]:
            y["coils"] = {st["coil"][0]: st["coil"][1]}
        if st["mark"]:
            y["events"] = [st["mark"]]
        if st.get("child"):
            y["shows"] = {st["child"]["show"]: {"loops": st["child"]["loops"], "speed": st["child"]["speed"]}}
        if st["ms"] > 0:
            total += st["ms"]
        out.append(y)
    if steps[-1]["enc"] in ("T", "A"):
        out.append({"time": _fmt_ms(steps[-1]["ms"], rel=True) if steps[-1]["enc"] == "T" else _fmt_ms(total)})
    return out


def _player_cfg(variants, scope):
    sp = {}
    for v in variants:
        if v["scope"] != scope:
            continue
        e = {"key": v["key"], "speed": v["speed"], "loops": v["loops"], "start_step": v["start_step"],
             "priority": v["priority"], "manual_advance": bool(v["manual"]), "start_running": bool(v["start_running"])}
        if v.get("sync_ms") is not None:
            e["sync_ms"] = v["sync_ms"]
        if v["tokens"]:
            e["show_tokens"] = dict(v["tokens"])
        if v["events"]:
            for kind in ("played", "stopped", "looped", "completed"):
                e["events_when_" + kind] = "e_%s_%d" % (kind, v["vid"])
        sp["p_%d" % v["vid"]] = {v["show"]: e}
    for key in KEYS:
        for act in ("stop", "pause", "resume", "advance", "step_back"):
            sp["c_%s_%s_%s" % (scope, key, act)] = {key: {"action": act}}
        for i, s in enumerate(UPD_SPEEDS):
            sp["c_%s_%s_update_%d" % (scope, key, i)] = {key: {"action": "update", "speed": s}}
    return sp


def _machine_cfg(case):
    return {
        "modes": ["m1"],
        "lights": {"l0": {"number": 0, "tags": "grp"}, "l1": {"number": 1, "tags": "grp"},
                   "l2": {"number": 2, "fade_ms": 300}, "l3": {"number": 3}},
        "coils": {"c0": {"number": 0, "default_pulse_ms": 20, "allow_enable": True},
                  "c1": {"number": 1, "default_pulse_ms": 20}},
        "show_player": _player_cfg(case["variants"], "g"),
        "mpf": {"default_show_sync_ms": int(case.get("default_sync_ms") or 0)},
    }


def _mode_cfg(case):
    return {"mode": {"start_events": "m1_go", "stop_events": "m1_halt", "game_mode": False,
                     "priority": MODE_PRIORITY},
            "show_player": _player_cfg(case["variants"], "m")}


class _Latency:
    """loop.time() = base virtual time of the instant + latency 'burned' by observed callbacks in this instant."""

    def __init__(self, enabled):
        from mpf.tests.loop import TimeTravelLoop
        self.cls = TimeTravelLoop
        self.orig = TimeTravelLoop.time
        self.enabled = enabled
        self.v = 0.0
        self.base = None
        lat = self
        if enabled:
            def time(loop):
                if lat.base != loop._time:
                    lat.base = loop._time
                    lat.v = 0.0
                return loop._time + lat.v
            TimeTravelLoop.time = time

    def burn(self, loop, secs):
        if not self.enabled:
            return
        if self.base != loop._time:
            self.base = loop._time
            self.v = 0.0
        self.v += secs

    def close(self):
        self.cls.time = self.orig


# =============================================================================================
def run_case(case):
    from vlib.boot import guard_import
    guard_import()
    if case.get("family") == "twin":
        return _run_twin(case)
    lat = _Latency(bool(case.get("latency")))
    restore = []
    try:
        return _run(case, lat, restore)
    finally:
        for obj, name, orig in reversed(restore):
            setattr(obj, name, orig)
        lat.close()


def _bucket(ms):
    return "0" if ms == 0 else "s" if ms <= 20 else "m" if ms <= 500 else "l" if ms <= 5000 else "x"


def _run(case, lat, restore):
    from vlib.boot import VMachine, MpfCrash
    from vlib import c17_model as M
    from mpf.assets.show import Show, RunningShow
    from mpf.core.config_player import ConfigPlayer
    from mpf.devices.light import Light
    from mpf.devices.driver import Driver
    from mpf.core.rgb_color import RGBColor

    viol = []
    counts = {}

    def report(clause, sig, **detail):
        k = (clause, sig)
        counts[k] = counts.get(k, 0) + 1
        if counts[k] <= 2 and len(viol) < 24:
            viol.append({"clause": clause, "sig": sig, "detail": detail})

    shows = {s["name"]: s for s in case["shows"]}
    variants = {v["vid"]: v for v in case["variants"]}
    clauses = {"events": 0, "cleanup_light": 0, "cleanup_instances": 0, "routing": 0, "final_state": 0,
               "cleanup_coil": 0}
    obs = {"ops": 0, "plays": 0, "ctl_requests": 0, "mode_stops": 0, "virtual_seconds": 0, "stopped_instances": 0,
           "color_commands": 0, "fadeout_entries_seen": 0, "events_observed": 0, "advances_aimed_at_a_step_instant": 0}
    shape = []
    log = []
    pos = [0]
    harness_errors = []

    show_files = {name: _show_yaml(s) for name, s in shows.items()}
    with VMachine(_machine_cfg(case), modes={"m1": _mode_cfg(case)}, shows=show_files) as vm:
        m = vm.machine
        loop = vm.loop
        default_sync = int(case.get("default_sync_ms") or 0)
        model = M.Model(shows, report, MODE_PRIORITY, default_sync)

        def stamp():
            return loop._time, loop.time()

        # ---- wrappers ---------------------------------------------------------------------
        def wrap(obj, name, fn):
            restore.append((obj, name, obj.__dict__[name]))
            setattr(obj, name, fn)

        o_pwc = Show.play_with_config

        def play_with_config(self, show_config, start_time=None, start_running=True, start_callback=None,
                             stop_callback=None, start_step=None):
            sc = self.machine.show_controller
            ctx = "show_%d" % (sc._next_show_id + 1)
            b, t = stamp()
            st = start_time if start_time else self.machine.clock.get_time()
            replaces = None
            owner = getattr(start_callback, "__self__", None)
            if isinstance(owner, RunningShow):
                replaces = owner.context
            ev = {}
            for kind in ("played", "stopped", "looped", "completed"):
                lst = getattr(show_config, "events_when_" + kind)
                ev[kind] = lst[0] if lst else None
            cfg = {"speed": show_config.speed, "loops": show_config.loops, "sync_ms": show_config.sync_ms,
                   "manual_advance": show_config.manual_advance, "priority": show_config.priority,
                   "tokens": dict(show_config.show_tokens or {}), "events": ev}
            log.append(("create", b, t, ctx, self.name, cfg, st, int(start_step), bool(start_running), replaces))
            try:
                rs = o_pwc(self, show_config, start_time, start_running, start_callback, stop_callback, start_step)
            finally:
                b2, t2 = stamp()
                log.append(("create_end", b2, t2, ctx))
            if rs.context != ctx:
                harness_errors.append("context prediction failed: %s != %s" % (rs.context, ctx))
            return rs
        wrap(Show, "play_with_config", play_with_config)

        def wrap_req(kind):
            orig = RunningShow.__dict__[kind]

            def req(self, *args, **kwargs):
                b, t = stamp()
                kw = dict(kwargs)
                if kind == "advance":
                    if args:
                        kw["steps"] = args[0]
                    if len(args) > 1:
                        kw["show_step"] = args[1]
                elif kind == "step_back" and args:
                    kw["steps"] = args[0]
                log.append(("req", b, t, self.context, kind, kw))
                try:
                    return orig(self, *args, **kwargs)
                finally:
                    b2, t2 = stamp()
                    log.append(("req_end", b2, t2, self.context, kind))
            wrap(RunningShow, kind, req)
        for kind in ("stop", "pause", "resume", "advance", "step_back", "update"):
            wrap_req(kind)

        o_spc = ConfigPlayer.show_play_callback

        def show_play_callback(self, settings, priority, calling_context, show_tokens, context, start_time):
            b, t = stamp()
            log.append(("step", b, t, context, calling_context, self.show_section, start_time, priority,
                        dict(show_tokens or {})))
            lat.burn(loop, BURN)
            try:
                return o_spc(self, settings, priority, calling_context, show_tokens, context, start_time)
            finally:
                b2, t2 = stamp()
                log.append(("step_end", b2, t2, context, calling_context, self.show_section))
        wrap(ConfigPlayer, "show_play_callback", show_play_callback)

        o_color = Light.color

        def color(self, color, fade_ms=None, priority=0, key=None, start_time=None):
            if isinstance(key, str) and key.startswith("show_") and key.endswith(".light_player"):
                b, t = stamp()
                c = tuple(color) if isinstance(color, RGBColor) else color
                log.append(("color", b, t, self.name, c, fade_ms, priority, key, start_time))
                obs["color_commands"] += 1
            return o_color(self, color, fade_ms, priority, key, start_time)
        wrap(Light, "color", color)

        def wrap_coil(action):
            orig = Driver.__dict__[action]

            def f(self, *args, **kwargs):
                b, t = stamp()
                log.append(("coil", b, t, self.name, action))
                return orig(self, *args, **kwargs)
            wrap(Driver, action, f)
        for action in ("enable", "disable", "pulse"):
            wrap_coil(action)

        def rec(name):
            def h(**kwargs):
                b, t = stamp()
                log.append(("event", b, t, name))
                obs["events_observed"] += 1
            return h
        names = set()
        for v in variants.values():
            if v["events"]:
                for kind in ("played", "stopped", "looped", "completed"):
                    names.add("e_%s_%d" % (kind, v["vid"]))
        for s in shows.values():
            for st in s["steps"]:
                if st["mark"]:
                    names.add(st["mark"])
        for name in sorted(names):
            m.events.add_handler(name, rec(name), priority=1000000)

        # ---- harness state ------------------------------------------------------------------
        keymap = {}          # (scope, key) -> ctx registered in the show_player for that key
        meta = {}            # ctx -> (scope, key, vid)
        bg = {}              # light -> (priority, rgb)
        state = {"mode": False, "opid": 0}

        def settle():
            for _ in range(200):
                vm.advance(0)
                if not loop._ready and not m.events.event_queue:
                    break

        def sync_model():
            new = log[pos[0]:]
            pos[0] = len(log)
            model.process(new)
            return new

        def tick():
            b, t = stamp()
            log.append(("tick", b, t))
            sync_model()
            check_cleanup(b)

        def live(ctx):
            return ctx is not None and ctx in model.inst and model.inst[ctx].state != "stopped"

        def check_cleanup(now):
            players = m.show_controller.show_players
            for inst in model.inst.values():
                if inst.state != "stopped":
                    continue
                key = inst.ctx + ".light_player"
                for light in m.lights.values():
                    for entry in light.stack:
                        if entry.key != key:
                            continue
                        clauses["cleanup_light"] += 1
                        fading = entry.dest_color is None and entry.dest_time and entry.dest_time >= now - 0.01
                        if fading:
                            obs["fadeout_entries_seen"] += 1
                            continue
                        sg = model.attr_sig(inst, "C17:light_entry_left_after_stop")
                        if ("L", sg) in inst.after_stop_reported:
                            continue
                        inst.after_stop_reported.add(("L", sg))
                        report("cleanup_light", sg, ctx=inst.ctx, show=inst.show, light=light.name,
                               entry=repr(entry), now=now, stopped_at=inst.t_stop, stop_kind=inst.stop_kind)
                clauses["cleanup_light"] += 1
                for ch in model.inst.values():
                    if ch.parent == inst.ctx:
                        clauses["cleanup_instances"] += 1
                        if ch.state != "stopped" and ("C", ch.ctx) not in inst.after_stop_reported:
                            inst.after_stop_reported.add(("C", ch.ctx))
                            report("cleanup_instances", model.attr_sig(inst, "C17:child_show_left_running_after_stop"),
                                   ctx=inst.ctx, show=inst.show, child=ch.ctx, child_show=ch.show, now=now,
                                   stopped_at=inst.t_stop)
                for sec, player in players.items():
                    d = player.instances.get(inst.ctx, {}).get(player.config_file_section)
                    clauses["cleanup_instances"] += 1
                    if d:
                        sg = model.attr_sig(inst, "C17:player_instance_left_after_stop")
                        if ("I", sg) in inst.after_stop_reported:
                            continue
                        inst.after_stop_reported.add(("I", sg))
                        report("cleanup_instances", sg, ctx=inst.ctx, show=inst.show, player=sec,
                               left=[repr(k) for k in d], now=now, stopped_at=inst.t_stop)

        def begin_op(kind, allowed):
            state["opid"] += 1
            b, t = stamp()
            log.append(("op", b, t, state["opid"], kind, [c for c in allowed if c]))
            obs["ops"] += 1

        def end_op():
            b, t = stamp()
            log.append(("op_end", b, t, state["opid"]))
            new = sync_model()
            check_cleanup(b)
            return new

        def check_cfg(ctx, v):
            inst = model.inst[ctx]
            exp_prio = v["priority"] + (MODE_PRIORITY if v["scope"] == "m" else 0)
            exp_start = v["start_step"] if v["start_step"] else 1
            got = {"show": inst.show, "speed": inst.speed, "loops": inst.cfg["loops"], "sync_ms": int(inst.cfg["sync_ms"] or 0),
                   "manual": bool(inst.cfg["manual_advance"]), "priority": inst.priority, "tokens": inst.tokens,
                   "start_step": inst.start_step, "start_running": inst.start_running}
            eff_sync = v["sync_ms"] if v.get("sync_ms") is not None else default_sync
            exp = {"show": v["show"], "speed": float(v["speed"]), "loops": v["loops"], "sync_ms": eff_sync,
                   "manual": bool(v["manual"]), "priority": exp_prio, "tokens": dict(v["tokens"]),
                   "start_step": exp_start, "start_running": bool(v["start_running"])}
            clauses["routing"] += 1
            if got != exp:
                report("routing", "C17:show_started_with_wrong_config", got=got, expected=exp, vid=v["vid"])

        def do_play(vid):
            v = variants.get(vid)
            if v is None or (v["scope"] == "m" and not state["mode"]):
                return
            slot = (v["scope"], v["key"])
            prev = keymap.get(slot)
            prev_live = live(prev)
            begin_op("play", [prev] if prev_live else [])
            obs["plays"] += 1
            model.play_hint = {"sync_ms": v.get("sync_ms")}
            m.events.post("p_%d" % vid)
            settle()
            new = end_op()
            model.play_hint = None
            top = [e[3] for e in new if e[0] == "create" and model.inst[e[3]].parent is None]
            clauses["routing"] += 1
            if not prev_live and len(top) != 1:
                report("routing", "C17:play_did_not_start_exactly_one_show", vid=vid, created=top)
            elif len(top) > 1:
                report("routing", "C17:play_started_several_shows", vid=vid, created=top)
            for c in top:
                check_cfg(c, v)
                meta[c] = (v["scope"], v["key"], vid)
                keymap[slot] = c

        def do_ctl(scope, key, action, upd=None):
            if scope == "m" and not state["mode"]:
                return
            slot = (scope, key)
            target = keymap.get(slot)
            is_live = live(target)
            begin_op(action, [target] if (action == "stop" and is_live) else [])
            obs["ctl_requests"] += 1
            if action == "update":
                m.events.post("c_%s_%s_update_%d" % (scope, key, upd))
            else:
                m.events.post("c_%s_%s_%s" % (scope, key, action))
            settle()
            new = end_op()
            if is_live:
                clauses["routing"] += 1
                hit = [e for e in new if e[0] == "req" and e[3] == target and e[4] == action]
                if not hit:
                    report("routing", "C17:request_not_delivered_to_show", action=action, key=key, scope=scope,
                           ctx=target)
                elif action == "update":
                    kw = hit[0][5]
                    if kw.get("speed") is None or abs(float(kw["speed"]) - UPD_SPEEDS[upd]) > 1e-12:
                        report("routing", "C17:update_delivered_wrong_speed", got=repr(kw), expected=UPD_SPEEDS[upd])
                elif action == "stop":
                    clauses["routing"] += 1
                    if live(target):
                        report("routing", "C17:stop_request_did_not_stop_show", ctx=target, key=key)
            if action == "stop":
                keymap.pop(slot, None)

        def do_mode_stop():
            if not state["mode"]:
                return
            allowed = [c for c, mt in meta.items() if mt[0] == "m" and live(c)]
            begin_op("mode_stop", allowed)
            obs["mode_stops"] += 1
            m.events.post("m1_halt")
            settle()
            end_op()
            state["mode"] = m.modes["m1"].active
            clauses["routing"] += 1
            left = [c for c in allowed if live(c)]
            if left:
                report("routing", "C17:mode_stop_left_show_running", ctxs=left)
            for slot in [s for s in keymap if s[0] == "m"]:
                del keymap[slot]

        def do_mode_start():
            if state["mode"]:
                return
            m.events.post("m1_go")
            settle()
            state["mode"] = m.modes["m1"].active
            tick()

        def do_adv(secs):
            if secs < 0:
                secs = 0
            vm.advance(secs)
            obs["virtual_seconds"] += secs
            tick()

        def do_bg(light, prio, rgb):
            lt = m.lights[light]
            if rgb is None:
                lt.remove_from_stack_by_key("bg", fade_ms=0)
                bg.pop(light, None)
            else:
                lt.remove_from_stack_by_key("bg", fade_ms=0)
                lt.color(RGBColor(tuple(rgb)), fade_ms=0, priority=prio, key="bg")
                bg[light] = (prio, tuple(rgb))
            settle()

        crashed = None
        try:
            do_mode_start()
            for op in case["ops"]:
                kind = op[0]
                if kind == "play":
                    shape.append("P")
                    do_play(op[1])
                elif kind == "ctl":
                    shape.append(op[3][0:2])
                    do_ctl(op[1], op[2], op[3])
                elif kind == "upd":
                    shape.append("U")
                    do_ctl(op[1], op[2], "update", op[3])
                elif kind == "adv":
                    shape.append("A" + _bucket(op[1]))
                    do_adv(op[1] / 1000.0)
                elif kind == "advsym":
                    shape.append("Y" + op[3][0])
                    target = keymap.get((op[1], op[2]))
                    inst = model.inst.get(target)
                    secs = 0.1
                    if inst is not None and inst.pend:
                        obs["advances_aimed_at_a_step_instant"] += 1
                        T = inst.pend[0]
                        now = vm.now()
                        if op[3] == "at":
                            secs = T - now
                        elif op[3] == "before":
                            secs = T - now - 0.001
                        elif op[3] == "after":
                            secs = T - now + 0.001
                        else:
                            secs = (T - now) / 2
                    do_adv(secs)
                elif kind == "mode_stop":
                    shape.append("S")
                    do_mode_stop()
                elif kind == "mode_start":
                    shape.append("T")
                    do_mode_start()
                elif kind == "bg":
                    do_bg(op[1], op[2], op[3])
            # ---- wind down: stop everything through the same public paths -------------------------
            for slot in sorted(keymap):
                do_ctl(slot[0], slot[1], "stop")
            do_mode_stop()
            # shows replaced 'in sync' by a show that never started are stopped with it; anything the model still
            # believes alive here was never reachable by a key any more (completed shows stay registered)
            do_adv(HORIZONS["final_settle_s"])
            now = loop._time
            alive = [i.ctx for i in model.inst.values() if i.state != "stopped"]
            if not alive:
                for name, light in m.lights.items():
                    clauses["final_state"] += 1
                    keys = sorted(e.key for e in light.stack)
                    exp_keys = ["bg"] if name in bg else []
                    got_color = tuple(light.get_color())
                    exp_color = bg[name][1] if name in bg else (0, 0, 0)
                    if keys != exp_keys or got_color != exp_color:
                        culprit = None
                        for k in keys:
                            c = model.inst.get(k.split(".")[0])
                            if c is not None:
                                culprit = c
                        sg = model.attr_sig(culprit, "C17:light_differs_from_never_played_baseline")
                        report("final_state", sg, light=name, stack=[repr(e) for e in light.stack], color=got_color,
                               expected_keys=exp_keys, expected_color=exp_color)
                clauses["cleanup_coil"] += 1
                clauses["final_state"] += 1
                if m.coils["c0"].hw_driver.state != "disabled":
                    sgs = [model.root_sig(i) for i in model.inst.values()
                           if model.root_sig(i) and any(st["coil"] and st["coil"][0] == "c0" for st in i.steps)]
                    report("cleanup_coil", sgs[0] if sgs else "C17:coil_left_enabled_after_all_shows_stopped",
                           state=m.coils["c0"].hw_driver.state)
            else:
                # a show nobody can reach any more and that never ends by itself is still a live show: fine
                pass
            res = model.match_events()
            clauses["events"] += res["evaluated"]
            for miss in res["missing"][:3]:
                report("events", model.event_owner_sig(miss["event"], miss["T"]) or "C17:show_event_not_posted", **miss)
            for un in res["unexpected"][:3]:
                report("events", model.event_owner_sig(un["event"], un["t"]) or "C17:show_event_posted_unexpectedly", **un)
        except MpfCrash as e:
            crashed = repr(e)
            try:
                sync_model()
            except Exception:   # noqa
                pass
            report("step_index", "C17:crash_in_show_code", exc=crashed[:700],
                   last_ops=case["ops"][-3:])
        obs["stopped_instances"] = sum(1 for i in model.inst.values() if i.state == "stopped")
        obs["child_instances"] = sum(1 for i in model.inst.values() if i.parent is not None)
        obs["cases_with_unreachable_live_show_at_end"] = 1 if any(i.state != "stopped" for i in model.inst.values()) \
            else 0

    if harness_errors:
        raise RuntimeError("; ".join(harness_errors[:3]))
    for k, n in model.clauses.items():
        clauses[k] = clauses.get(k, 0) + n
    for k, n in model.obs.items():
        obs[k] = n
    vshape = "|".join("%s:%d:%s%s%s" % (v["show"], v["loops"], "u" if v.get("sync_ms") is None else "y" if v["sync_ms"] else "0",
                                       "m" if v["manual"] else "a", v["scope"]) for v in case["variants"])
    nontrivial = model.obs["timer_steps"] > 0 and obs["stopped_instances"] > 0 and clauses["cleanup_light"] > 0
    # unknown / unexplained signatures first
    known_first = (M.SIG_D16, M.SIG_FORK)
    viol.sort(key=lambda v: v["sig"] in known_first)
    return {"violations": viol, "clauses": clauses, "shape": ("L" if case.get("long") else "") +
            ("G" if case.get("default_sync_ms") else "") + "".join(shape) + "#" + vshape, "nontrivial": nontrivial, "obs": obs}
