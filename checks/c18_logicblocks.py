"""C18 — Logic blocks count, accrue and sequence exactly as specified.

Runtime monitor: the REAL Counter / Accrual / Sequence devices (machine-wide, or inside a game mode with and
without persist_state) are driven through the real EventManager on MPF's TimeTravelLoop by generated, hostile
operation sequences (count/step events, enable, disable, reset, restart, add/subtract/jump control events, mode
stop/start, ball end, bursts in one tick, gaps aimed at the multiple-hit window end and the timeout instant +-1 ms).
Recording handlers on every hit / complete / timeout event and the public device attributes
(value/enabled/completed) are compared after every step with a set-valued reference model (vlib/c18_model.py).
"""
from vlib import c18_model as M

PROPERTY = "C18"
LEVEL = "exploration"
LEVEL_TEXT = ("Exploration: thousands of generated configurations x operation sequences x timings are executed on the "
              "unmodified logic-block classes in virtual time; a reference state machine is the oracle after every "
              "step. The space (configs x histories x timings) is unbounded, so sampling guided by the model's own "
              "timer deadlines is the level this family reaches.")
LEVEL_NOTE = ("Trusts MPF's EventManager (C01), DelayManager/clock (C13) and mode start/stop (C07) as transport; the "
              "reference model (vlib/c18_model.py, ~350 lines) and the listed tolerances are the trusted base.")
TECHNIQUE = ("runtime monitoring: model-based differential testing of the real devices at the event boundary "
             "(posted control events in, hit/complete/timeout events and value/enabled/completed out)")
RULE = ("case = 1-3 generated logic blocks (counter/accrual/sequence; direction, interval, start, goal, "
        "reset/disable on complete, hit window, timeout, custom event lists, shared events, persist_state in a mode, "
        "delays of 100/500/1500 ms on control events in 30% of the blocks with 2-4 of the same event inside the delay, "
        "template-valued goal in 30% / start in 12% of the counters with ops rewriting the variable between hits) "
        "plus 25-120 steps, each a burst of 1-4 events posted in one tick followed by a virtual-time gap (0, small, "
        "or aimed at a pending window/timeout deadline +-0/1/10 ms); distinct = block-type/config-class signature x "
        "sequence of model outcomes (accepted / rejected-disabled / rejected-window / rejected-order / completed / "
        "timeout ...) ; non-trivial = value oracle, hit-event oracle and completion oracle were all evaluated")
ASSUMPTIONS = [
    "one external event has at most one role per block (roles of one event on the same block are ordered by handler "
    "priority, which the statement does not cover); different blocks may share events",
    "constant goals: counter start value lies strictly before the goal in counting direction; interval != 0; "
    "integer values",
    "dynamic goals (count_complete_value: machine.c18_goal_<b> / current_player.c18_goal_<b>, changed between hits "
    "by set_machine_var / player variable writes, per player for current_player.*): the goal value current at an "
    "accepted hit (or add/subtract/jump) decides completion; changing the goal alone never completes a block (the "
    "next hit does if the value is then at/past the goal). Dynamic starting_count (machine.c18_start_<b>): the "
    "value current at a reset / fresh start is the start value",
    "a count event accepted by an enabled but already completed (not reset) counter still counts and posts hit "
    "events but never a second completion (statement: 'accepted while enabled')",
    "add/subtract/jump control events change the value without posting hit events and complete the block when the "
    "goal is reached; on a DISABLED counter both 'applied' and 'ignored' are accepted (statement silent)",
    "exact-instant coincidences (operation within 2 us of a window end or timeout instant) accept either order",
    "timeout clock: armed by enable/reset/restart/timeout-reset, stopped by disable and completion; where the "
    "statement is silent both outcomes are accepted: enable of an already enabled block (clock restarted or not), "
    "reset of a disabled block (clock running or not), a persisted block restored at mode start (no clock, old "
    "clock, fresh clock)",
    "a multiple-hit window that was open when the mode stopped may or may not still apply in the next mode run",
    "initial enabled state (start_enabled / enable_events semantics) is adopted from the first observation and must "
    "then be the same at every fresh start",
    "sequence whose completing step resets it and whose completing event is also a step-1 event: advancing to "
    "step 1 with the same event or not are both accepted (counted in obs.seq_wrap_double_observed)",
    "order of several hit events caused by ONE event on several accrual steps is not checked",
    "mode start/stop/ball end are issued in their own tick with a settle gap (mode life cycle itself is C07)",
    "logicblock_*_updated events are not judged (the statement does not mention them)",
    "delayed control events (`count_events: {ev: 500ms}`, also enable/disable/reset/restart/advance_random): every "
    "posted event is applied on its own at post time + delay; a delayed event of a mode block whose mode stopped "
    "meanwhile is never applied, and none is scheduled while the mode is not running; applications due within 2 us "
    "of each other, of a window/timeout instant or of the next burst are accepted in either order",
    "machine-wide blocks: the deadline of the timeout clock started during boot is read from the device's "
    "DelayManager (adopted, not judged); every later deadline is computed by the model",
]
HORIZONS = {"final_settle_s": 6.0, "tie_eps_s": M.EPS}
TIERS = {
    "quick": {"cases": 8000, "batch": 100, "case_timeout": 30},
    "thorough": {"cases": 200000, "batch": 500, "case_timeout": 60},
}
MIN_EVALS = {
    "quick": {"state": 200000, "hit_events": 130000, "hits_rejected": 90000, "completion": 15000,
              "after_complete": 9000, "window": 20000, "timeout": 100000, "sequence_order": 15000,
              "accrual_steps": 15000, "mode_restart": 3000, "persist": 1000, "no_crash": 100000, "delayed": 30000, "dynamic_goal": 3000},
    "thorough": {"state": 8000000, "hit_events": 5000000, "hits_rejected": 3300000, "completion": 580000,
                 "after_complete": 330000, "window": 750000, "timeout": 4000000, "sequence_order": 580000,
                 "accrual_steps": 580000, "mode_restart": 100000, "persist": 33000, "no_crash": 4000000,
                 "delayed": 1000000, "dynamic_goal": 100000},
}
SHRINK_KEYS = ["ops"]
# mechanisms already triaged as genuine defects of the unchanged tree (reported last so that anything new is replayed)
TRIAGED_SIGS = ("C18:crash_timer_after_mode_stop", "C18:timer_survives_mode_stop",
                "C18:crash_control_event_mode_stopped")

MODE = "m1"


# =============================================================================================== generation
def _gen_counter(rng, name, shared):
    direction = rng.choice(["up", "up", "down"])
    interval = rng.choice([1, 1, 1, 2, 3, 5, -1, -2])
    mag = abs(interval)
    sgn = 1 if direction == "up" else -1
    start = rng.choice([0, 0, 0, 1, 5, -3, 10])
    if rng.random() < 0.15:
        goal = None
    else:
        k = rng.choice([1, 2, 2, 3, 3, 4, 5])
        off = 0 if (mag == 1 or rng.random() < 0.6) else rng.randint(1, mag - 1)
        goal = start + sgn * (mag * k - off)
    b = {"name": name, "type": "counter", "dir": direction, "interval": interval, "start": start, "goal": goal,
         "window": rng.choice([0, 0, 0, 50, 100, 500, 1000]),
         "ctrl": []}
    if rng.random() < 0.3:
        for j in range(rng.randint(1, 3)):
            b["ctrl"].append([rng.choice(["add", "subtract", "jump"]), "%s_ctl%d" % (name, j),
                              rng.choice([1, 2, 3, 10, -1, 0])])
    ev = {"count": ["%s_count" % name]}
    if rng.random() < 0.25:
        ev["count"].append("%s_count2" % name)
    return b, ev


def _gen_steps(rng, name, kind):
    n = rng.choice([1, 2, 2, 3, 3, 4])
    steps = []
    for i in range(n):
        s = ["%s_s%d" % (name, i)]
        if rng.random() < 0.25:
            s.append("%s_s%db" % (name, i))
        steps.append(s)
    if n > 1 and rng.random() < (0.4 if kind == "sequence" else 0.25):
        # one event used for two steps (for sequences possibly first and last)
        i, j = rng.sample(range(n), 2)
        if kind == "sequence" and rng.random() < 0.4:
            i, j = 0, n - 1
        steps[j].append(steps[i][0])
    return steps


def _gen_block(rng, name, in_mode, shared):
    kind = rng.choice(["counter", "counter", "counter", "accrual", "sequence"])
    if kind == "counter":
        b, ev = _gen_counter(rng, name, shared)
        # dynamic (template) completion value / start value: machine.c18_goal_<name> | current_player.c18_goal_<name>
        b["goal_var"] = None
        if b["goal"] is not None and rng.random() < 0.3:
            b["goal_var"] = "player" if (in_mode and rng.random() < 0.5) else "machine"
        b["start_var"] = bool(rng.random() < 0.12)
    else:
        b = {"name": name, "type": kind, "steps": _gen_steps(rng, name, kind)}
        ev = {}
        if kind == "accrual" and rng.random() < 0.3:
            ev["random"] = ["%s_rnd" % name]
    b["timeout"] = rng.choice([0, 0, 0, 100, 300, 1000, 2000])
    b["roc"], b["doc"] = rng.choice([(True, True), (True, False), (True, False), (False, True), (False, False),
                                     (False, False)])
    b["persist"] = bool(in_mode and rng.random() < 0.5)
    b["start_enabled"] = rng.choice([None, None, True, False])
    for role, p in (("enable", 0.75), ("disable", 0.85), ("reset", 0.8), ("restart", 0.6)):
        if rng.random() < p:
            ev[role] = ["%s_%s" % (name, role)]
    b["hit_events"] = None if rng.random() < 0.5 else ["%s_h%d" % (name, i) for i in range(rng.randint(1, 2))]
    b["complete_events"] = None if rng.random() < 0.5 else ["%s_c%d" % (name, i) for i in range(rng.randint(1, 2))]
    # share some role events with the common pool (one role per event per block)
    used = set()
    for role in list(ev):
        if rng.random() < 0.2 and shared:
            x = rng.choice(shared)
            if x not in used:
                used.add(x)
                ev[role] = ev[role] + [x]
    if kind != "counter" and shared and rng.random() < 0.3:
        x = rng.choice(shared)
        if x not in used:
            used.add(x)
            rng.choice(b["steps"]).append(x)
    b["ev"] = ev
    # delayed control events (`count_events: {ev: 500ms}`): every posted event is applied `delay` later on its own
    delays = {}
    if rng.random() < 0.3:
        for role in sorted(ev):
            if rng.random() < (0.8 if role in ("count", "random") else 0.35):
                for e in ev[role]:
                    if rng.random() < 0.8:
                        delays[e] = rng.choice([100, 500, 500, 1500])
    b["delays"] = delays
    return b


def _sim_primary(specs, cands, t, burst, alive_mode, player):
    """Generator-side simulation (first candidate only) so that gaps can be aimed at real deadlines."""
    for name, sp in specs.items():
        sts = cands[name]
        for e in burst:
            sts = [y for x in sts[:1] for y in M.apply_event(sp, x, t, e)]
        cands[name] = sts[:1]


def gen_case(rng, tier, index):
    in_mode = rng.random() < 0.3
    shared = ["x0", "x1"]
    nb = rng.choice([1, 2, 2, 3])
    blocks = [_gen_block(rng, "b%d" % i, in_mode, shared) for i in range(nb)]
    specs = {b["name"]: M.Spec(b) for b in blocks}
    players = rng.choice([1, 1, 2]) if in_mode else 0
    nops = rng.randint(25, 60) if tier == "quick" else rng.randint(40, 120)

    # weighted external events
    pool = []
    for b in blocks:
        sp = specs[b["name"]]
        for e, roles in sp.roles.items():
            role = roles[0][0]
            w = {"count": 10, "step": 6, "random": 2, "enable": 3, "disable": 2, "reset": 2, "restart": 1,
                 "add": 1, "subtract": 1, "jump": 1}[role]
            pool.extend([e] * w)
    pool.sort()
    delayed_events = sorted(set(e for b in blocks for e in (b.get("delays") or {}) if e in pool))
    delayed_events = [e for e in delayed_events
                      if any(r[0] in ("count", "random") for b in blocks for r in specs[b["name"]].roles.get(e, ()))] \
        or delayed_events

    # light simulation of the primary model path to aim gaps at pending deadlines
    t = 0.001
    cands = {}
    for name, sp in specs.items():
        s = M.St()
        s.alive = not in_mode
        s.enabled = not sp.b["ev"].get("enable") if sp.b["start_enabled"] is None or not in_mode \
            else bool(sp.b["start_enabled"])
        s.init_en = s.enabled
        s.value = sp.start_value()
        if s.alive and s.enabled and sp.T:
            s.tmo = sp.T
        cands[name] = [s]
    ops = []
    mode_on = False
    if in_mode:
        ops.append({"sp": "mode_start", "gap": rng.choice([10, 50, 100])})
        mode_on = True
        for name, sp in specs.items():
            cands[name] = M.m_mode_start(sp, cands[name][0], t, 1)[:1]
        t += ops[-1]["gap"] / 1000.0
    dyn = [b for b in blocks if b.get("goal_var") or b.get("start_var")]
    for _ in range(nops):
        r = rng.random()
        if dyn and rng.random() < 0.09:
            b = rng.choice(dyn)
            sp = specs[b["name"]]
            st = cands[b["name"]][0]
            sgn = 1 if sp.direction == "up" else -1
            mag = abs(sp.hv)
            if b.get("goal_var") and (not b.get("start_var") or rng.random() < 0.75):
                cur = st.value if (st.alive and isinstance(st.value, int)) else sp.start
                v = rng.choice([cur + sgn * mag * j for j in (0, 1, 1, 2, 2, 3, 5)] +
                               [cur - sgn * mag, cur + sgn * (mag * 2 - 1), sp.start + sgn * mag * rng.randint(1, 5)])
                op = {"sp": "setgoal", "block": b["name"], "value": v, "gap": rng.choice([0, 0, 0, 1, 10, 100])}
                sp.goal = v
            else:
                v = rng.choice([0, 1, 2, 5, -3, 10, sp.start + sgn * mag])
                op = {"sp": "setstart", "block": b["name"], "value": v, "gap": rng.choice([0, 0, 1, 10, 100])}
                sp.start = v
            ops.append(op)
            t2 = t + op["gap"] / 1000.0
            for name, sp2 in specs.items():
                try:
                    cands[name] = [y for x in cands[name][:1] for y in M.run_timers(sp2, x, t2)][-1:]
                except M.ModelOverflow:
                    pass
            t = t2
            continue
        if in_mode and r < 0.07:
            if mode_on and rng.random() < 0.25 and players:
                op = {"sp": "end_ball", "gap": rng.choice([10, 100, 1000])}
                mode_on = False
                for name, sp in specs.items():
                    cands[name] = M.m_mode_stop(sp, cands[name][0], t, 1)[:1]
                t += 1.0
            elif mode_on:
                op = {"sp": "mode_stop", "gap": rng.choice([10, 50, 300, 1000, 2500])}
                mode_on = False
                for name, sp in specs.items():
                    cands[name] = M.m_mode_stop(sp, cands[name][0], t, 1)[:1]
            else:
                op = {"sp": "mode_start", "gap": rng.choice([10, 50, 100])}
                mode_on = True
                for name, sp in specs.items():
                    cands[name] = M.m_mode_start(sp, cands[name][0], t, 1)[:1]
        else:
            if in_mode and not mode_on and rng.random() < 0.5:
                op = {"sp": "mode_start", "gap": rng.choice([10, 50, 100])}
                mode_on = True
                for name, sp in specs.items():
                    cands[name] = M.m_mode_start(sp, cands[name][0], t, 1)[:1]
            else:
                k = rng.choice([1, 1, 1, 1, 1, 1, 2, 2, 3, 4])
                burst = [rng.choice(pool) for _ in range(k)]
                if rng.random() < 0.1:
                    burst = burst + burst[:1]       # same event twice in one tick
                if delayed_events and rng.random() < 0.25:
                    # several of the same delayed control event inside its delay (same tick / following ticks)
                    e = rng.choice(delayed_events)
                    if rng.random() < 0.5:
                        burst = [e] * rng.randint(2, 4)
                    else:
                        burst = [e] + burst[:1]
                _sim_primary(specs, cands, t, burst, mode_on, 1)
                # gap
                deadlines = []
                for name in specs:
                    s = cands[name][0]
                    if s.alive:
                        for d in (s.win, s.tmo):
                            if d is not None and d > t:
                                deadlines.append(d)
                    for p in s.pend:
                        if p[0] > t:
                            deadlines.append(p[0])
                g = rng.random()
                if g < 0.22:
                    gap = 0
                elif g < 0.45:
                    gap = rng.choice([1, 2, 5, 10, 20, 50])
                elif g < 0.85 and deadlines:
                    d = rng.choice(deadlines)
                    gap = int(round((d - t) * 1000)) + rng.choice([-10, -1, -1, 0, 0, 1, 1, 10])
                    if rng.random() < 0.3:
                        gap = gap // 2
                    gap = max(0, gap)
                else:
                    gap = rng.choice([100, 250, 400, 600, 1100, 2100, 3000])
                op = {"post": burst, "gap": gap}
        ops.append(op)
        t2 = t + op["gap"] / 1000.0
        for name, sp in specs.items():
            try:
                cands[name] = [y for x in cands[name][:1] for y in M.run_timers(sp, x, t2)][-1:]
            except M.ModelOverflow:
                pass
        t = t2
    return {"in_mode": in_mode, "players": players, "blocks": blocks, "ops": ops}


# =============================================================================================== MPF config
def _block_cfg(b):
    c = {}
    ev = b.get("ev") or {}
    delays = b.get("delays") or {}

    def evs(lst):
        if any(delays.get(e) for e in lst):
            return {e: ("%dms" % delays[e]) if delays.get(e) else 0 for e in lst}      # dict form {event: delay}
        return ", ".join(lst)

    for role, key in (("enable", "enable_events"), ("disable", "disable_events"), ("reset", "reset_events"),
                      ("restart", "restart_events")):
        if ev.get(role):
            c[key] = evs(ev[role])
    c["reset_on_complete"] = bool(b.get("roc", True))
    c["disable_on_complete"] = bool(b.get("doc", True))
    if b.get("persist"):
        c["persist_state"] = True
    if b.get("start_enabled") is not None:
        c["start_enabled"] = bool(b["start_enabled"])
    if b.get("timeout"):
        c["logic_block_timeout"] = "%dms" % b["timeout"]
    if b.get("hit_events"):
        c["events_when_hit"] = ", ".join(b["hit_events"])
    if b.get("complete_events"):
        c["events_when_complete"] = ", ".join(b["complete_events"])
    if b["type"] == "counter":
        c["count_events"] = evs(ev["count"])
        c["direction"] = b.get("dir", "up")
        c["count_interval"] = b.get("interval", 1)
        c["starting_count"] = ("machine.c18_start_%s" % b["name"]) if b.get("start_var") else b.get("start", 0)
        if b.get("goal") is not None:
            c["count_complete_value"] = {"machine": "machine.c18_goal_%s" % b["name"],
                                         "player": "current_player.c18_goal_%s" % b["name"]}.get(
                b.get("goal_var"), b["goal"])
        if b.get("window"):
            c["multiple_hit_window"] = "%dms" % b["window"]
        if b.get("ctrl"):
            c["control_events"] = [{"action": a, "event": e, "value": v} for a, e, v in b["ctrl"]]
    else:
        c["events"] = [", ".join(s) for s in b["steps"]]
        if ev.get("random"):
            c["advance_random_events"] = evs(ev["random"])
    return c


SECTION = {"counter": "counters", "accrual": "accruals", "sequence": "sequences"}


def _configs(case):
    dev = {}
    for b in case["blocks"]:
        dev.setdefault(SECTION[b["type"]], {})[b["name"]] = _block_cfg(b)
    mvars, pvars = {}, {}
    for b in case["blocks"]:
        if b.get("goal_var") == "machine":
            mvars["c18_goal_%s" % b["name"]] = {"initial_value": b["goal"], "value_type": "int", "persist": False}
        elif b.get("goal_var") == "player":
            pvars["c18_goal_%s" % b["name"]] = {"initial_value": b["goal"], "value_type": "int"}
        if b.get("start_var"):
            mvars["c18_start_%s" % b["name"]] = {"initial_value": b["start"], "value_type": "int", "persist": False}
    if case.get("in_mode"):
        cfg = {"modes": [MODE], "game": {"balls_per_game": 99}}
        mode = {"mode": {"start_events": "c18_mode_start", "stop_events": "c18_mode_stop", "priority": 100}}
        mode.update(dev)
        res = (cfg, {MODE: mode}, "fake")
    else:
        res = (dev, None, "plain")
    if mvars:
        res[0]["machine_vars"] = mvars
    if pvars:
        res[0]["player_vars"] = pvars
    return res


# =============================================================================================== classification
def _count_kind(sp, evs):
    h = sum(1 for e in evs if e[1] in sp.hit_events)
    c = sum(1 for e in evs if e[1] in sp.complete_events)
    to = sum(1 for e in evs if e[1] == sp.timeout_event)
    return h, c, to


def _classify(sp, prim, obs, dev_state, since_restart, pending_before, dyn_goal=False):
    """Name the mechanism by diffing the observation against the model's preferred successor."""
    nh = max(1, len(sp.hit_events))
    nc = max(1, len(sp.complete_events))
    eh, ec, eto = _count_kind(sp, prim.out)
    oh, oc, oto = _count_kind(sp, obs)
    notes = prim.notes
    if not prim.alive and (oh or oc or oto):
        if pending_before and not oto:
            return "delayed", "C18:delayed_control_event_applied_after_mode_stop"
        if oto:
            return "timeout", "C18:timer_survives_mode_stop"
        return "hit_events", "C18:events_while_mode_stopped"
    if oto > eto:
        if since_restart:
            return "timeout", "C18:timer_survives_mode_stop"
        if not prim.enabled and "timeout_fired" not in notes:
            return "timeout", "C18:timeout_while_disabled"
        return "timeout", "C18:unexpected_timeout"
    if oto < eto:
        return "timeout", "C18:missing_timeout"
    if oh > eh:
        if "hit_rejected_disabled" in notes:
            return "hit_events", "C18:hit_accepted_while_disabled"
        if "hit_rejected_window" in notes:
            return "window", "C18:hit_accepted_inside_window"
        if "hit_rejected_order" in notes:
            return "sequence_order", "C18:sequence_out_of_order_advance"
        if sp.type == "sequence":
            return "sequence_order", "C18:sequence_multiple_advance_on_one_event"
        if "hit_rejected_repeat" in notes:
            return "accrual_steps", "C18:accrual_step_hit_twice"
        return "hit_events", "C18:extra_hit_event"
    if oh < eh:
        if "delayed_applied" in notes:
            return "delayed", "C18:delayed_control_event_lost"
        if "window_closed" in notes or (since_restart and sp.W):
            return "window", "C18:hit_rejected_outside_window"
        if sp.W and "hit_accepted" in notes:
            return "window", "C18:hit_rejected_outside_window"
        return "hit_events", "C18:hit_not_accepted"
    if oc != ec and dyn_goal:
        return "dynamic_goal", "C18:completion_against_stale_goal"
    if oc > ec:
        if "complete_suppressed" in notes or oc >= 2 * nc:
            return "completion", "C18:extra_completion"
        return "completion", "C18:completion_without_goal"
    if oc < ec:
        return "completion", "C18:missing_completion"
    if not M.events_match(sp, prim.out, obs):
        a, b = M.norm_events(sp, prim.out), M.norm_events(sp, obs)
        for x, y in zip(a, b):
            if x[1] != y[1]:
                return "completion", "C18:completion_not_at_goal_hit"
            if x[2] != y[2]:
                if sp.type == "sequence":
                    return "sequence_order", "C18:sequence_step_mismatch"
                if sp.type == "accrual":
                    return "accrual_steps", "C18:accrual_step_mismatch"
                return "state", "C18:hit_event_count_value_mismatch"
            if abs(x[0] - y[0]) > M.EPS:
                return "timeout", "C18:timeout_at_wrong_time"
        return "hit_events", "C18:event_stream_mismatch"
    if dev_state is not None and prim.alive:
        if dev_state["value"] != prim.public()["value"]:
            if "restored" in notes:
                return "mode_restart", "C18:persisted_state_not_restored"
            return "state", "C18:value_mismatch"
        if dev_state["enabled"] != prim.enabled:
            if "completed" in notes:
                return "after_complete", "C18:enabled_wrong_after_complete"
            if "restored" in notes:
                return "mode_restart", "C18:persisted_state_not_restored"
            return "state", "C18:enabled_mismatch"
        if dev_state["completed"] != prim.completed:
            return "state", "C18:completed_flag_mismatch"
    return "state", "C18:unexplained_mismatch"


# =============================================================================================== execution
def run_case(case):
    from vlib.boot import VMachine, MpfCrash

    clauses = {k: 0 for k in ("state", "hit_events", "hits_rejected", "completion", "after_complete", "window",
                              "timeout", "sequence_order", "accrual_steps", "mode_restart", "no_crash", "persist",
                              "delayed", "dynamic_goal")}
    obs_stats = {"events_recorded": 0, "steps": 0, "bursts": 0, "posts": 0, "timeouts_seen": 0, "completions_seen": 0,
                 "hits_seen": 0, "forks_max": 0, "seq_wrap_double_observed": 0, "tie_steps": 0, "blocks": 0,
                 "aborted_blocks": 0, "timeout_of_disabled_block_observed": 0,
                 "ctrl_applied_while_disabled_observed": 0, "delayed_scheduled": 0,
                 "delayed_pending_max": 0, "goal_changes": 0, "start_changes": 0, "mode_starts": 0, "mode_stops": 0, "ball_ends": 0}
    violations = []
    shape_parts = []
    trace = []

    blocks = case["blocks"]
    specs = {b["name"]: M.Spec(b) for b in blocks}
    cfg, modes, kind = _configs(case)
    in_mode = bool(case.get("in_mode"))
    out_owner = {}
    for sp in specs.values():
        for e in sp.out_events:
            out_owner[e] = sp.name
    for b in blocks:
        shape_parts.append("%s%s%s%s%s%s%s" % (
            b["type"][0], "r" if b.get("roc", True) else "-", "d" if b.get("doc", True) else "-",
            "W" if b.get("window") else "-", "T" if b.get("timeout") else "-", "P" if b.get("persist") else "-",
            ("g" if b.get("goal") is not None else "n") if b["type"] == "counter" else str(len(b["steps"]))))

    with VMachine(cfg, modes=modes, kind=kind) as vm:
        m = vm.machine
        rec = []

        def mk(evname):
            def _h(**kwargs):
                rec.append((vm.loop.time(), evname, kwargs.get("count"), kwargs.get("step")))
            return _h

        for e in sorted(out_owner):
            m.events.add_handler(e, mk(e), priority=1)

        devs = {}
        for b in blocks:
            devs[b["name"]] = getattr(m, SECTION[b["type"]])[b["name"]]
        obs_stats["blocks"] += len(blocks)

        def dev_state(name):
            d = devs[name]
            v = d.value
            if isinstance(v, list):
                v = list(v)
            return {"value": v, "enabled": bool(d.enabled), "completed": bool(d.completed),
                    "has_state": v is not None}

        def cur_player():
            g = m.game
            if not g or not g.player:
                return None
            return g.player.number

        crashed = None
        try:
            if in_mode:
                vm.t.start_game()
                for _ in range(max(0, case.get("players", 1) - 1)):
                    vm.t.add_player()
                vm.advance(0.5)
        except MpfCrash:           # game start problems are not this property's observable: harness error
            raise
        mode_obj = m.modes[MODE] if in_mode else None

        # ---- initial candidates
        cands = {}
        active = set(specs)
        restarted_at = {n: None for n in specs}

        def since_restart_f(name, now):
            r = restarted_at[name]
            return r is not None and now - r <= specs[name].T + specs[name].W + 0.01
        for name, sp in specs.items():
            if in_mode:
                s = M.St()
                s.value = None
                cands[name] = [s]
            else:
                peek = None
                try:
                    h = devs[name].delay.delays.get("timeout")
                    if h is not None:
                        peek = h[0].when()
                except Exception:      # noqa
                    peek = None
                cands[name] = M.m_boot(sp, peek)

        mode_alive = [not in_mode]
        player_goals = {n: {} for n in specs}
        goal_changed = set()

        def step(idx, op):
            """Execute one step on the real machine and on every candidate; compare."""
            nonlocal crashed
            t = vm.now()
            del rec[:]
            special = op.get("sp")
            burst = list(op.get("post") or [])
            player_before = cur_player()
            crash = None
            # dynamic goals: the goal in force is the template's current value (per player for current_player.*)
            for n_, sp_ in specs.items():
                if sp_.b.get("goal_var") == "player":
                    sp_.goal = player_goals[n_].get(player_before, sp_.b["goal"])
            if special in ("setgoal", "setstart"):
                sp_ = specs.get(op.get("block"))
                v_ = op.get("value")
                if sp_ is not None and sp_.type == "counter" and isinstance(v_, int):
                    nm = sp_.name
                    if special == "setstart" and sp_.b.get("start_var"):
                        m.variables.set_machine_var("c18_start_%s" % nm, v_)
                        sp_.start = v_
                        obs_stats["start_changes"] += 1
                    elif special == "setgoal" and sp_.b.get("goal_var") == "machine":
                        m.variables.set_machine_var("c18_goal_%s" % nm, v_)
                        sp_.goal = v_
                        goal_changed.add(nm)
                        obs_stats["goal_changes"] += 1
                    elif special == "setgoal" and sp_.b.get("goal_var") == "player" and m.game and m.game.player:
                        m.game.player["c18_goal_%s" % nm] = v_
                        player_goals[nm][player_before] = v_
                        sp_.goal = v_
                        goal_changed.add(nm)
                        obs_stats["goal_changes"] += 1
                special = None
                burst = []
            try:
                if special == "mode_start":
                    if mode_obj.active or not m.game:
                        special = None
                    else:
                        m.events.post("c18_mode_start")
                        obs_stats["mode_starts"] += 1
                elif special == "mode_stop":
                    if not mode_obj.active:
                        special = None
                    else:
                        m.events.post("c18_mode_stop")
                        obs_stats["mode_stops"] += 1
                elif special == "end_ball":
                    if not m.game or m.game.balls_in_play < 1:
                        special = None
                    else:
                        obs_stats["ball_ends"] += 1
                        try:
                            vm.t.drain_all_balls()       # advances 1 s itself
                        except AssertionError:
                            raise
                        except Exception as e:           # noqa  exception that reached the loop handler
                            raise MpfCrash(repr(e)) from e
                else:
                    for e in burst:
                        m.events.post(e)
                    obs_stats["posts"] += len(burst)
                    obs_stats["bursts"] += 1
                vm.advance(op.get("gap", 0) / 1000.0)
            except MpfCrash as e:
                crash = repr(e)
            except AssertionError as e:      # a unittest helper assertion (drain): harness problem, not a verdict
                raise RuntimeError("helper assertion: %r" % (e,))
            t2 = vm.now()
            obs_stats["steps"] += 1
            obs_stats["events_recorded"] += len(rec)

            if crash is not None:
                crashed = crash
                alive_any = (not in_mode) or mode_alive[0]
                if "event_add" in crash or "event_subtract" in crash or "event_jump" in crash:
                    sig = "C18:crash_control_event_mode_stopped" if not alive_any else "C18:crash_control_event"
                elif in_mode and not alive_any and ("NoneType" in crash):
                    sig = "C18:crash_timer_after_mode_stop"
                elif in_mode and "NoneType" in crash and special in ("mode_stop", "end_ball"):
                    sig = "C18:crash_timer_after_mode_stop"
                else:
                    sig = "C18:mpf_crash"
                violations.append({"clause": "no_crash", "sig": sig,
                                   "detail": {"step": idx, "op": op, "t": t, "crash": crash[:600],
                                              "mode_alive": alive_any,
                                              "blocks": [specs[n].b for n in sorted(specs)]}})
                return False
            clauses["no_crash"] += 1

            mode_active = bool(mode_obj.active) if in_mode else True
            mode_alive[0] = mode_active
            if in_mode and (m.game is None):
                return False      # game over: nothing more to observe

            for name in sorted(active):
                sp = specs[name]
                cs = cands[name]
                prim_before = cs[0].copy()
                for c in cs:
                    c.out = []
                    c.notes = []
                # ---- model: special op or burst at t
                if special == "mode_start":
                    if not mode_active:
                        active.discard(name)
                        obs_stats["aborted_blocks"] += 1
                        continue
                    cs = [y for x in cs for y in M.m_mode_start(sp, x, t, player_before)]
                    restarted_at[name] = t
                elif special in ("mode_stop", "end_ball"):
                    if mode_active:
                        active.discard(name)
                        obs_stats["aborted_blocks"] += 1
                        continue
                    cs = [y for x in cs for y in M.m_mode_stop(sp, x, t, player_before)]
                    restarted_at[name] = t
                else:
                    for e in burst:
                        if e in sp.roles:
                            cs = [y for x in cs for y in M.apply_event(sp, x, t, e)]
                            cs = M.dedupe(cs)
                            if len(cs) > M.MAX_CANDS:
                                break
                if len(cs) > M.MAX_CANDS:
                    active.discard(name)
                    obs_stats["aborted_blocks"] += 1
                    continue
                # ---- model: timers up to t2
                try:
                    cs = M.dedupe([y for x in cs for y in M.run_timers(sp, x, t2)])
                except M.ModelOverflow:
                    active.discard(name)
                    obs_stats["aborted_blocks"] += 1
                    continue
                obs_stats["forks_max"] = max(obs_stats["forks_max"], len(cs))
                if len(cs) > M.MAX_CANDS:
                    active.discard(name)
                    obs_stats["aborted_blocks"] += 1
                    continue
                # ---- observation for this block
                ob = []
                for (tt, en, cnt, stp) in rec:
                    if out_owner.get(en) != name:
                        continue
                    if en in sp.hit_events:
                        key = ("count", cnt) if sp.type == "counter" else ("step", stp)
                    else:
                        key = None
                    ob.append((tt, en, key))
                ds = dev_state(name)
                dv = tuple(ds["value"]) if isinstance(ds["value"], list) else ds["value"]
                surv = []
                for c in cs:
                    if not M.events_match(sp, c.out, ob):
                        continue
                    if c.alive:
                        if not ds["has_state"]:
                            continue
                        if c.value != dv or c.enabled != ds["enabled"] or c.completed != ds["completed"]:
                            continue
                    surv.append(c)
                h, cc, to = _count_kind(sp, ob)
                obs_stats["hits_seen"] += h
                obs_stats["completions_seen"] += cc
                obs_stats["timeouts_seen"] += to
                if not surv:
                    prim = cs[0]
                    t_ref = min([a for a, b_, _ in ob if b_ == sp.timeout_event] or [t])
                    clause, sig = _classify(sp, prim, ob, ds if prim.alive else None, since_restart_f(name, t_ref),
                                            bool(prim_before.pend), name in goal_changed)
                    violations.append({"clause": clause, "sig": sig, "detail": {
                        "block": sp.b, "step": idx, "op": op, "t": t, "t_end": t2,
                        "observed_events": [[round(a, 6), b_, list(k) if k else None] for a, b_, k in ob],
                        "expected_events": [[round(a, 6), b_, list(k) if k else None] for a, b_, k in prim.out],
                        "observed_state": ds, "expected_state": prim.public(),
                        "state_before": prim_before.public(), "model_notes": prim.notes[:12],
                        "n_candidates": len(cs), "recent": trace[-6:]}})
                    active.discard(name)
                    continue
                cands[name] = surv
                prim = surv[0]
                notes = prim.notes
                # ---- oracle evaluations (counted on the surviving preferred candidate)
                if prim.alive:
                    clauses["state"] += 1
                na = notes.count("hit_accepted")
                nr = sum(1 for x in notes if x.startswith("hit_rejected"))
                clauses["hit_events"] += na + nr
                clauses["hits_rejected"] += nr
                if sp.type == "sequence":
                    clauses["sequence_order"] += notes.count("hit_rejected_order") + na
                if sp.type == "accrual":
                    clauses["accrual_steps"] += na + notes.count("hit_rejected_repeat")
                ncomp = notes.count("completed") + notes.count("complete_suppressed")
                clauses["completion"] += ncomp
                clauses["after_complete"] += notes.count("completed")
                clauses["window"] += notes.count("hit_rejected_window") + notes.count("window_closed")
                if sp.T and prim.alive:
                    clauses["timeout"] += notes.count("timeout_fired") + notes.count("timer_cancelled")
                if name in goal_changed:
                    clauses["dynamic_goal"] += na + notes.count("ctrl_applied")
                clauses["delayed"] += notes.count("delayed_applied") + notes.count("delayed_dropped_by_mode_stop")
                obs_stats["delayed_scheduled"] += notes.count("delayed_scheduled")
                obs_stats["delayed_pending_max"] = max(obs_stats["delayed_pending_max"], len(prim.pend))
                if "restored" in notes or "fresh" in notes:
                    clauses["mode_restart"] += 1
                    if "restored" in notes:
                        clauses["persist"] += 1
                if "seq_wrap_double" in notes:
                    obs_stats["seq_wrap_double_observed"] += 1
                if "timeout_fired" in notes and not prim.enabled:
                    obs_stats["timeout_of_disabled_block_observed"] += 1
                if "ctrl_applied" in notes and not prim_before.enabled and prim_before.alive:
                    obs_stats["ctrl_applied_while_disabled_observed"] += 1
                if any(abs(d - t2) <= M.EPS for d in (prim.win, prim.tmo) if d is not None):
                    obs_stats["tie_steps"] += 1
                tag = "".join(sorted(set(
                    {"hit_accepted": "A", "hit_rejected_disabled": "D", "hit_rejected_window": "W",
                     "hit_rejected_order": "O", "hit_rejected_repeat": "R", "completed": "C",
                     "complete_suppressed": "S", "timeout_fired": "T", "window_closed": "w", "restored": "P",
                     "fresh": "F", "ctrl_applied": "c", "hit_while_completed": "K", "delayed_applied": "L",
                     "delayed_scheduled": "l", "timer_tie": "t"}.get(x, "") for x in notes)))
                if tag:
                    shape_parts.append(name[-1] + tag)
            if len(trace) < 400:
                trace.append({"i": idx, "t": round(t, 6), "op": op,
                              "ev": [[round(a, 6), b_] for a, b_, _, _ in rec][:12]})
            return bool(active)

        # initial observation (adopts initial enabled state), then the generated steps, then a settle step
        ok = step(-1, {"post": [], "gap": 0})
        if ok:
            for i, op in enumerate(case["ops"]):
                if not step(i, op):
                    break
        if crashed is None and active:
            step(len(case["ops"]), {"post": [], "gap": int(HORIZONS["final_settle_s"] * 1000)})

    # unknown/unexplained first; one violation per signature
    violations.sort(key=lambda v: v["sig"] in TRIAGED_SIGS)
    seen, uniq = set(), []
    for v in violations:
        if v["sig"] not in seen:
            seen.add(v["sig"])
            uniq.append(v)
    nontrivial = clauses["state"] > 0 and clauses["hit_events"] > 0 and clauses["completion"] > 0
    shape = ("M" if in_mode else "G") + "|" + ",".join(shape_parts[:len(blocks)]) + "|" + \
        ".".join(shape_parts[len(blocks):])[:400]
    return {"violations": uniq, "clauses": clauses, "shape": shape, "nontrivial": nontrivial, "obs": obs_stats,
            "trace": trace[-8:]}
