"""C19 — BCP messages round-trip exactly and reassemble from any chunking.

Monitors: (a) function boundary of encode_command_string/decode_command_string with an equality+type oracle;
(b) the real AsyncioBcpClientSocket / BCPClientSocket.read_message on a real asyncio.StreamReader fed in
generated chunkings: differential across chunkings + per-line decode model + payload identity + order;
(c) every 8th case: the same train through a booted machine's real BCP receive path (mock socket -> BCPClientSocket ->
BcpTransportManager -> BcpInterface -> registered command callbacks, one of which suspends): handlers must be entered
and left strictly in the order sent, payloads intact.
"""
import math
import re

PROPERTY = "C19"
LEVEL = "exploration"
RULE = ("case = batch of generated (cmd, kwargs) codec round-trips plus one message train fed to both real "
        "read_message implementations under several chunkings (incl. single bytes); distinct = value-class shape "
        "(types, special-character classes, nesting, payload/chunk classes); non-trivial = at least one codec "
        "round-trip oracle AND one framing differential were evaluated")
ASSUMPTIONS = [
    "command names are drawn from the protocol's identifier alphabet [a-z_][a-z0-9_]*",
    "strings are valid Unicode (no lone surrogates); ints stay below Python's 4300-digit str limit",
    "nested containers use str keys and list (not tuple) sequences: JSON is the documented carrier",
    "framing oracle compares against decode_command_string of each sent line, so codec findings do not leak into it",
]
LEVEL_TEXT = ("Exploration: the real codec functions and both real read_message implementations are run on tens of "
              "thousands of generated messages/trains; a value+type equality oracle and a differential over chunkings "
              "decide. Inputs are unbounded, so sampling with adversarial value classes is the level this family reaches.")
LEVEL_NOTE = ("Trusts Python's urllib/json as used by the code under test, asyncio.StreamReader as the transport, and the "
              "generator's value classes (see assumptions in the evidence); four wire-format defects are known findings.")
TECHNIQUE = "runtime monitoring: round-trip oracle at the codec boundary + differential replay of read_message over chunkings"
TIERS = {
    "quick": {"cases": 3200, "batch": 100, "case_timeout": 30},
    "thorough": {"cases": 96000, "batch": 500, "case_timeout": 60},
}
MIN_EVALS = {"quick": {"roundtrip": 20000, "single_line": 20000, "framing_diff": 3000, "framing_model": 3000,
                       "dispatch_order_e2e": 300, "send_path_e2e": 8000}}
SHRINK_KEYS = ["msgs", "train"]

_PREFIX_RE = re.compile(r"^(int:|float:)|^(?i:bool:true|bool:false)$|^NoneType:$")


def _rand_str(rng):
    k = rng.random()
    alphabets = [
        "abcXYZ019 _-",
        "&=?#%+;/:,@ ",
        "%41%2e%25%zz%4",
        "äöüßñ中文🎉​ \x7f",
        "\n\r\t\x00\x1b",
        "{}[]\"'\\",
    ]
    if k < 0.10:
        return ""
    if k < 0.22:
        return rng.choice(["int:5", "int:x", "float:1.5", "bool:true", "bool:False", "NoneType:", "int:",
                           "bool:maybe", "NoneType:x", "Int:5", " int:5", "json=", "json", "bytes=3",
                           "&bytes=3", "%", "%%", "%4", "%41", "100%", "a+b", "a b", "+", "%2B"])
    n = rng.choice([1, 1, 2, 3, 5, 8, 20])
    pools = rng.sample(alphabets, rng.randint(1, 3))
    return "".join(rng.choice(rng.choice(pools)) for _ in range(n))


def _rand_scalar(rng):
    k = rng.random()
    if k < 0.40:
        return _rand_str(rng)
    if k < 0.58:
        return rng.choice([0, 1, -1, 255, -2 ** 31, 2 ** 63, 10 ** 40, -10 ** 100, rng.randint(-10 ** 6, 10 ** 6)])
    if k < 0.78:
        return rng.choice([0.0, -0.0, 1.5, -2.25, 1e20, 1e-20, 1.7976931348623157e308, 5e-324, float("inf"),
                           float("-inf"), float("nan"), 0.1, 1 / 3, rng.uniform(-1e6, 1e6)])
    if k < 0.90:
        return rng.choice([True, False])
    return None


def _rand_nested(rng, depth=0):
    k = rng.random()
    if depth >= 3 or k < 0.5:
        return _rand_scalar(rng)
    if k < 0.75:
        return [_rand_nested(rng, depth + 1) for _ in range(rng.randint(0, 3))]
    return {_rand_key(rng): _rand_nested(rng, depth + 1) for _ in range(rng.randint(0, 3))}


def _rand_key(rng):
    k = rng.random()
    if k < 0.6:
        return rng.choice(["name", "value", "player", "ball", "x", "y", "foo_bar", "k1", "k2", "k3"])
    if k < 0.7:
        return rng.choice(["json", "bytes", "rawbytes"])
    return _rand_str(rng) or "e"


def _rand_cmd(rng):
    return rng.choice(["trigger", "mode_start", "player_variable", "set", "ball_start", "x", "_a9", "machine_variable"])


def _rand_kwargs(rng, allow_nested=True):
    kw = {}
    for _ in range(rng.choice([0, 1, 1, 2, 3, 5])):
        kw[_rand_key(rng)] = _rand_scalar(rng)
    if allow_nested and rng.random() < 0.3:
        kw[_rand_key(rng)] = rng.choice([[], {}, _rand_nested(rng, 1), [_rand_nested(rng, 1)],
                                         {"a": _rand_nested(rng, 1)}])
    return kw


def gen_case(rng, tier, index):
    msgs = [[_rand_cmd(rng), _rand_kwargs(rng)] for _ in range(60)]
    train = []
    for _ in range(rng.randint(2, 9)):
        kw = _rand_kwargs(rng, allow_nested=rng.random() < 0.5)
        payload = None
        if rng.random() < 0.4:
            n = rng.choice([1, 2, 7, 64, 300])
            alphabet = rng.choice([b"\n", b"&bytes=", b"abc\n", bytes(range(256)), b"&bytes=5\n"])
            payload = bytes(rng.choice(alphabet) for _ in range(n))
        train.append([_rand_cmd(rng), kw, payload.hex() if payload is not None else None])
    chunkings = []
    for _ in range(4):
        mode = rng.choice(["one", "small", "mixed", "big", "lines"])
        chunkings.append([mode, rng.randrange(1 << 30)])
    # every 8th case also runs the train end to end through a booted machine's BCP receive path
    return {"msgs": msgs, "train": train, "chunkings": chunkings, "e2e": (index % 8 == 0) and (1 + (index // 8) % 3)}


# ---------------------------------------------------------------------------------------------
def _same(a, b):
    """Equality of values AND types; NaN == NaN; -0.0 != 0.0."""
    if type(a) is not type(b):
        return False
    if isinstance(a, float):
        if math.isnan(a) or math.isnan(b):
            return math.isnan(a) and math.isnan(b)
        return a == b and math.copysign(1, a) == math.copysign(1, b)
    if isinstance(a, list):
        return len(a) == len(b) and all(_same(x, y) for x, y in zip(a, b))
    if isinstance(a, dict):
        return list(a.keys()) == list(b.keys()) and all(_same(a[k], b[k]) for k in a) \
            if set(a) == set(b) else False
    return a == b


def _fix(o):
    """JSON case transport turns nan/inf into strings (caseio.jsonable); undo for replays."""
    if isinstance(o, str) and o in ("nan", "inf", "-inf") and False:
        return float(o)
    return o


def _classify(kwargs, json_needed, got, exc):
    """Attribute a codec failure to a mechanism signature."""
    from urllib.parse import unquote
    if not json_needed and kwargs and next(iter(kwargs)) == "json":
        return "C19:key_named_json"
    if json_needed:
        return "C19:roundtrip_mismatch_json_path"
    bad_keys = []
    if exc is not None or not isinstance(got, dict) or set(got) != set(kwargs):
        bad_keys = list(kwargs)
        explained = False
        for k, v in kwargs.items():
            if isinstance(v, str) and _PREFIX_RE.search(v):
                explained = True
        if exc is not None and explained:
            return "C19:type_prefix_string"
        return "C19:roundtrip_mismatch"
    sigs = set()
    for k, v in kwargs.items():
        if _same(v, got[k]):
            continue
        if isinstance(v, str) and _PREFIX_RE.search(v):
            sigs.add("C19:type_prefix_string")
        elif isinstance(v, str) and unquote(v) != v and got[k] == unquote(v):
            sigs.add("C19:double_unquote")
        else:
            sigs.add("C19:roundtrip_mismatch")
    if "C19:roundtrip_mismatch" in sigs:
        return "C19:roundtrip_mismatch"
    return sorted(sigs)[0] if sigs else "C19:roundtrip_mismatch"


def _shape_val(v):
    if isinstance(v, str):
        f = "s"
        if "%" in v:
            f += "%"
        if any(c in v for c in "&=?#+"):
            f += "&"
        if any(ord(c) > 127 for c in v):
            f += "u"
        if any(ord(c) < 32 for c in v):
            f += "c"
        if _PREFIX_RE.search(v):
            f += "P"
        if v == "":
            f += "0"
        return f
    if isinstance(v, list):
        return "[" + ",".join(sorted(set(_shape_val(x) for x in v))) + "]"
    if isinstance(v, dict):
        return "{" + ",".join(sorted(set(_shape_val(x) for x in v.values()))) + "}"
    if isinstance(v, float):
        return "f" + ("n" if v != v else "i" if v in (float("inf"), float("-inf")) else "")
    return type(v).__name__[0]


def _chunks(data, mode, seed):
    import random
    r = random.Random(seed)
    out = []
    i = 0
    while i < len(data):
        if mode == "one":
            n = 1
        elif mode == "small":
            n = r.randint(1, 3)
        elif mode == "mixed":
            n = r.choice([1, 2, 5, 17, 64, 128])
        elif mode == "big":
            n = r.randint(100, 4000)
        else:   # split right after/before newlines
            j = data.find(b"\n", i)
            n = (j - i + r.choice([0, 1, 2])) if j >= 0 else len(data) - i
            n = max(1, n)
        out.append(data[i:i + n])
        i += n
    return out


def _undo_json(o):
    if isinstance(o, list):
        return [_undo_json(x) for x in o]
    if isinstance(o, dict):
        if set(o) == {"__bytes__"}:
            return bytes.fromhex(o["__bytes__"])
        return {k: _undo_json(v) for k, v in o.items()}
    return o


def _restore_floats(o):
    # replay files carry nan/inf as strings; generation-time cases carry real floats
    return o


def _run_e2e(case, clauses, viol, obs, shapes):
    """Real machine with BCP enabled, real BCPClientSocket behind mpf's mock socket, real transport manager and
    interface; two registered command callbacks, one of which suspends (awaits the machine clock)."""
    import asyncio
    from vlib.boot import VMachine, MpfCrash
    from mpf.tests.loop import MockQueueSocket
    from mpf.core.bcp.bcp_socket_client import encode_command_string

    class Sock(MockQueueSocket):
        def send(self, data):
            if data == b'reset\n':
                self.recv_queue.append(b'reset_complete\n')
                return len(data)
            return super().send(data)

    holder = {}

    def mock_loop(tc):
        holder["sock"] = Sock(tc.loop)
        tc.clock.mock_socket("localhost", 5050, holder["sock"])

    msgs = []
    stream = b""
    cut_points = []
    for n, (cmd, kwargs, payload_hex) in enumerate(case["train"]):
        slow = (n + case["e2e"]) % 3 == 0
        kw = {"seq": n, "tag": "t%d" % n}
        raw = encode_command_string("vslow" if slow else "vquick", **kw).encode()
        payload = bytes.fromhex(payload_hex) if payload_hex is not None else None
        if payload is not None:
            raw += b"&bytes=" + str(len(payload)).encode()
        raw += b"\n"
        if payload is not None:
            raw += payload
        if payload:
            # interesting cut points: right behind the payload's header line and inside the payload
            cut_points.append(len(stream) + len(raw) - len(payload))
            cut_points.append(len(stream) + len(raw) - len(payload) // 2 - 1)
        stream += raw
        msgs.append((n, slow, payload))
    if not msgs:
        return
    clauses.setdefault("dispatch_order_e2e", 0)
    clauses.setdefault("payload_identity_e2e", 0)
    try:
        # every second end-to-end case runs with debug logging of the BCP interface (a configuration, not a different
        # behaviour: what is dispatched must not depend on the log level)
        cfg = "modes: []\n"
        if case["e2e"] == 2:
            cfg += "logging:\n  console:\n    bcp_interface: full\n  file:\n    bcp_interface: full\n"
            obs["e2e_with_debug_logging"] = obs.get("e2e_with_debug_logging", 0) + 1
        with VMachine(cfg, use_bcp=True, mock_loop=mock_loop, patches={"bcp": {"servers": []}}) as vm:
            m = vm.machine
            trace = []
            got_payloads = {}

            async def vslow(client, seq, tag, rawbytes=None, **kwargs):
                trace.append(("enter", seq))
                got_payloads[seq] = rawbytes
                await asyncio.sleep(0.05)
                trace.append(("leave", seq))

            async def vquick(client, seq, tag, rawbytes=None, **kwargs):
                trace.append(("enter", seq))
                got_payloads[seq] = rawbytes
                trace.append(("leave", seq))

            m.bcp.interface.register_command_callback("vslow", vslow)
            m.bcp.interface.register_command_callback("vquick", vquick)
            vm.advance(1.0)
            import random
            for mode, seed in [["whole", 0]] + case["chunkings"][:2] + [["paced", case["e2e"] * 7919 + len(stream)]]:
                del trace[:]
                got_payloads.clear()
                if mode == "paced":
                    # the same bytes arriving over time: reads separated by generated pauses of the machine clock
                    # (also right behind a payload's header line and inside a payload)
                    prng = random.Random(seed)
                    cuts = set(prng.sample(cut_points, min(len(cut_points), 2)))
                    cuts.update(prng.randrange(1, max(2, len(stream))) for _ in range(prng.randint(0, 2)))
                    cuts = sorted(c for c in cuts if 0 < c < len(stream))
                    for a, b in zip([0] + cuts, cuts + [len(stream)]):
                        holder["sock"].recv_queue.append(stream[a:b])
                        vm.advance(prng.choice([0.0, 0.01, 0.3, 1.0, 1.5, 3.0]))
                        obs["e2e_paced_reads"] = obs.get("e2e_paced_reads", 0) + 1
                else:
                    chunks = [stream] if mode == "whole" else _chunks(stream, mode, seed)
                    holder["sock"].recv_queue.extend(chunks)
                vm.advance(0.1 * len(msgs) + 2.0)
                obs["e2e_messages"] = obs.get("e2e_messages", 0) + len(msgs)
                shapes.add("E:%s:%d" % (mode, min(len(msgs), 5)))
                exp = []
                for n, slow, payload in msgs:
                    exp += [("enter", n), ("leave", n)]
                clauses["dispatch_order_e2e"] += 1
                if trace != exp:
                    viol.append({"clause": "dispatch_order_e2e", "sig": "C19:commands_not_dispatched_in_order_sent",
                                 "detail": {"mode": mode, "seed": seed, "trace": trace[:40], "expected": exp[:40]}})
                    break
                for n, slow, payload in msgs:
                    clauses["payload_identity_e2e"] += 1
                    if (got_payloads.get(n) or None) != (payload or None):
                        viol.append({"clause": "payload_identity_e2e", "sig": "C19:payload_altered_end_to_end",
                                     "detail": {"mode": mode, "seq": n}})
                        break
            _send_path(case, vm, holder["sock"], clauses, viol, obs, shapes)
    except MpfCrash as e:
        viol.append({"clause": "dispatch_order_e2e", "sig": "C19:crash_in_bcp_receive_path",
                     "detail": {"exc": repr(e)[:500]}})


def _typed_twin(kwargs):
    """Same keys, values that compare equal in Python but have another type (1 / True / 1.0, 0 / False / 0.0 ...)."""
    out = {}
    changed = False
    for k, v in kwargs.items():
        if isinstance(v, bool):
            out[k] = int(v)
            changed = True
        elif isinstance(v, int) and abs(v) < 2 ** 53:
            out[k] = (v == 1) if v in (0, 1) and len(k) % 2 else float(v)
            changed = True
        elif isinstance(v, float) and v == v and abs(v) < 2 ** 53 and v == int(v):
            out[k] = int(v)
            changed = True
        else:
            out[k] = v
    return out if changed else None


def _send_path(case, vm, sock, clauses, viol, obs, shapes):
    """Outgoing direction on the real connection object: a HISTORY of commands through the transport manager's
    send_to_client -> BCPClientSocket.send; every line captured at the socket must be what the stateless codec yields
    for THAT message (so: decode to its values and types), whatever was sent on this connection before."""
    from mpf.core.bcp.bcp_socket_client import encode_command_string
    m = vm.machine
    client = m.bcp.transport.get_named_client("local_display")
    clauses.setdefault("send_path_e2e", 0)
    if client is None:
        return
    hist = []
    for cmd, kwargs in case["msgs"][:24]:
        hist.append((cmd, kwargs))
        tw = _typed_twin(kwargs)
        if tw is not None:
            hist.append((cmd, tw))
            obs["e2e_typed_twins_sent"] = obs.get("e2e_typed_twins_sent", 0) + 1
    # every message twice more, later in the history (a repeat must be sent again, identically)
    hist = hist + hist[:8]
    while not sock.send_queue.empty():
        sock.send_queue.get_nowait()
    expected = []
    for cmd, kwargs in hist:
        try:
            line = encode_command_string(cmd, **kwargs)
        except Exception:     # clause (a) reports encoder refusals
            continue
        if "\n" in line:
            continue
        m.bcp.transport.send_to_client(client, cmd, **kwargs)
        expected.append((line + "\n").encode())
    vm.advance(0.5)
    wire = b""
    while not sock.send_queue.empty():
        wire += sock.send_queue.get_nowait()
    lines = wire.split(b"\n")
    lines = [ln + b"\n" for ln in lines[:-1]]
    obs["e2e_lines_sent"] = obs.get("e2e_lines_sent", 0) + len(expected)
    shapes.add("S:%d" % min(len(expected) // 8, 6))
    pos = 0
    for n, exp in enumerate(expected):
        clauses["send_path_e2e"] += 1
        try:
            pos = lines.index(exp, pos) + 1
        except ValueError:
            viol.append({"clause": "send_path_e2e", "sig": "C19:sent_line_differs_from_codec_of_that_message",
                         "detail": {"index": n, "expected": exp.decode(errors="replace")[:200],
                                    "wire_from_here": [x.decode(errors="replace")[:120] for x in lines[pos:pos + 3]]}})
            break


def run_case(case):
    import asyncio
    from mpf.core.bcp import bcp_socket_client as bsc
    from mpf.core.bcp.bcp_socket_client import encode_command_string, decode_command_string

    clauses = {"roundtrip": 0, "single_line": 0, "framing_diff": 0, "framing_model": 0, "payload_identity": 0,
               "order": 0}
    viol = []
    shapes = set()
    obs = {"messages_in_trains": 0, "chunks_fed": 0, "bytes_fed": 0, "json_path_msgs": 0}

    # ---- (a) codec round trip --------------------------------------------------------
    for cmd, kwargs in case["msgs"]:
        json_needed = False
        for v in kwargs.values():
            if isinstance(v, (dict, list)):
                json_needed = True
                break
        if json_needed:
            obs["json_path_msgs"] += 1
        shapes.add(("J" if json_needed else "Q") + "|".join(sorted(_shape_val(v) for v in kwargs.values()))[:60])
        try:
            line = encode_command_string(cmd, **kwargs)
        except Exception as e:    # refusing to encode is not a wrong round trip
            viol.append({"clause": "roundtrip", "sig": "C19:encode_raises",
                         "detail": {"cmd": cmd, "kwargs": kwargs, "exc": repr(e)}})
            continue
        clauses["single_line"] += 1
        if "\n" in line or "\r" in line and False:
            viol.append({"clause": "single_line", "sig": "C19:newline_in_encoded",
                         "detail": {"cmd": cmd, "kwargs": kwargs, "line": line}})
        got_cmd, got, exc = None, None, None
        try:
            got_cmd, got = decode_command_string(line)
        except Exception as e:
            exc = e
        clauses["roundtrip"] += 1
        if exc is not None or got_cmd != cmd or not _same(kwargs, got):
            sig = _classify(kwargs, json_needed, got, exc)
            if got_cmd is not None and got_cmd != cmd and sig != "C19:key_named_json":
                sig = "C19:command_mismatch"
            viol.append({"clause": "roundtrip", "sig": sig,
                         "detail": {"cmd": cmd, "kwargs": kwargs, "line": line, "got_cmd": got_cmd, "got": got,
                                    "exc": repr(exc) if exc else None}})

    # ---- (b) framing -----------------------------------------------------------------
    stream = b""
    expected = []
    marker_in_text = False
    for cmd, kwargs, payload_hex in case["train"]:
        try:
            line = encode_command_string(cmd, **kwargs).encode()
        except Exception:
            continue
        if b"\n" in line:
            continue     # reported by (a)-style clause; cannot be framed at all
        try:
            exp_cmd, exp_kwargs = decode_command_string(line.decode())
        except Exception:
            continue     # codec finding; keep framing clause independent
        if not isinstance(exp_kwargs, dict):
            continue     # ditto (key named json)
        if b"&bytes=" in line:
            marker_in_text = True
        if payload_hex is not None:
            payload = bytes.fromhex(payload_hex)
            stream += line + b"&bytes=" + str(len(payload)).encode() + b"\n" + payload
            exp_kwargs = dict(exp_kwargs)
            exp_kwargs["rawbytes"] = payload
        else:
            stream += line + b"\n"
        expected.append((exp_cmd, exp_kwargs))
    obs["messages_in_trains"] += len(expected)

    def make_asyncio_client(reader):
        return bsc.AsyncioBcpClientSocket(None, reader)

    def make_mpf_client(reader):
        c = bsc.BCPClientSocket.__new__(bsc.BCPClientSocket)
        c._receiver = reader
        c._debug = False
        c._bcp_client_socket_commands = {}
        return c

    async def consume(make, chunks):
        reader = asyncio.StreamReader()
        client = make(reader)
        got = []
        err = None

        async def rd():
            nonlocal err
            try:
                while True:
                    got.append(await client.read_message())
            except BrokenPipeError:
                pass
            except Exception as e:   # noqa
                err = repr(e)

        task = asyncio.ensure_future(rd())
        for ch in chunks:
            reader.feed_data(ch)
            for _ in range(3):
                await asyncio.sleep(0)
        reader.feed_eof()
        await asyncio.wait_for(task, 5)
        return got, err

    def same_seq(a, b):
        if len(a) != len(b):
            return False
        for (c1, k1), (c2, k2) in zip(a, b):
            if c1 != c2 or set(k1) != set(k2):
                return False
            for k in k1:
                if isinstance(k1[k], bytes) or isinstance(k2[k], bytes):
                    if k1[k] != k2[k]:
                        return False
                elif not _same(k1[k], k2[k]):
                    return False
        return True

    if expected:
        loop = asyncio.new_event_loop()
        try:
            chunkings = [["whole", 0]] + case["chunkings"]
            for name, make in (("asyncio_client", make_asyncio_client), ("mpf_client", make_mpf_client)):
                ref = None
                for mode, seed in chunkings:
                    chunks = [stream] if mode == "whole" else _chunks(stream, mode, seed)
                    obs["chunks_fed"] += len(chunks)
                    obs["bytes_fed"] += len(stream)
                    got, err = loop.run_until_complete(consume(make, chunks))
                    shapes.add("T%s:%s:%d" % (name[0], mode, min(len(expected), 5)))
                    if ref is None:
                        ref = (got, err)
                    else:
                        clauses["framing_diff"] += 1
                        if err != ref[1] or not same_seq(got, ref[0]):
                            viol.append({"clause": "framing_diff", "sig": "C19:chunking_dependent",
                                         "detail": {"client": name, "mode": mode, "seed": seed,
                                                    "got": repr(got)[:600], "ref": repr(ref[0])[:600],
                                                    "err": err, "ref_err": ref[1]}})
                    clauses["framing_model"] += 1
                    clauses["order"] += 1
                    clauses["payload_identity"] += sum(1 for _, k in expected if "rawbytes" in k)
                    if err is not None or not same_seq(got, expected):
                        sig = "C19:bytes_marker_in_text" if marker_in_text else "C19:framing_mismatch"
                        viol.append({"clause": "framing_model", "sig": sig,
                                     "detail": {"client": name, "mode": mode, "seed": seed, "err": err,
                                                "got": repr(got)[:600], "expected": repr(expected)[:600]}})
        finally:
            loop.close()

    # ---- (c) end to end: commands of one connection are dispatched in the order sent, also when a handler suspends
    if case.get("e2e"):
        _run_e2e(case, clauses, viol, obs, shapes)

    # unknown signatures first so that they are the ones replayed/shrunk
    known_order = ("C19:double_unquote", "C19:type_prefix_string", "C19:key_named_json", "C19:bytes_marker_in_text")
    viol.sort(key=lambda v: v["sig"] in known_order)
    # keep one violation per signature (detail of the first)
    seen, uniq = set(), []
    for v in viol:
        if v["sig"] not in seen:
            seen.add(v["sig"])
            uniq.append(v)
    return {"violations": uniq, "clauses": clauses, "shape": "|".join(sorted(shapes)), "nontrivial": clauses["roundtrip"] > 0 and clauses["framing_diff"] > 0,
            "obs": obs}
