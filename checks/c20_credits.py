"""C20 — Credits: balance follows the pricing table and stays within bounds.

The REAL credits mode, attract mode and game mode run on MPF's TimeTravelLoop (vlib.boot.VMachine, fake-game
test case: no ball devices).  Generated configurations (price / tiers / coin values / cap / expiry times /
free-play at boot) × generated op sequences (coin switches single and several per tick, service credits,
credit events, start presses single and in bursts, ball drains, game ends, waits across the expiry deadlines,
enable_credit_play / enable_free_play / toggle_credit_play repeated, credits_reset, earnings_reset; a
`game_starting` queue handler that holds the game start for a generated virtual delay with ops placed inside
that window; the documented `game_start` bypass event).

After EVERY step the oracle compares, at the boundary the property names:
  * machine var credit_units (and credits_value / credits_string / credits_* display vars) against a
    closed-form reference model (vlib/c20_model.py, exact rationals, hypothesis set for unspecified choices);
  * 0 <= balance <= max_credits;
  * every approved start / player-add request and every player_added: a full game price was available and
    exactly one game price was deducted (balance read immediately before and after the event's handlers);
  * the earnings dict and what was handed to the data manager against the coins accepted.
"""
from fractions import Fraction as F

PROPERTY = "C20"
LEVEL = "exploration"
LEVEL_TEXT = ("Exploration: the real Credits/Attract/Game modes are driven through generated configurations and "
              "operation sequences in virtual time; a closed-form reference model and invariants are evaluated after "
              "every step.  The input space (configs x sequences x timings) is unbounded, so seeded sampling with "
              "boundary-biased values (cap just below the maximum plus multi-unit coins, tier wrap-around across game "
              "starts, waits placed around the expiry deadlines, same-tick bursts) is the level this family reaches.")
LEVEL_NOTE = ("Trusted: MPF's TimeTravelLoop/TestClock and the in-memory TestDataManager (the doubles MPF's own suite "
              "uses), the fake-game test case (no ball devices), the reference model in vlib/c20_model.py.")
TECHNIQUE = ("runtime monitoring: reference-model + invariant oracle on machine variables, start acceptance and "
             "earnings after every step of generated coin/start/expiry/toggle sequences in virtual time")
RULE = ("case = one generated credits configuration booted once + one generated op sequence; distinct = normalised "
        "shape (config class: #tiers, cap, expiry, decimal values, boots in free play; op-kind sequence with runs "
        "collapsed); non-trivial = at least one coin was accepted in credit play AND at least one player was added in "
        "credit play (gate and deduction oracles evaluated) in that case")
ASSUMPTIONS = [
    "configurations are well-formed: price, tier prices and coin values are whole multiples of the credit unit that "
    "the documented unit rule yields in exact arithmetic; tier prices strictly increase and a dearer tier is never a "
    "worse deal (credits/price non-decreasing, so inserting money never lowers the balance); first tier gives "
    "exactly 1 credit; prices/values are literals (no settings templates)",
    "pricing table semantics = greedy over tiers on the money inserted since tier progress restarted, wrapping at the "
    "top tier (DESIGN.md); tier progress restarts at a game start in credit play and on clear-all; it MAY restart at "
    "ball 2 of player 1 and at game starts while in free play (statement silent: both accepted)",
    "money inserted while at the cap is swallowed but still counts towards tier progress and earnings (as coded)",
    "coins, service credits and credit events are accepted only in credit play; toggling modes must not change the "
    "balance; expiry timers keep running in free play and are (re)armed by coins/credit events/game end and "
    "suspended by a game start in credit play (unit-tested behaviour); in free play game start/end MAY touch them",
    "a deadline within 1e-6 virtual seconds of an observation instant may or may not have fired (both accepted)",
    "display variables are checked only while in credit play (free play shows the free-play string)",
    "only the coin audits (count/earnings per type and per label) are compared, not awards or paid-game counters",
    "balance is observed at rest 0.05 virtual seconds after each step; gate/deduction are observed by handlers "
    "around player_added / player_add_request / request_to_start_game",
    "the start approval (request_to_start_game) and the add of the first player are separate steps: whatever "
    "happens in between (held game_starting queue, credits_reset, mode toggles) or however the game mode was "
    "started (game_start event), a player added while credit play is on needs a full price at ITS add time; a "
    "game that stays without players because the add was denied is accepted",
    "the game_start bypass event is only posted while no game is running",
    "a player whose add request was approved in free play and whose player_added is dispatched after credit play "
    "was enabled in the same instant may or may not be charged (accepted either way, balance resynchronised)",
    "mode switches, credits_reset and credit events take effect at the position where MPF dispatches the event "
    "(observed by a lowest-priority handler on the same event), not at the instant the op posted it",
]
HORIZONS = {"settle_s": 0.05, "max_wait_s": 700}
TIERS = {
    "quick": {"cases": 3200, "batch": 100, "case_timeout": 60},
    "thorough": {"cases": 120000, "batch": 500, "case_timeout": 120},
}
MIN_EVALS = {
    "quick": {"balance": 60000, "bounds": 60000, "earnings": 60000, "display": 30000, "gate": 4000, "deduct": 2000,
              "first_player_gate": 800},
    "thorough": {"balance": 3000000, "bounds": 3000000, "earnings": 3000000, "display": 1500000, "gate": 200000,
                 "deduct": 100000, "first_player_gate": 30000},
}
SHRINK_KEYS = ["ops"]

SETTLE = 0.05
HI = 2000000000
LO = -2000000000

KNOWN_ORDER = ("C20:burst_player_add_single_credit",)


# ---------------------------------------------------------------------------------------------
# generation
def _gen_cfg(rng):
    from vlib import c20_model as cm
    for _ in range(200):
        decimal = rng.random() < 0.2
        if decimal:
            price = rng.choice([20, 30, 40, 50, 60, 70, 80, 100, 120])
            pool = [10, 20, 50, 100, 200]
        else:
            price = rng.choice([25, 50, 50, 75, 100, 100, 150, 200])
            pool = [25, 50, 100, 200, 500]
        no_tiers = rng.random() < 0.1
        if no_tiers:
            price = 100
        ncoins = rng.choice([1, 2, 2, 3])
        coins = sorted(rng.sample(pool, ncoins))
        pf, cf = cm.cents(price), [cm.cents(c) for c in coins]
        u = cm.unit_rule(pf, cf)
        if u <= 0 or not cm.well_formed(pf, cf, []):
            continue
        uc = int(u * 100)
        k = price // uc
        tiers = []
        if not no_tiers:
            tiers.append([price, 1])
            n_extra = rng.choice([0, 1, 1, 1, 2, 2, 3])
            units, credits = k, 1
            for _ in range(n_extra):
                units2 = units + rng.choice([1, 2, 3, 4, k, 2 * k, 3 * k])
                # a dearer tier is never a worse deal: credits/price does not decrease (keeps the table monotone)
                base = -(-(credits * units2) // units)
                credits2 = base + rng.choice([0, 0, 1, 1, 2, 3])
                if credits2 > 40:
                    break
                units, credits = units2, credits2
                tiers.append([units * uc, credits])
        if not cm.well_formed(pf, cf, [cm.cents(t[0]) for t in tiers]):
            continue
        max_credits = rng.choice([0, 0, 1, 2, 2, 3, 3, 4, 5, 6, 8, 12])
        t_frac = rng.choice([None, None, 10, 20, 45, 90])
        t_all = rng.choice([None, None, 30, 60, 120, 300])
        return {
            "price": price, "coins": coins, "coin_types": [rng.choice(["money", "money", "token"]) for _ in coins],
            "tiers": tiers, "max_credits": max_credits, "t_frac": t_frac, "t_all": t_all,
            "free_play": rng.random() < 0.15, "balls_per_game": rng.choice([1, 1, 2, 3]),
            "max_players": rng.choice([1, 2, 3, 4, 4]), "award": rng.choice([1, 1, 2]),
            "decimal": decimal,
            # game_starting is held by a queue handler for this many virtual seconds (0 = not held)
            "hold_s": rng.choice([0, 0, 0, 0, 0.12, 0.3, 1.0, 3.0]),
        }
    raise RuntimeError("no well-formed configuration found")


def _gen_ops(rng, cfg, n):
    ops = []
    ncoins = len(cfg["coins"])
    waits = [0.3, 2.0, 7.0]
    for t in (cfg["t_frac"], cfg["t_all"]):
        if t:
            waits += [t - 1.0, t + 1.0, t - SETTLE, t + 3.0, t / 2.0]
    if cfg["t_frac"] and cfg["t_all"]:
        waits.append(abs(cfg["t_all"] - cfg["t_frac"]))
    phase = rng.choice(["mixed", "mixed", "coins_first", "toggly"])
    hold = cfg.get("hold_s", 0)
    window = ["credits_reset", "credits_reset", "efp", "ecp", "toggle", "toggle", "coin", "start", "wait"]
    for i in range(n):
        if len(ops) >= n:
            break
        r = rng.random()
        if phase == "coins_first" and i < n // 3:
            r *= 0.45
        if phase == "toggly" and rng.random() < 0.25:
            r = 0.80 + 0.1 * rng.random()
        if r < 0.36:
            ops.append(["coin", rng.randrange(ncoins)])
        elif r < 0.42:
            ops.append(["coins", [rng.randrange(ncoins) for _ in range(rng.choice([2, 2, 3, 4]))]])
        elif r < 0.46:
            ops.append(["svc"])
        elif r < 0.49:
            ops.append(["award"])
        elif r < 0.63:
            ops.append(["start"])
            if hold and rng.random() < 0.7:
                # ops inside the window between start approval and the add of the first player
                for _ in range(rng.choice([1, 1, 2, 3])):
                    w = rng.choice(window)
                    ops.append(["coin", rng.randrange(ncoins)] if w == "coin" else
                               ["wait", rng.choice([0.02, 0.1, hold])] if w == "wait" else [w])
        elif r < 0.67:
            ops.append(["starts", rng.choice([2, 2, 3])])
        elif r < 0.74:
            ops.append(["drain"])
        elif r < 0.77:
            ops.append(["end_game"])
        elif r < 0.88:
            ops.append(["wait", rng.choice(waits)])
        elif r < 0.91:
            ops.append(["ecp"])
        elif r < 0.94:
            ops.append(["efp"])
        elif r < 0.955:
            ops.append(["toggle"])
        elif r < 0.97:
            # game mode started without request_to_start_game (documented bypass event)
            k = rng.random()
            if k < 0.4:
                ops.append(["credits_reset"])
            elif k < 0.6:
                ops.append(["end_game"])
            ops.append(["game_start_event"])
        elif r < 0.985:
            ops.append(["credits_reset"])
        else:
            ops.append(["earnings_reset"])
    return ops


def gen_case(rng, tier, index):
    cfg = _gen_cfg(rng)
    n = rng.randint(25, 55) if tier == "quick" else rng.randint(30, 90)
    return {"cfg": cfg, "ops": _gen_ops(rng, cfg, n)}


# ---------------------------------------------------------------------------------------------
# machine config
def _machine_config(cfg):
    switches = {"s_esc": {"number": "90"}}
    csw = []
    for i, c in enumerate(cfg["coins"]):
        switches["s_c%d" % i] = {"number": str(10 + i)}
        csw.append({"switch": "s_c%d" % i, "type": cfg["coin_types"][i], "value": c / 100.0, "label": "slot%d" % i})
    credits = {
        "max_credits": cfg["max_credits"],
        "free_play": bool(cfg["free_play"]),
        "service_credits_switch": "s_esc",
        "switches": csw,
        "events": [{"event": "c20_award", "type": "award", "credits": cfg["award"]}],
        "persist_credits_while_off_time": "1h",
    }
    if cfg["tiers"]:
        credits["pricing_tiers"] = [{"price": p / 100.0, "credits": c} for p, c in cfg["tiers"]]
    if cfg["t_frac"]:
        credits["fractional_credit_expiration_time"] = "%ds" % cfg["t_frac"]
    if cfg["t_all"]:
        credits["credit_expiration_time"] = "%ds" % cfg["t_all"]
    return {
        "modes": ["credits"],
        "switches": switches,
        "game": {"balls_per_game": cfg["balls_per_game"], "max_players": cfg["max_players"]},
        "credits": credits,
    }


_COUNTS = {"coin_cb": 0, "svc_cb": 0, "award_cb": 0}
_WRAPPED = set()
_VIOL_TIME = [0.0]
SHRINK_BUDGET_S = 8.0
_PATCHED = []


def _patch_counters():
    """Count invocations of the credit callbacks (only used to NAME the mechanism of a mismatch)."""
    from mpf.modes.credits.code import credits as cmod
    if _PATCHED and _PATCHED[0] is cmod.Credits:
        return
    cls = cmod.Credits

    def wrap(name, key):
        orig = getattr(cls, name, None)
        if orig is None:
            return

        def wrapper(self, *a, **kw):
            _COUNTS[key] += 1
            return orig(self, *a, **kw)
        wrapper.__name__ = name
        wrapper.__wrapped__ = orig
        setattr(cls, name, wrapper)
        _WRAPPED.add(key)
    wrap("_credit_switch_callback", "coin_cb")
    wrap("_service_credit_callback", "svc_cb")
    wrap("_credit_event_callback", "award_cb")
    del _PATCHED[:]
    _PATCHED.append(cls)


def _parse_value(txt):
    """'2 1/2' | '1/2' | '3' -> Fraction, None when unparsable."""
    try:
        parts = str(txt).split()
        tot = F(0)
        for p in parts:
            if "/" in p:
                a, b = p.split("/")
                tot += F(int(a), int(b))
            else:
                tot += int(p)
        return tot if parts else None
    except (ValueError, ZeroDivisionError):
        return None


def _fs(x):
    return str(x)


def _float_fragile(cfg):
    """True when float division of some configured amount by the float credit unit is not the exact whole
    number of units (0.6 / 0.2 == 2.9999999999999996).  Only used to name the mechanism of a mismatch."""
    from vlib import c20_model as cm
    price = cfg["price"] / 100.0
    coins = [c / 100.0 for c in cfg["coins"]]
    mn = min(coins) if coins else price
    if mn == price:
        unit = mn
    elif mn < price:
        unit = price - mn
        if unit > mn:
            unit = mn
    else:
        unit = mn - price
        if unit > price:
            unit = price
    exact_u = cm.unit_rule(cm.cents(cfg["price"]), [cm.cents(c) for c in cfg["coins"]])
    for c in [cfg["price"]] + list(cfg["coins"]) + [t[0] for t in cfg["tiers"]]:
        q = (c / 100.0) / unit
        if q != int(q) or int(q) != cm.cents(c) / exact_u:
            return True
    return False


def _crash_sig(text):
    if "ZeroDivisionError" in text:
        return "C20:crash_zero_credit_unit"
    if "Credits units need to be ints" in text:
        return "C20:crash_coin_not_whole_units"
    return "C20:mpf_crash"


# ---------------------------------------------------------------------------------------------
def run_case(case):
    from vlib.boot import VMachine, MpfCrash
    from vlib import c20_model as cm
    import time as _time
    t_case0 = _time.time()
    _patch_counters()

    cfg = case["cfg"]
    ops = case["ops"]
    price = cm.cents(cfg["price"])
    coin_vals = [cm.cents(c) for c in cfg["coins"]]
    tiers = [(cm.cents(p), int(c)) for p, c in cfg["tiers"]] or [(price, 1)]
    model = cm.Model(price, tiers, int(cfg["max_credits"]), cfg["t_frac"], cfg["t_all"], bool(cfg["free_play"]),
                     coin_vals)
    den = model.upg
    unit = cm.unit_rule(price, coin_vals)

    clauses = {"balance": 0, "bounds": 0, "gate": 0, "deduct": 0, "earnings": 0, "display": 0, "coin_once": 0,
               "first_player_gate": 0}
    obs = {"steps": 0, "coins_accepted": 0, "coins_in_free_play": 0, "players_added_credit": 0,
           "players_added_free": 0, "requests_denied": 0, "requests_approved": 0, "games_started": 0,
           "games_ended": 0, "burst_ops": 0, "toggles": 0, "cap_clamps": 0, "tier_bonuses": 0, "tier_wraps": 0,
           "expiry_frac": 0, "expiry_all": 0, "forks": 0, "hyp_overflow": 0, "boot_free_play": int(cfg["free_play"]),
           "held_game_starts": 0, "ops_in_hold_window": 0, "game_start_events": 0, "first_player_denied": 0,
           "first_player_approved": 0, "mode_switch_between_request_and_add": 0}
    viol = []
    seen_sigs = set()
    trace = []

    def add_violation(clause, sig, detail):
        if sig in seen_sigs:
            return
        seen_sigs.add(sig)
        detail = dict(detail)
        detail["trace_tail"] = trace[-8:]
        viol.append({"clause": clause, "sig": sig, "detail": detail})

    audits = {}          # expected coin audits: key -> number (Fractions for earnings)

    def audit_coin(i):
        typ, label, v = cfg["coin_types"][i], "slot%d" % i, coin_vals[i]
        for key, inc in (("1 Total Coins " + typ, 1), ("2 Total Earnings " + typ, v),
                         (label + " Coins " + typ, 1), (label + " Earnings " + typ, v)):
            audits[key] = audits.get(key, 0) + inc

    try:
        vm = VMachine(_machine_config(cfg), kind="fake")
    except BaseException as e:      # a config MPF refuses is not a verdict about balances
        if isinstance(e, (KeyboardInterrupt, SystemExit)):
            raise
        raise RuntimeError("boot failed for generated config %r: %r" % (cfg, e))

    with vm:
        m = vm.machine
        sc = m.switch_controller
        ev = m.events
        mode = m.modes["credits"]
        var = m.variables.get_machine_var

        def units():
            u = var("credit_units")
            return u if u else 0

        def _add_ball(**kwargs):
            del kwargs
            m.playfield.balls += 1
            m.playfield.available_balls += 1
        m.playfield.add_ball = _add_ball
        m.ball_controller.num_balls_known = 3

        envlog = []

        def rec(kind, **data):
            envlog.append((vm.now(), kind, units(), data))

        # context of the game that is starting / running (set live by handlers and ops)
        live = {"holding": False, "held": False, "window_ops": 0, "bypass": False}
        hold_s = float(cfg.get("hold_s", 0) or 0)

        def on_game_stopped(**kwargs):
            rec("game_stopped")
            live.update(holding=False, held=False, window_ops=0, bypass=False)

        def hold_game_starting(queue=None, **kwargs):
            """Keep the game_starting queue event waiting for the generated virtual delay."""
            if not hold_s or queue is None:
                return
            obs["held_game_starts"] += 1
            live.update(holding=True, held=True, window_ops=0)
            queue.wait()

            def release(*args):
                live["holding"] = False
                queue.clear()
            m.clock.schedule_once(release, hold_s)

        ev.add_handler("game_starting", hold_game_starting, priority=1)
        # inputs that are EVENTS take effect when MPF dispatches them, which may be after other events of the same
        # instant (e.g. the release of a held game_starting): the model applies them in MPF's dispatch order
        ev.add_handler("enable_credit_play", lambda **kwargs: rec("mode_ev", to="credit"), priority=LO)
        ev.add_handler("enable_free_play", lambda **kwargs: rec("mode_ev", to="free"), priority=LO)
        ev.add_handler("toggle_credit_play", lambda **kwargs: rec("mode_ev", to="flip"), priority=LO)
        ev.add_handler("credits_reset", lambda **kwargs: rec("credits_reset_ev"), priority=LO)
        ev.add_handler("c20_award", lambda **kwargs: rec("award_ev"), priority=LO)
        ev.add_handler("mode_game_started", lambda **kwargs: rec("game_started"), priority=HI)
        ev.add_handler("mode_game_stopped", on_game_stopped, priority=HI)
        ev.add_handler("ball_starting", lambda **kwargs: rec("ball_starting", player=kwargs.get("player"),
                                                          ball=kwargs.get("ball")), priority=HI)
        ev.add_handler("player_added", lambda **kwargs: rec("pa_pre", num=kwargs.get("num")), priority=HI)
        ev.add_handler("player_added", lambda **kwargs: rec("pa_post", num=kwargs.get("num")), priority=LO)
        ev.add_handler("player_add_request", lambda **kwargs: rec(
            "par_pre", nplayers=len(m.game.player_list) if m.game else None, held=live["held"],
            window_ops=live["window_ops"], bypass=live["bypass"]), priority=HI)
        ev.add_handler("player_add_request", lambda **kwargs: rec("par_ok"), priority=LO)
        ev.add_handler("request_to_start_game", lambda **kwargs: rec("rts_pre"), priority=HI)
        ev.add_handler("request_to_start_game", lambda **kwargs: rec("rts_ok"), priority=LO)

        def float_evidence():
            """In a float-fragile configuration: did MPF actually derive other unit counts than the exact ones?
            (reads the mode's derived tables; used only to NAME a mismatch, never to decide one)"""
            if not fragile:
                return False
            try:
                if mode.credit_units_per_game != den:
                    return True
                if cfg["tiers"]:
                    ut = [(int(tp / unit), int(tc * den - tp / unit)) for tp, tc in model.tiers]
                    wrap = ut[-1][0]
                    table, oldb = {}, 0
                    for n in range(wrap + 1):
                        acc = bonus = 0
                        for tu, tb in reversed(ut):
                            while n - acc >= tu:
                                acc += tu
                                bonus += tb
                        table[n] = bonus - oldb
                        oldb = bonus
                    if mode.pricing_tiers_wrap_around != wrap or dict(mode.pricing_table) != table:
                        return True
            except Exception:       # noqa  (attribute renamed etc.: no evidence)
                return False
            return False

        def persistent_sig(crash_text=""):
            """Conditions that explain every later balance/display mismatch or crash: name them first."""
            d = var("credits_denominator")
            if d == 0 and model.mode == "credit":
                return "C20:credit_units_not_computed_after_free_play_boot"
            if float_evidence() or (fragile and "Credits units need to be ints" in crash_text):
                return "C20:float_truncation_in_unit_arithmetic"
            return None

        def unit_sig():
            """MPF charges a different number of units per game than the configuration says."""
            d = var("credits_denominator")
            if d == 0 and model.mode == "credit":
                return "C20:credit_units_not_computed_after_free_play_boot"
            if d is not None and d != den and fragile:
                return "C20:float_truncation_in_unit_arithmetic"
            return None

        st = {"cap_taint": False, "root": None, "first_req": None, "players_seen": 0, "award_want": 0}
        fragile = _float_fragile(cfg)
        pending_ok = []      # balances (units) at approved player_add_requests not yet matched to a player_added

        def consume_env():
            """Feed what MPF did during this step to the model and run the gate / deduction oracles."""
            pre = None
            for (te, kind, u, data) in envlog:
                model.advance(te)
                if kind == "game_started":
                    obs["games_started"] += 1
                    st["players_seen"] = 0
                    st["first_req"] = None
                    model.game_started()
                elif kind == "game_stopped":
                    obs["games_ended"] += 1
                    model.game_stopped(te)
                    del pending_ok[:]
                elif kind == "ball_starting":
                    if data.get("player") == 1 and data.get("ball") == 2:
                        model.ball2_player1()
                elif kind == "mode_ev":
                    to = data["to"]
                    if to == "flip":
                        to = "free" if model.mode == "credit" else "credit"
                    model.set_mode(to)
                elif kind == "credits_reset_ev":
                    model.clear_all()
                elif kind == "award_ev":
                    if model.mode == "credit":
                        model.award(int(cfg["award"]), te)
                        st["award_want"] += 1
                elif kind in ("par_pre", "rts_pre"):
                    pre = (kind, u)
                    if kind == "par_pre" and data.get("nplayers") == 0:
                        # the first player of a game: its add is a step of its own after the start approval
                        st["first_req"] = {"units": u, "approved": False, "mode": model.mode}
                        if model.mode == "credit" and (data.get("bypass") or
                                                       (data.get("held") and data.get("window_ops"))):
                            clauses["first_player_gate"] += 1
                            obs["first_player_approved" if u >= den else "first_player_denied"] += 1
                elif kind in ("par_ok", "rts_ok"):
                    obs["requests_approved"] += 1
                    if kind == "par_ok" and st["first_req"] is not None:
                        st["first_req"]["approved"] = True
                    if model.mode == "credit":
                        clauses["gate"] += 1
                        if u < den:
                            add_violation("gate", unit_sig() or "C20:request_approved_without_full_price",
                                          {"request": kind, "credit_units": u, "units_per_game": den})
                    if kind == "par_ok":
                        pending_ok.append((u, model.mode))
                elif kind == "pa_pre":
                    pre = ("pa_pre", u)
                elif kind == "pa_post":
                    st["players_seen"] += 1
                    at_request, mode_at_request = pending_ok.pop(0) if pending_ok else (None, None)
                    before = pre[1] if pre and pre[0] == "pa_pre" else None
                    if model.mode != "credit":
                        obs["players_added_free"] += 1
                        continue
                    if mode_at_request == "free":
                        # approved in free play, credit play enabled before player_added was dispatched (same
                        # instant): statement silent on whether this player is charged -- accept what MPF did
                        obs["mode_switch_between_request_and_add"] += 1
                        model.player_added(resync_to=F(u) / den)
                        continue
                    obs["players_added_credit"] += 1
                    if before is None:
                        continue
                    clauses["gate"] += 1
                    if before < den:
                        if at_request is not None and at_request >= den:
                            sig = "C20:burst_player_add_single_credit"
                        elif at_request is None:
                            # no approved player_add_request is outstanding: the veto was ignored / bypassed
                            sig = "C20:player_added_after_denied_request"
                        else:
                            sig = "C20:player_added_without_full_price"
                        add_violation("gate", unit_sig() or sig,
                                      {"credit_units_at_player_added": before, "credit_units_at_request": at_request,
                                       "units_per_game": den, "deducted": before - u, "num": data.get("num"),
                                       "first_player_request": st["first_req"]})
                        model.player_added(resync_to=F(u) / den)
                        continue
                    clauses["deduct"] += 1
                    if before - u != den:
                        add_violation("deduct", unit_sig() or "C20:wrong_deduction_on_player_added",
                                      {"before": before, "after": u, "units_per_game": den, "num": data.get("num")})
                        model.player_added(resync_to=F(u) / den)
                    else:
                        model.player_added()
            # requests that were posted but never approved
            n_pre = sum(1 for e in envlog if e[1] in ("par_pre", "rts_pre"))
            n_ok = sum(1 for e in envlog if e[1] in ("par_ok", "rts_ok"))
            obs["requests_denied"] += max(0, n_pre - n_ok)
            del envlog[:]

        def check_state(i, op, cb_expect=None):
            """Oracles at rest after step i."""
            obs["steps"] += 1
            now = vm.now()
            model.advance(now)
            u = units()
            b = F(u) / den
            psig = persistent_sig()
            if model.max and b > model.max:
                st["cap_taint"] = True       # everything later in this case may be a consequence of the overflow
            if psig is None and st["cap_taint"]:
                psig = "C20:max_credits_exceeded"
            # -- balance vs model
            clauses["balance"] += 1
            expected = model.expected()
            if not model.observe(b):
                sig = psig
                if sig is None and cb_expect is not None and cb_expect[1] > cb_expect[0]:
                    sig = "C20:credit_handlers_registered_twice"
                if sig is None and model.max and b > model.max:
                    sig = "C20:max_credits_exceeded"
                # one root cause per case: after a first divergence the hidden tier progress may differ too,
                # so later balance mismatches of the same case are consequences, not new mechanisms
                sig = st["root"] or sig or "C20:balance_mismatch"
                st["root"] = sig
                add_violation("balance", sig,
                              {"step": i, "op": op, "observed_credits": _fs(b), "credit_units": u,
                               "expected_credits": [_fs(x) for x in expected][:8], "mode": model.mode,
                               "callbacks_expected_got": cb_expect})
            # -- bounds
            clauses["bounds"] += 1
            if u < 0:
                add_violation("bounds", "C20:negative_balance", {"step": i, "op": op, "credit_units": u})
            if model.max and b > model.max:
                add_violation("bounds", psig or "C20:max_credits_exceeded",
                              {"step": i, "op": op, "observed_credits": _fs(b), "max_credits": model.max})
            # -- every player of the running game went through player_added (where gate/deduct were evaluated)
            if m.game is not None and len(m.game.player_list) > st["players_seen"]:
                add_violation("gate", "C20:player_in_game_without_player_added",
                              {"step": i, "op": op, "players": len(m.game.player_list),
                               "player_added_seen": st["players_seen"]})
                st["players_seen"] = len(m.game.player_list)
            # -- callbacks per physical coin / service credit / credit event
            if cb_expect is not None:
                clauses["coin_once"] += 1
                if cb_expect[1] > cb_expect[0]:
                    st["root"] = st["root"] or ("C20:credit_handlers_registered_twice" if cb_expect[0] else
                                                "C20:credit_input_accepted_in_free_play")
                    add_violation("balance", "C20:credit_handlers_registered_twice" if cb_expect[0] else
                                  "C20:credit_input_accepted_in_free_play",
                                  {"step": i, "op": op, "callbacks_expected_got": cb_expect, "mode": model.mode})
                elif cb_expect[1] < cb_expect[0]:
                    add_violation("balance", psig or "C20:credit_input_not_accepted_in_credit_play",
                                  {"step": i, "op": op, "callbacks_expected_got": cb_expect, "mode": model.mode})
            # -- display (credit play only)
            cs = var("credits_string")
            if model.mode == "credit":
                clauses["display"] += 1
                d = var("credits_denominator")
                val = _parse_value(var("credits_value"))
                whole, num = var("credits_whole_num"), var("credits_numerator")
                ok = True
                why = None
                if d != den:
                    ok, why = False, "units per game shown %r, exact %r" % (d, den)
                elif val is None or val != b:
                    ok, why = False, "credits_value %r != balance %s" % (var("credits_value"), _fs(b))
                elif cs != "CREDITS " + str(var("credits_value")):
                    ok, why = False, "credits_string %r" % (cs,)
                elif whole is None or num is None or whole * den + num != u:
                    ok, why = False, "whole/numerator %r/%r vs units %r" % (whole, num, u)
                if not ok:
                    dsig = psig
                    if dsig is None and d != den:
                        dsig = "C20:units_per_game_wrong"
                    if dsig is None and model.max and val is not None and val > model.max:
                        dsig = "C20:max_credits_exceeded"      # the DISPLAYED balance is above the cap
                    add_violation("display", dsig or "C20:display_vars_stale",
                                  {"step": i, "op": op, "why": why, "credits_string": cs})
            else:
                if cs != "FREE PLAY":
                    add_violation("display", "C20:free_play_string_missing", {"step": i, "op": op, "credits_string": cs})
            # -- earnings
            clauses["earnings"] += 1
            earn = mode.earnings
            bad = None
            if not isinstance(earn, dict):
                bad = "earnings is %r" % type(earn)
            else:
                for k, exp in audits.items():
                    got = earn.get(k, 0)
                    if not isinstance(got, (int, float)) or abs(got - float(exp)) > 1e-6:
                        bad = "%s: got %r expected %s" % (k, got, _fs(exp))
                        break
                if bad is None:
                    for k, got in earn.items():
                        if (" Coins " in k or " Earnings " in k) and k not in audits and got:
                            bad = "unexpected audit %s=%r" % (k, got)
                            break
                wd = mode.data_manager.written_data
                if bad is None and wd is not None and wd != earn:
                    bad = "data manager holds %r, earnings %r" % (wd, earn)
            if bad:
                sig = psig
                if sig is None and ("C20:credit_handlers_registered_twice" in seen_sigs):
                    sig = "C20:credit_handlers_registered_twice"
                add_violation("earnings", sig or "C20:earnings_mismatch", {"step": i, "op": op, "why": bad})
                # resync expected audits so one defect is reported once
                for k in list(audits):
                    audits[k] = earn.get(k, 0) if isinstance(earn, dict) else 0
            trace.append([i, op, round(now, 3), u, model.mode])

        def hit(name):
            """Activate + release a switch; an exception out of MPF's synchronous handlers is an MPF crash."""
            try:
                sc.process_switch(name, state=1, logical=True)
                sc.process_switch(name, state=0, logical=True)
            except Exception as e:      # noqa
                raise MpfCrash(repr(e)) from e

        def press_start(n):
            for _ in range(n):
                hit("s_start")

        try:
            vm.advance(SETTLE)
            check_state(-1, ["boot"])
            for i, op in enumerate(ops):
                kind = op[0]
                cb = None
                t0 = vm.now()
                c0 = dict(_COUNTS)
                if live["holding"] and kind != "wait":
                    live["window_ops"] += 1
                    obs["ops_in_hold_window"] += 1
                if kind in ("coin", "coins"):
                    idxs = [op[1]] if kind == "coin" else list(op[1])
                    idxs = [j % len(coin_vals) for j in idxs]
                    if kind == "coins":
                        obs["burst_ops"] += 1
                    for j in idxs:
                        hit("s_c%d" % j)
                    if model.mode == "credit":
                        for j in idxs:
                            model.coin(coin_vals[j], t0)
                            audit_coin(j)
                        obs["coins_accepted"] += len(idxs)
                        want = len(idxs)
                    else:
                        obs["coins_in_free_play"] += len(idxs)
                        want = 0
                    vm.advance(SETTLE)
                    cb = [want, _COUNTS["coin_cb"] - c0["coin_cb"]]
                elif kind == "svc":
                    hit("s_esc")
                    want = 0
                    if model.mode == "credit":
                        model.service_credit()
                        want = 1
                    vm.advance(SETTLE)
                    cb = [want, _COUNTS["svc_cb"] - c0["svc_cb"]]
                elif kind == "award":
                    st["award_want"] = 0
                    ev.post("c20_award")
                    vm.advance(SETTLE)
                    cb = [None, _COUNTS["award_cb"] - c0["award_cb"]]      # expectation known after consume_env
                elif kind in ("start", "starts"):
                    n = 1 if kind == "start" else int(op[1])
                    if n > 1:
                        obs["burst_ops"] += 1
                    press_start(n)
                    vm.advance(SETTLE)
                elif kind == "drain":
                    if m.game and m.game.balls_in_play > 0:
                        got = {}
                        ev.post_relay("ball_drain", balls=1, callback=lambda **kwargs: got.update(kwargs))
                        vm.advance(SETTLE)
                        drained = got.get("balls", 0) or 0
                        m.playfield.balls = max(0, m.playfield.balls - drained)
                        m.playfield.available_balls = max(0, m.playfield.available_balls - drained)
                    else:
                        vm.advance(SETTLE)
                elif kind == "end_game":
                    if m.game:
                        m.game.end_game()
                    vm.advance(SETTLE)
                    if not m.game:
                        m.playfield.balls = 0
                        m.playfield.available_balls = 0
                elif kind == "wait":
                    vm.advance(max(0.0, min(float(op[1]), HORIZONS["max_wait_s"])))
                elif kind == "game_start_event":
                    if not m.game:
                        obs["game_start_events"] += 1
                        live["bypass"] = True
                        ev.post("game_start")
                    vm.advance(SETTLE)
                elif kind == "ecp":
                    obs["toggles"] += 1
                    ev.post("enable_credit_play")
                    vm.advance(SETTLE)
                elif kind == "efp":
                    obs["toggles"] += 1
                    ev.post("enable_free_play")
                    vm.advance(SETTLE)
                elif kind == "toggle":
                    obs["toggles"] += 1
                    ev.post("toggle_credit_play")
                    vm.advance(SETTLE)
                elif kind == "credits_reset":
                    ev.post("credits_reset")
                    vm.advance(SETTLE)
                elif kind == "earnings_reset":
                    ev.post("earnings_reset")
                    audits.clear()
                    vm.advance(SETTLE)
                else:
                    continue
                if not m.game:          # fake playfield bookkeeping: nothing is left on it between games
                    m.playfield.balls = 0
                    m.playfield.available_balls = 0
                    if live["bypass"] and kind != "game_start_event":
                        live["bypass"] = False
                consume_env()
                if cb is not None and cb[0] is None:
                    cb[0] = st["award_want"]
                if cb is not None and {"coin": "coin_cb", "coins": "coin_cb", "svc": "svc_cb",
                                       "award": "award_cb"}[kind] not in _WRAPPED:
                    cb = None           # callback not observable in this tree: no callback-count oracle
                check_state(i, op, cb)
        except MpfCrash as e:
            txt = repr(e)
            add_violation("balance", persistent_sig(txt) or _crash_sig(txt), {"exception": txt[-700:], "mode": model.mode,
                                                       "credits_denominator": var("credits_denominator")})

    obs["cap_clamps"] = model.n_cap
    obs["tier_bonuses"] = model.n_bonus
    obs["tier_wraps"] = model.n_wrap
    obs["expiry_frac"] = model.n_fire_frac
    obs["expiry_all"] = model.n_fire_all
    obs["forks"] = model.n_fork
    obs["hyp_overflow"] = int(model.overflow)

    viol.sort(key=lambda v: v["sig"] in KNOWN_ORDER)
    if len(viol) > 1:
        # harness workaround: the worker shrinks a case for its FIRST signature only and the driver then reuses that
        # case as witness for every signature of the record; report one (root, unlisted-first) violation per case so
        # every replay file reproduces its own signature.  Other mechanisms show up in other cases.
        viol[0]["detail"]["also_in_this_case"] = [v["sig"] for v in viol[1:]]
        viol = viol[:1]
    if viol:
        # harness workaround: the worker shrinks EVERY violating case of an unlisted signature (seconds each);
        # a few shrunk witnesses per worker process are enough, after that hand cases back unshrunk.  The budget
        # is wall time spent in violating runs of this process, so it adapts to a loaded machine.
        _VIOL_TIME[0] += _time.time() - t_case0
        if _VIOL_TIME[0] > SHRINK_BUDGET_S:
            globals()["SHRINK_KEYS"] = []
    kinds = []
    for op in ops:
        if not kinds or kinds[-1] != op[0]:
            kinds.append(op[0])
    shape = "T%d|cap%s|x%s%s|%s%s|%s" % (
        len(cfg["tiers"]), min(cfg["max_credits"], 9), "f" if cfg["t_frac"] else "-", "a" if cfg["t_all"] else "-",
        "dec" if cfg.get("decimal") else "bin", "|free" if cfg["free_play"] else "", ",".join(kinds))
    nontrivial = obs["coins_accepted"] > 0 and clauses["deduct"] > 0 and clauses["balance"] > 0
    return {"violations": viol, "clauses": clauses, "shape": shape, "nontrivial": nontrivial, "obs": obs,
            "trace": trace[-12:]}
