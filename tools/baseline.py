#!/venv/bin/python
"""Run the repository's pinned suite (guard off — mpf never reads it) and compare with BASELINE.json.
usage: tools/baseline.py [tree]   exit 0 iff every stable_pass test passed."""
import json
import os
import subprocess
import sys
import tempfile
import xml.etree.ElementTree as ET

tree = sys.argv[1] if len(sys.argv) > 1 else "/repo"
base = json.load(open("/root/.vp/BASELINE.json"))
out = tempfile.mktemp(suffix=".xml")
env = dict(os.environ)
env.pop("MPF_VERIF", None)
subprocess.run(["/venv/bin/python", "-m", "pytest", "-q", "-p", "no:cacheprovider", "--timeout=900", "-n", "16",
                "--continue-on-collection-errors", "--junitxml=" + out], cwd=tree, env=env,
               stdout=subprocess.DEVNULL, stderr=subprocess.DEVNULL)
passed = set()
for tc in ET.parse(out).getroot().iter("testcase"):
    if not any(c.tag in ("failure", "error", "skipped") for c in tc):
        passed.add("%s::%s" % (tc.get("classname"), tc.get("name")))
os.remove(out)
missing = [t for t in base["stable_pass"] if t not in passed]
print("passed=%d stable=%d missing=%d" % (len(passed), len(base["stable_pass"]), len(missing)))
for m in missing[:40]:
    print("  MISSING", m)
sys.exit(1 if missing else 0)
