#!/venv/bin/python
"""Make a mutant patch by exact string replacement.
usage: tools/mkmutant.py NAME REPO_RELATIVE_FILE OLD NEW [--count N] [--src /repo]
OLD/NEW may contain \\n escapes.  Writes mutants/NAME.patch (unified diff relative to the repo root)."""
import difflib
import os
import sys

HERE = os.path.dirname(os.path.dirname(os.path.abspath(__file__)))
args = sys.argv[1:]
src = "/repo"
if "--src" in args:
    i = args.index("--src")
    src = args[i + 1]
    del args[i:i + 2]
name, rel, old, new = args[:4]
old = old.encode().decode("unicode_escape")
new = new.encode().decode("unicode_escape")
a = open(os.path.join(src, rel)).read()
if a.count(old) < 1:
    sys.exit("OLD text not found in %s" % rel)
b = a.replace(old, new, 1)
compile(b, rel, "exec")
diff = "".join(difflib.unified_diff(a.splitlines(True), b.splitlines(True), "a/" + rel, "b/" + rel))
out = os.path.join(HERE, "mutants", name + ".patch")
open(out, "w").write(diff)
print("wrote", out)
