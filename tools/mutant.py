#!/venv/bin/python
"""Self-test of monitors against deliberate breakage.

usage: tools/mutant.py <patch> [<patch> ...] [--tier quick] [--seed N] [--keep]
       tools/mutant.py --all [CNN]
For each patch (unified diff relative to the repository root, `git apply`-able): copy /repo/mpf to a scratch
tree under a temp dir, apply it there, run the property's check against that tree (VERIF_TREE), report
caught / MISSED, remove the scratch tree.  /repo itself is never touched.  The property is taken from the
patch file name (mutants/C07_skip_remove_handlers.patch, seeded/C07-foo/patch.diff).
"""
import argparse
import glob
import os
import re
import shutil
import subprocess
import sys
import tempfile

HERE = os.path.dirname(os.path.dirname(os.path.abspath(__file__)))


def prop_of(path):
    m = re.search(r"(C\d\d)", os.path.relpath(path, HERE))
    return m.group(1) if m else None


def run_one(patch, tier, seed, keep=False):
    prop = prop_of(patch)
    base = tempfile.mkdtemp(prefix="verif-mut-")
    tree = os.path.join(base, "tree")
    os.makedirs(tree)
    try:
        shutil.copytree("/repo/mpf", os.path.join(tree, "mpf"), ignore=shutil.ignore_patterns("__pycache__"))
        p = subprocess.run(["patch", "-p1", "-s", "-i", os.path.abspath(patch)], cwd=tree,
                           stdout=subprocess.PIPE, stderr=subprocess.STDOUT)
        if p.returncode != 0:
            return prop, "PATCH-FAILED", p.stdout.decode()[-500:]
        env = dict(os.environ, VERIF_TREE=tree, VERIF_NO_SHRINK="1", VERIF_EVIDENCE_DIR=os.path.join(base, "ev"))
        c = subprocess.run([os.path.join(HERE, "check"), prop, "--tier", tier, "--seed", str(seed)], cwd=HERE, env=env,
                           stdout=subprocess.PIPE, stderr=subprocess.STDOUT)
        out = c.stdout.decode()
        lines = [l for l in out.splitlines() if l.startswith("VIOLATION") or l.startswith("  sig=")]
        verdict = "caught" if c.returncode == 1 and any(l.startswith("VIOLATION") for l in lines) else \
            ("MISSED(rc=%d)" % c.returncode)
        return prop, verdict, "\n".join(l[:300] for l in lines[:4]) if lines else out[-600:]
    finally:
        if not keep:
            shutil.rmtree(base, ignore_errors=True)
        else:
            print("kept", base)


def main():
    ap = argparse.ArgumentParser()
    ap.add_argument("patches", nargs="*")
    ap.add_argument("--all", action="store_true")
    ap.add_argument("--tier", default="quick")
    ap.add_argument("--seed", default="0")
    ap.add_argument("--keep", action="store_true")
    a = ap.parse_args()
    patches = list(a.patches)
    if a.all:
        flt = patches[0] if patches else ""
        patches = sorted(glob.glob(os.path.join(HERE, "mutants", "*.patch")) +
                         glob.glob(os.path.join(HERE, "seeded", "*", "patch.diff")))
        patches = [p for p in patches if flt in p]
    missed = 0
    for p in patches:
        prop, verdict, info = run_one(p, a.tier, a.seed, a.keep)
        print("%-60s %s %s" % (os.path.relpath(p, HERE), prop, verdict))
        if verdict != "caught":
            missed += 1
            print("    " + info.replace("\n", "\n    "))
        elif os.environ.get("VERBOSE"):
            print("    " + info.replace("\n", "\n    "))
    sys.exit(1 if missed else 0)


if __name__ == "__main__":
    main()
