#!/venv/bin/python
"""Regenerate seeded/INDEX.md from seeded/*/meta.json."""
import glob
import json
import os

HERE = os.path.dirname(os.path.dirname(os.path.abspath(__file__)))
rows = []
for mp in sorted(glob.glob(os.path.join(HERE, "seeded", "*", "meta.json"))):
    d = json.load(open(mp))
    sid = d["id"]
    notes = os.path.join(os.path.dirname(mp), "NOTES.md")
    first = ""
    if os.path.exists(notes):
        for line in open(notes):
            line = line.strip()
            if line and not line.startswith("#"):
                first = line
                break
    init = d.get("caught_by_quick_initially", d.get("caught_by_quick"))
    now = d.get("caught_by_quick")
    rows.append((sid, d["property"], init, now, d.get("strengthening", ""), ",".join(d.get("quick_check_sigs", []))[:160]))
n = len(rows)
ci = sum(1 for r in rows if r[2])
cn = sum(1 for r in rows if r[3])
out = ["# Independent seeded regressions", "",
       "Written by fresh sub-agents that saw only the property text and their own scratch worktree. Each passes the",
       "pinned suite and has a demo (exit 1 on the changed tree, 0 on /repo). `tools/seed_intake.py` re-checks all that",
       "and runs the property's quick tier against a scratch tree with the patch applied.", "",
       "**%d regressions: %d caught at intake, %d caught now** (after the workload/oracle extensions listed below); " % (n, ci, cn) +
       "the remaining %d is documented in its meta.json." % (n - cn), "",
       "| id | caught at intake | caught now | deciding signatures (quick tier) | extension made when it was missed |",
       "|----|----|----|----|----|"]
for sid, prop, init, now, st, sigs in rows:
    out.append("| %s | %s | %s | %s | %s |" % (sid, "yes" if init else "**no**", "yes" if now else "**no**",
                                              sigs.replace("|", "/"), st.replace("|", "/")))
open(os.path.join(HERE, "seeded", "INDEX.md"), "w").write("\n".join(out) + "\n")
print("%d seeds, %d caught at intake, %d caught now" % (n, ci, cn))
