#!/venv/bin/python
"""Intake of an independently written breaking change (seeded regression).

usage: tools/seed_intake.py /tmp/seed/out/C13_a [...]
For each directory (patch.diff, demo.py, NOTES.md): apply the patch to a scratch copy of /repo/mpf, run the demo on
the scratch tree (must exit 1) and on /repo (must exit 0), run the property's quick check against the scratch tree,
and store everything under seeded/<id>/ with meta.json.  (Passing the pinned suite was checked by the author of the
change with the same baseline script; re-run with --baseline to confirm here.)"""
import json
import os
import re
import shutil
import subprocess
import sys
import tempfile

HERE = os.path.dirname(os.path.dirname(os.path.abspath(__file__)))
args = [a for a in sys.argv[1:] if not a.startswith("--")]
do_base = "--baseline" in sys.argv
for src in args:
    sid = os.path.basename(src.rstrip("/"))
    prop = re.match(r"(C\d\d)", sid).group(1)
    base = tempfile.mkdtemp(prefix="verif-seed-")
    tree = os.path.join(base, "tree")
    os.makedirs(tree)
    meta = {"id": sid, "property": prop}
    try:
        shutil.copytree("/repo/mpf", os.path.join(tree, "mpf"), ignore=shutil.ignore_patterns("__pycache__"))
        p = subprocess.run(["patch", "--no-backup-if-mismatch", "-p1", "-s", "-i", os.path.join(src, "patch.diff")],
                           cwd=tree, stdout=subprocess.PIPE, stderr=subprocess.STDOUT)
        meta["patch_applies"] = p.returncode == 0
        if p.returncode != 0:
            print(sid, "PATCH FAILED", p.stdout.decode()[-300:])
            continue
        env = dict(os.environ, TMPDIR=base)

        def demo(t):
            r = subprocess.run(["/venv/bin/python", os.path.join(src, "demo.py")], cwd=t,
                               env=dict(env, PYTHONPATH=t), stdout=subprocess.PIPE, stderr=subprocess.STDOUT, timeout=900)
            return r.returncode
        meta["demo_exit_on_changed_tree"] = demo(tree)
        meta["demo_exit_on_repo"] = demo("/repo")
        if do_base:
            r = subprocess.run([os.path.join(HERE, "tools", "baseline.py"), tree], stdout=subprocess.PIPE)
            meta["baseline"] = r.stdout.decode().strip().splitlines()[0]
        c = subprocess.run([os.path.join(HERE, "check"), prop, "--tier", "quick"], cwd=HERE,
                           env=dict(os.environ, VERIF_TREE=tree, VERIF_NO_SHRINK="1",
                                    VERIF_EVIDENCE_DIR=os.path.join(base, "ev")),
                           stdout=subprocess.PIPE, stderr=subprocess.STDOUT)
        out = c.stdout.decode()
        sigs = sorted(set(re.findall(r"sig=(\S+)", out)))
        meta["quick_check_exit"] = c.returncode
        meta["quick_check_sigs"] = sigs
        meta["caught_by_quick"] = c.returncode == 1
        dst = os.path.join(HERE, "seeded", sid)
        os.makedirs(dst, exist_ok=True)
        for f in ("patch.diff", "demo.py", "NOTES.md"):
            if os.path.exists(os.path.join(src, f)):
                shutil.copy(os.path.join(src, f), os.path.join(dst, f))
        notes = open(os.path.join(src, "NOTES.md")).read() if os.path.exists(os.path.join(src, "NOTES.md")) else ""
        meta["needs_to_manifest"] = "see NOTES.md"
        meta["what_was_run"] = ("author: /root/seedkit/baseline.py on the changed worktree (pinned suite, missing=0 per NOTES.md), "
                                "demo.py on both trees; intake: patch applied to a scratch copy of /repo/mpf, demo.py on both "
                                "trees, ./check %s --tier quick --tree <scratch>" % prop)
        old = {}
        mp = os.path.join(dst, "meta.json")
        if os.path.exists(mp):
            old = json.load(open(mp))
        old.update(meta)
        json.dump(old, open(mp, "w"), indent=1)
        print("%-10s demo changed/repo=%s/%s  quick rc=%s caught=%s sigs=%s" % (
            sid, meta["demo_exit_on_changed_tree"], meta["demo_exit_on_repo"], c.returncode, meta["caught_by_quick"],
            ",".join(sigs)[:200]))
    finally:
        shutil.rmtree(base, ignore_errors=True)
