"""Shared harness library for the runtime-monitoring checks (see DESIGN.md §1)."""
