"""Import guard + machine factory on MPF's own TimeTravelLoop/TestClock.

A machine is booted from a *generated* directory (config + modes + shows) that lives under
the worker's private temp dir.  Production classes are used unmodified; only the clock
(virtual time), the data manager (in-memory, unless a check swaps it) and the config loader
(cache off) are the test doubles MPF's own suite uses.
"""
import os
import sys
import shutil
import tempfile
import logging


def tree_root():
    return os.path.abspath(os.environ.get("VERIF_TREE", "/repo"))


def guard_import():
    """Make sure `import mpf` resolves to the tree under test, not /venv's copy."""
    root = tree_root()
    if root not in sys.path[:1]:
        sys.path.insert(0, root)
    for name in [n for n in sys.modules if n == "mpf" or n.startswith("mpf.")]:
        mod = sys.modules[name]
        f = getattr(mod, "__file__", "") or ""
        if f and not os.path.abspath(f).startswith(root + os.sep):
            raise RuntimeError("import guard: %s loaded from %s, not %s" % (name, f, root))
    import mpf
    f = os.path.abspath(mpf.__file__)
    if not f.startswith(root + os.sep):
        raise RuntimeError("import guard: mpf loaded from %s, not under %s" % (f, root))
    return root


def dump_yaml(obj):
    from ruamel.yaml import YAML
    import io
    y = YAML(typ="safe")
    y.default_flow_style = False
    s = io.StringIO()
    y.dump(obj, s)
    return s.getvalue()


def _as_text(cfg, header="#config_version=6\n"):
    if isinstance(cfg, str):
        txt = cfg
    else:
        txt = dump_yaml(cfg)
    if not txt.lstrip().startswith("#config_version") and not txt.lstrip().startswith("#show_version"):
        txt = header + txt
    return txt


class MpfCrash(Exception):
    """MPF raised out of the loop (the loop's exception handler fired)."""


class VMachine:
    """Boot a real MachineController from generated config text.

    config: dict or yaml text (machine config)
    modes:  {mode_name: dict|yaml}
    shows:  {show_name: dict|list|yaml}   (written to shows/<name>.yaml)
    kind:   'plain' (MpfTestCase), 'game' (MpfGameTestCase), 'fake' (MpfFakeGameTestCase)
    """

    def __init__(self, config, modes=None, shows=None, kind="plain", platform="virtual",
                 mock_data=None, patches=None, early_init=None, extra_files=None,
                 mock_loop=None, start_timeout=60, use_bcp=False):
        guard_import()
        from mpf.tests.MpfTestCase import MpfTestCase
        from mpf.tests.MpfGameTestCase import MpfGameTestCase
        from mpf.tests.MpfFakeGameTestCase import MpfFakeGameTestCase
        import mpf.tests.MpfTestCase as mtc
        mtc.LOCAL_START_TIMEOUT = start_timeout
        base = {"plain": MpfTestCase, "game": MpfGameTestCase, "fake": MpfFakeGameTestCase}[kind]
        if not getattr(mtc.UnitTestConfigLoader, "_verif_nocache", False):
            # MPF's unit-test loader always reads/writes pickled config caches in the temp dir; machine dirs are
            # unique per case here, so the cache can never hit and only litters the temp dir
            from mpf.core.config_loader import YamlMultifileConfigLoader

            class _NoCacheLoader(mtc.UnitTestConfigLoader):
                _verif_nocache = True

                def __init__(self, machine_path, configfile, config_defaults, config_patches, spec_patches):
                    YamlMultifileConfigLoader.__init__(self, machine_path, configfile, False, False)
                    self.config_defaults = config_defaults
                    self.config_patches = config_patches
                    self.spec_patches = spec_patches
            mtc.UnitTestConfigLoader = _NoCacheLoader

        self.path = tempfile.mkdtemp(prefix="vm-")
        os.makedirs(os.path.join(self.path, "config"))
        with open(os.path.join(self.path, "config", "config.yaml"), "w") as f:
            f.write(_as_text(config))
        for name, mcfg in (modes or {}).items():
            d = os.path.join(self.path, "modes", name, "config")
            os.makedirs(d)
            with open(os.path.join(d, name + ".yaml"), "w") as f:
                f.write(_as_text(mcfg))
        if shows:
            d = os.path.join(self.path, "shows")
            os.makedirs(d)
            for name, scfg in shows.items():
                with open(os.path.join(d, name + ".yaml"), "w") as f:
                    f.write(_as_text(scfg, header="#show_version=6\n"))
        for rel, txt in (extra_files or {}).items():
            p = os.path.join(self.path, rel)
            os.makedirs(os.path.dirname(p), exist_ok=True)
            with open(p, "w") as f:
                f.write(txt)

        vm = self

        class _T(base):
            def runTest(self_inner):
                pass

            def get_absolute_machine_path(self_inner):
                return vm.path

            def get_config_file(self_inner):
                return "config.yaml"

            def _get_config_file(self_inner):
                return "config.yaml"

            def get_platform(self_inner):
                return platform

            def get_use_bcp(self_inner):
                return use_bcp

            def _get_mock_data(self_inner):
                return mock_data or {}

            def _early_machine_init(self_inner, machine):
                if early_init:
                    early_init(machine)

            def _mock_loop(self_inner):
                if mock_loop:
                    mock_loop(self_inner)

            def get_options(self_inner):
                o = super().get_options()
                o["no_load_cache"] = True
                o["create_config_cache"] = False
                return o

        self.t = _T("runTest")
        if patches:
            for k, v in patches.items():
                self.t.machine_config_patches[k] = v
        self.closed = False
        try:
            self.t.setUp()
        except BaseException:
            self._cleanup_dir()
            raise
        self.machine = self.t.machine
        self.loop = self.t.loop
        self.clock = self.t.clock

    # -- time -------------------------------------------------------------------------
    def now(self):
        return self.loop.time()

    def advance(self, secs=0.0):
        """Advance virtual time; an exception that reached the loop handler raises MpfCrash."""
        try:
            self.t.advance_time_and_run(secs)
        except Exception as e:   # noqa  (BaseExceptions such as the worker's CaseTimeout pass through)
            raise MpfCrash(repr(e)) from e

    def run(self):
        self.advance(0)

    def crashed(self):
        return self.t._exception

    # -- teardown ---------------------------------------------------------------------
    def _cleanup_dir(self):
        shutil.rmtree(self.path, ignore_errors=True)

    def close(self):
        if self.closed:
            return
        self.closed = True
        try:
            self.t._exception = None
            try:
                self.machine._do_stop()
            except BaseException:
                pass
            try:
                self.t.restore_sys_path()
            except BaseException:
                pass
            try:
                import asyncio
                asyncio.events.set_event_loop(None)
                if not self.loop.is_closed():
                    self.machine._test_clock = None
                    self.loop.close()
            except BaseException:
                pass
        finally:
            self._cleanup_dir()

    def __enter__(self):
        return self

    def __exit__(self, *a):
        self.close()
        return False


def bare_loop():
    """A TimeTravelLoop + TestClock without a machine (for pure-object checks)."""
    guard_import()
    import asyncio
    from mpf.tests.loop import TimeTravelLoop, TestClock
    loop = TimeTravelLoop()
    asyncio.events.set_event_loop(loop)
    return loop, TestClock(loop)


def advance_loop(loop, secs):
    import asyncio
    loop.run_until_complete(asyncio.sleep(secs))


logging.basicConfig(level=99)
