"""Reference model of the event bus used as an ONLINE checker (C01, also reused by C02).

The checker consumes the recorded history of one machine run — registrations, removals, posts (with the invocation
they were made from), handler entries/exits and completion callbacks, in the order they really happened — and
validates each step as an allowed next step of the specification:

* dispatch order of posts: depth first (children of the event being handled, in posting order, before anything that
  was already waiting); posts made outside a dispatch are FIFO;
* per post: snapshot of the registrations at dispatch begin; handlers come in descending priority (ties any order);
  must-call = snapshot members still registered at their turn whose condition holds; removed-mid-dispatch members
  may or may not be called; everything else must not be called; each at most once;
* merged kwargs = posted kwargs overridden by the registration's kwargs;
* handlers never nest and the invocations of one post are contiguous;
* a completion callback runs exactly once, only when every post made so far has been dispatched.
"""


class Reg:
    __slots__ = ("rid", "event", "fid", "prio", "kwargs", "cond", "alive", "seq")

    def __init__(self, rid, event, fid, prio, kwargs, cond, seq):
        self.rid, self.event, self.fid, self.prio, self.kwargs, self.cond = rid, event, fid, prio, kwargs, cond
        self.alive = True
        self.seq = seq


class Post:
    __slots__ = ("pid", "event", "kwargs", "type", "has_cb", "parent", "state", "snapshot", "called", "passed",
                 "cb_count", "children", "no_handler_at_post", "relay_kwargs", "stopped", "depth")

    def __init__(self, pid, event, kwargs, type_, has_cb, parent, no_handler_at_post, depth):
        self.pid, self.event, self.kwargs, self.type, self.has_cb, self.parent = pid, event, kwargs, type_, has_cb, parent
        self.state = "pending"      # pending -> dispatching -> done
        self.snapshot = []
        self.called = set()
        self.passed = set()
        self.cb_count = 0
        self.children = []
        self.no_handler_at_post = no_handler_at_post
        self.relay_kwargs = dict(kwargs)
        self.stopped = False
        self.depth = depth


def eval_cond(cond, kwargs):
    if cond is None:
        return True
    try:
        return bool(eval(cond, {"__builtins__": {}}, dict(kwargs)))   # noqa: conditions come from our generator
    except Exception:
        return False


class BusChecker:
    def __init__(self, prop="C01"):
        self.prop = prop
        self.regs = {}          # rid -> Reg
        self.by_event = {}      # event -> [Reg]  (alive only)
        self.posts = {}         # pid -> Post
        self.stack = []         # stack of FIFO lists of pending pids  (depth-first discipline)
        self.current = None     # Post being dispatched
        self.open_inv = None    # (rid, pid) of the handler currently on the stack
        self.new_children = []  # pids posted during the current invocation/dispatch
        self.viol = []
        self.clauses = {"delivered_once": 0, "priority_order": 0, "kwargs_merge": 0, "serial": 0, "dispatch_order": 0,
                        "callback_once": 0, "callback_after_subtree": 0, "condition": 0}
        self.obs = {"invocations": 0, "posts": 0, "callbacks": 0, "removed_mid_dispatch_called": 0,
                    "removed_mid_dispatch_skipped": 0, "priority_ties": 0, "posts_without_handlers": 0,
                    "max_depth": 0, "added_mid_dispatch": 0}
        self.seq = 0

    # ------------------------------------------------------------------ helpers
    def V(self, clause, sig, **detail):
        if len(self.viol) < 25:
            self.viol.append({"clause": clause, "sig": "%s:%s" % (self.prop, sig), "detail": detail})

    def add_reg(self, rid, event, fid, prio, kwargs, cond):
        self.seq += 1
        r = Reg(rid, event, fid, prio, dict(kwargs), cond, self.seq)
        self.regs[rid] = r
        self.by_event.setdefault(event, []).append(r)
        if self.current is not None and self.current.event == event:
            self.obs["added_mid_dispatch"] += 1

    def remove_reg(self, rid):
        r = self.regs.get(rid)
        if r is None or not r.alive:
            return
        r.alive = False
        self.by_event[r.event].remove(r)

    def alive_regs(self, event):
        return list(self.by_event.get(event, []))

    # ------------------------------------------------------------------ posts
    def on_post(self, pid, event, kwargs, type_, has_cb):
        parent = self.current.pid if (self.current is not None and self.open_inv is not None) else None
        depth = (self.posts[parent].depth + 1) if parent is not None else 0
        p = Post(pid, event, dict(kwargs), type_, has_cb, parent, not self.alive_regs(event) and not has_cb, depth)
        self.posts[pid] = p
        self.obs["posts"] += 1
        self.obs["max_depth"] = max(self.obs["max_depth"], depth)
        if self.open_inv is not None or self._in_callback:
            self.new_children.append(pid)
        else:
            # posted from outside any dispatch: joins the base FIFO
            if not self.stack:
                self.stack.append([])
            self.stack[0].append(pid)

    _in_callback = False

    def _flush_children(self):
        if self.new_children:
            self.stack.append(self.new_children)
            self.new_children = []

    def _next_pending(self):
        while self.stack and not self.stack[-1]:
            self.stack.pop()
        if not self.stack:
            return None
        return self.stack[-1][0]

    def _pop_pending(self, pid):
        for q in self.stack:
            if pid in q:
                q.remove(pid)
                return

    def _begin(self, p):
        p.state = "dispatching"
        p.snapshot = self.alive_regs(p.event)
        self.current = p
        if not p.snapshot:
            self.obs["posts_without_handlers"] += 1

    def _merged(self, p, r):
        base = p.relay_kwargs if p.type == "relay" else p.kwargs
        m = dict(base)
        m.update(r.kwargs)
        return m

    def _must(self, p, r):
        return r.alive and eval_cond(r.cond, self._merged(p, r))

    def _finalize_current(self):
        p = self.current
        if p is None:
            return
        if not p.stopped:
            for r in p.snapshot:
                if r.rid in p.called or r.rid in p.passed:
                    continue
                self.clauses["delivered_once"] += 1
                if self._must(p, r):
                    sig = "post_dropped_when_no_handler_at_post_time" if p.no_handler_at_post else "handler_not_called"
                    self.V("delivered_once", sig, pid=p.pid, event=p.event, rid=r.rid, prio=r.prio)
                elif not r.alive:
                    self.obs["removed_mid_dispatch_skipped"] += 1
        p.state = "done"
        self.current = None
        self._flush_children()

    def _virtual_dispatch(self, p):
        """A post the implementation shows no invocation for: legal only if it had no must-call handler."""
        self._begin(p)
        self._finalize_current()

    def _advance_to(self, pid):
        """Make `pid` the post being dispatched, checking the dispatch order."""
        self._finalize_current()
        guard = 0
        while True:
            nxt = self._next_pending()
            guard += 1
            self.clauses["dispatch_order"] += 1
            if nxt is None or guard > 10000:
                self.V("dispatch_order", "event_dispatched_out_of_order", pid=pid,
                       state=self.posts[pid].state if pid in self.posts else "unknown")
                if pid in self.posts:
                    self._pop_pending(pid)
                    self._begin(self.posts[pid])
                return
            self._pop_pending(nxt)
            if nxt == pid:
                self._begin(self.posts[pid])
                return
            self._virtual_dispatch(self.posts[nxt])

    def drain(self):
        """Everything still pending must be dispatchable without any handler call (used before callbacks / at end)."""
        self._finalize_current()
        while True:
            nxt = self._next_pending()
            if nxt is None:
                return
            self._pop_pending(nxt)
            self._virtual_dispatch(self.posts[nxt])

    # ------------------------------------------------------------------ invocations
    def on_enter(self, rid, pid, kwargs):
        self.obs["invocations"] += 1
        self.clauses["serial"] += 1
        if self.open_inv is not None:
            self.V("serial", "handler_nested_in_other_handler", outer=self.open_inv, inner=(rid, pid))
        if self._in_callback:
            self.V("serial", "handler_called_inside_completion_callback", inner=(rid, pid))
        p = self.posts.get(pid)
        r = self.regs.get(rid)
        if p is None or r is None:
            self.V("delivered_once", "invocation_of_unknown_post_or_registration", rid=rid, pid=pid)
            self.open_inv = (rid, pid)
            return
        if self.current is None or self.current.pid != pid:
            if p.state == "done":
                self.V("serial", "handlers_of_one_event_not_contiguous", pid=pid, rid=rid)
                self._finalize_current()
                self.current = p
                p.state = "dispatching"
            else:
                self._advance_to(pid)
        self.open_inv = (rid, pid)
        p = self.current
        self.clauses["delivered_once"] += 1
        if rid in p.called:
            self.V("delivered_once", "handler_called_twice_for_one_post", pid=pid, rid=rid)
        elif r not in p.snapshot:
            if r.event != p.event:
                self.V("delivered_once", "handler_of_other_event_called", pid=pid, rid=rid)
            else:
                self.V("delivered_once", "handler_registered_after_dispatch_began_was_called", pid=pid, rid=rid)
        if p.stopped:
            self.V("delivered_once", "handler_called_after_boolean_false", pid=pid, rid=rid)
        merged = self._merged(p, r)
        self.clauses["condition"] += 1
        if not eval_cond(r.cond, merged):
            self.V("condition", "handler_called_although_condition_false", pid=pid, rid=rid, cond=r.cond, kwargs=merged)
        if not r.alive:
            self.obs["removed_mid_dispatch_called"] += 1
        self.clauses["priority_order"] += 1
        if rid in p.passed:
            self.V("priority_order", "handler_called_after_lower_priority_handler", pid=pid, rid=rid, prio=r.prio)
        for s in p.snapshot:
            if s.rid == rid or s.rid in p.called or s.rid in p.passed:
                continue
            if s.prio > r.prio:
                p.passed.add(s.rid)
                if self._must(p, s):
                    sig = "handler_not_called"
                    self.V("priority_order", "higher_priority_handler_skipped", pid=pid, called=rid, skipped=s.rid,
                           prio_called=r.prio, prio_skipped=s.prio)
                elif not s.alive:
                    self.obs["removed_mid_dispatch_skipped"] += 1
            elif s.prio == r.prio:
                self.obs["priority_ties"] += 1
        p.called.add(rid)
        self.clauses["kwargs_merge"] += 1
        got = {k: v for k, v in kwargs.items()}
        if got != merged:
            self.V("kwargs_merge", "handler_kwargs_not_posted_overridden_by_registered", pid=pid, rid=rid, got=got,
                   expected=merged)

    def on_exit(self, rid, pid, result=None):
        if self.open_inv != (rid, pid):
            self.V("serial", "handler_exit_does_not_match_entry", open=self.open_inv, exit=(rid, pid))
        self.open_inv = None
        p = self.current
        if p is not None and p.pid == pid:
            if p.type == "relay" and isinstance(result, dict):
                p.relay_kwargs.update(result)
            if p.type == "boolean" and result is False:
                p.stopped = True

    # ------------------------------------------------------------------ callbacks
    def on_callback_enter(self, pid, kwargs):
        self.obs["callbacks"] += 1
        p = self.posts.get(pid)
        self.clauses["callback_after_subtree"] += 1
        if self.open_inv is not None:
            self.V("callback_after_subtree", "callback_ran_inside_a_handler", pid=pid, open=self.open_inv)
        # every post made so far must be dispatched by now
        pending_before = [q for q in self.posts.values() if q.state != "done"]
        self.drain()
        if p is None:
            self.V("callback_once", "callback_for_unknown_post", pid=pid)
        else:
            self.clauses["callback_once"] += 1
            p.cb_count += 1
            if not p.has_cb:
                self.V("callback_once", "callback_for_post_without_callback", pid=pid)
            if p.cb_count > 1:
                self.V("callback_once", "callback_ran_twice", pid=pid)
        self._in_callback = True

    def on_callback_exit(self, pid):
        self._in_callback = False
        self._flush_children()

    def finish(self):
        """End of run (loop idle): everything must be dispatched and every callback must have run once."""
        if self.open_inv is not None:
            self.V("serial", "handler_never_returned", open=self.open_inv)
        self.drain()
        for p in self.posts.values():
            if p.has_cb:
                self.clauses["callback_once"] += 1
                if p.cb_count != 1:
                    self.V("callback_once", "callback_never_ran" if p.cb_count == 0 else "callback_ran_twice",
                           pid=p.pid, event=p.event, count=p.cb_count)
