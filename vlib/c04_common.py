"""Shared generator, runner and oracles for C04 (ball counts) and C05 (ball request progress).

The physical world is vlib/c04_world.py.  This module
  * generates device topologies, physics/fault schedules and game/player scripts,
  * runs one case: real MPF machine on the virtual clock + world,
  * evaluates the oracles of both properties (each check module keeps only its own clauses).
The oracles read MPF's beliefs; the world never does.
"""
import re

H_C04 = 200.0        # rest horizon C04 (virtual s): > 60 s incoming-ball timeout + longest missing timeout + retries
H_C05 = 300.0        # progress horizon C05
SETTLE_CAP = 4000.0  # virtual seconds after which "the world never came to rest" (no verdict)

SPIN_NUDGE_ITERATIONS = 5000    # after that many iterations at one instant the clock is moved to the next timer
SPIN_FORCED_TIME_S = 120.0      # ... for at most that many forced virtual seconds per spin episode
LIVELOCK_ITERATIONS = 100000   # loop iterations at one virtual instant (normal bursts are a few hundred)


class Livelock(BaseException):
    """Raised by the loop hook to abort a case whose virtual clock no longer advances."""


C04_CLAUSES = ("rest_device_count", "rest_playfield_count", "rest_conservation", "range", "no_room")
C05_CLAUSES = ("idle_or_broken", "request_served", "delivery", "retry_or_report", "save_requested", "saved_delivered")

FAULTS = ("weak", "back_early", "back_late", "late", "stray")


# ---------------------------------------------------------------------------------------------------------
# generation
# ---------------------------------------------------------------------------------------------------------
def _dev(name, slots, ejector, target, tags="", initial=0, et=3000, mt=20000, ecd=500, xcd=500, counter="switch",
         **kw):
    d = {"name": name, "counter": counter, "slots": slots, "ejector": ejector, "target": target, "tags": tags,
         "initial": initial, "eject_timeout_ms": et, "missing_timeout_ms": mt,
         "entrance_count_delay_ms": ecd, "exit_count_delay_ms": xcd}
    d.update(kw)
    return d


def gen_topology(rng, level):
    """level 0: trough->pf / trough->plunger->pf only; 1: + locks, drain device, entrance VUK, enable coil."""
    def timing():
        ecd = rng.choice([50, 100, 300, 500, 800])
        xcd = rng.choice([50, 100, 300, 500, 800])
        et = rng.choice([1500, 3000, 6000, 10000])
        et = max(et, ecd + 200, xcd + 200)
        mt = rng.choice([et, et + 2000, 20000, 30000])
        return {"et": et, "mt": max(mt, et), "ecd": ecd, "xcd": xcd}

    slots = rng.randint(2, 6)
    balls = rng.randint(1, slots)
    kind = rng.choice(["direct", "pulse", "pulse", "mech_coil", "mech_coil", "mech", "mech"])
    devices = []
    trough_ej = "pulse"
    gottlieb = level >= 1 and rng.random() < 0.14
    if gottlieb:
        # entrance-counted trough whose last ball rests on the entrance switch: capacity == balls installed
        balls = slots = rng.randint(2, 4)
        kind = rng.choice(["direct", "direct", "pulse", "mech_coil"])
    elif level >= 1 and rng.random() < 0.15:
        trough_ej = "enable"
    has_drain = level >= 1 and rng.random() < 0.25
    trough_tags = "trough, home" if has_drain else "trough, home, drain"
    first_target = "playfield" if kind == "direct" else "bd_plunger"
    t = timing()
    if gottlieb:
        devices.append(_dev("bd_trough", slots, "pulse", first_target, trough_tags, initial=balls, counter="entrance",
                            settle_time_ms=rng.choice([1000, 2000, 2000, 3000]),
                            full_timeout_ms=rng.choice([300, 500, 500, 1000, 3000]), **t))
    else:
        devices.append(_dev("bd_trough", slots, trough_ej, first_target, trough_tags, initial=balls, **t))
    chain3 = level >= 1 and not gottlieb and kind != "direct" and rng.random() < 0.2
    if chain3:
        # trough -> launcher -> staging device (VUK/scoop like, fed only by the launcher) -> playfield
        kind = "pulse"
        t = timing()
        lane_slots = 1
        stager2 = rng.random() < 0.5
        if stager2:
            # the trough confirms its ejects by a switch behind its exit and gives up early on a ball that does not show
            # up; the launcher is a two-ball stager whose (slow) eject to the next device can outlast that
            devices[0]["confirm_switch"] = True
            devices[0]["eject_timeout_ms"] = min(devices[0]["eject_timeout_ms"], 3000)
            devices[0]["missing_timeout_ms"] = devices[0]["eject_timeout_ms"]
            t["et"] = max(t["et"], 6000)
            t["mt"] = max(t["mt"], t["et"])
        devices.append(_dev("bd_plunger", 2 if stager2 else 1, "pulse", "bd_stage", "", **t))
        t = timing()
        devices.append(_dev("bd_stage", rng.randint(1, 2), "pulse", "playfield", "", **t))
    elif kind != "direct":
        t = timing()
        # a coil launcher lane may hold two balls (it can then be fed while it is still ejecting to the playfield)
        lane_slots = 2 if kind == "pulse" and rng.random() < 0.45 else 1
        devices.append(_dev("bd_plunger", lane_slots, kind, "playfield", "", **t))
    if has_drain:
        t = timing()
        devices.append(_dev("bd_drain", 1, "pulse", "bd_trough", "drain", **t))
    logic = {}
    if rng.random() < 0.7:
        logic["ball_save"] = {"active_time_s": rng.choice([2, 5, 15, 40]),
                              "balls_to_save": rng.choice([1, 1, 2, 3, -1, -1]),
                              "auto_launch": rng.random() < 0.7,
                              "eject_delay_ms": rng.choice([0, 0, 0, 1000, 3000, 8000])}
    lock = None
    if level >= 1 and rng.random() < 0.6 and balls >= 2:
        t = timing()
        if rng.random() < 0.3:
            lanes = rng.choice([1, 2, 2])
            lock = _dev("bd_lock", rng.randint(1, 2) if lanes == 1 else rng.randint(2, 3), "pulse", "playfield", "",
                        counter="entrance", settle_time_ms=rng.choice([200, 500, 2000]), lanes=lanes,
                        ignore_window_ms=rng.choice([0, 500, 1000, 3000]) if lanes == 2 else rng.choice([0, 0, 500]),
                        **t)
        elif rng.random() < 0.2:
            # hold-coil lock: balls are held while the coil is enabled, one is released per disable
            lock = _dev("bd_lock", rng.randint(1, 2), "hold", "playfield", "", release_time_ms=rng.choice([300, 1000]),
                        **t)
        else:
            lock = _dev("bd_lock", rng.randint(1, 3), "pulse", "playfield", "", **t)
        devices.append(lock)
    vuk = None
    if level >= 1 and kind != "direct" and not chain3 and rng.random() < (0.6 if lane_slots == 2 else 0.3):
        # a second source feeding the plunger lane (playfield VUK): overlapping ejects towards a 1-ball device
        t = timing()
        vuk = _dev("bd_vuk", 1, "pulse", "bd_plunger", "", **t)
        devices.append(vuk)
        if lane_slots == 2:
            # two sources, two slots: a counting window in which both expected balls can settle together
            pl = next(d for d in devices if d["name"] == "bd_plunger")
            pl["entrance_count_delay_ms"] = max(pl["entrance_count_delay_ms"], 500)
    if balls >= 2 and rng.random() < 0.7:
        mb = {"ball_count": rng.randint(2, min(3, balls)), "shoot_again_s": rng.choice([0, 0, 5, 20])}
        if lock and rng.random() < 0.5:
            mb["ball_locks"] = "bd_lock"
        logic["multiball"] = mb
    mblock = False
    if lock and lock["counter"] == "switch" and lock["ejector"] == "pulse" and not gottlieb and rng.random() < 0.4:
        # the designed companion of ball_locks: a multiball_lock (mode device) keeps balls in the lock; two multiballs
        # release from the same lock device
        mblock = True
        lock["slots"] = max(2, lock["slots"])
        # enough balls that the trough can still serve when two are locked and replaced
        balls = rng.randint(5, 6)
        devices[0]["slots"] = max(devices[0]["slots"], balls)
        devices[0]["initial"] = balls
        logic["multiball_lock"] = {"device": "bd_lock", "balls_to_lock": 2}
        logic["multiball"] = {"ball_count": rng.randint(2, 3), "shoot_again_s": rng.choice([0, 0, 5]),
                              "ball_locks": "bd_lock"}
        logic["multiball2"] = {"ball_count": rng.randint(1, 2), "ball_locks": "bd_lock"}
    elif lock and rng.random() < 0.7:
        logic["ball_hold"] = {"device": "bd_lock", "balls_to_hold": rng.randint(1, lock["slots"])}
    topo = {"balls": balls, "source": "bd_trough" if kind == "direct" else ("bd_stage" if chain3 else "bd_plunger"),
            "balls_per_game": rng.randint(1, 3), "devices": devices, "logic": logic,
            "kind": ("gt_" if gottlieb else "") + ("chain3_" if chain3 else "") + kind + ("2" if kind == "pulse" and lane_slots == 2 else "") +
            ("+drain" if has_drain else "") + ("+lock" + (lock["counter"][0] if lock["ejector"] != "hold" else "h") + ("2" if lock.get("lanes", 1) > 1 else "")
             if lock else "") +
            ("+en" if trough_ej == "enable" else "") + ("+vuk" if vuk else "") + ("+mbl" if mblock else "")}
    return topo


DTS = [0.0, 0.03, 0.2, 0.6, 1.5, 4.0, 9.0, 25.0]


def gen_ops(rng, topo, n_ops, rests):
    names = [d["name"] for d in topo["devices"]]
    has_lock = "bd_lock" in names
    logic = topo.get("logic", {})
    trough = topo["devices"][0]
    gottlieb = bool(trough.get("full_timeout_ms"))
    slow_lane = any(d["name"] == "bd_plunger" and d["ejector"] in ("mech", "mech_coil") for d in topo["devices"])

    def gt_fill():
        """Two balls out, then two drains spaced around the settle delay of the entrance counter (the second one
        fills the trough and rests on the entrance switch) and a request right after it."""
        w = 45.0 if slow_lane else 12.0
        settle = trough.get("settle_time_ms", 2000) / 1000.0
        tr = rng.choice([0.2, 0.5])
        full = trough.get("full_timeout_ms", 500) / 1000.0
        after = rng.choice([0.05, 0.15, 0.3])       # the request follows the filling ball's arrival by this much
        lo, hi = max(0.1, settle - full + 0.05), settle - after - 0.05
        if rng.random() < 0.7 and hi > lo:
            gap = round(rng.uniform(lo, hi), 2)     # previous settle timer expires while the filling ball still waits
        else:
            gap = round(settle * rng.uniform(0.3, 1.3), 2)
        return [["ev", "ev_add_ball", 0.5], ["ev", "ev_add_ball", w], ["wait", w],
                ["drain", rng.choice([0.2, 4.0]), tr], ["drain", gap, tr],
                ["ev", "ev_add_ball", round(tr + after, 2)], ["wait", 9.0]]

    pulse_devs = [d["name"] for d in topo["devices"] if d["ejector"] == "pulse" and d["counter"] == "switch" and
                  d["name"] in ("bd_trough", "bd_lock")]

    def coil_test():
        """Coil test / service menu: a device's eject coil is pulsed 1-3 times although MPF did not ask for it; the
        balls that were knocked out drain back later."""
        dev = rng.choice(pulse_devs)
        gaps = [rng.choice([0.1, 0.3, 1.0, 3.0, 6.0]) for _ in range(rng.randint(0, 2))]
        seq = [["pulse", dev, rng.choice([0.5, 4.0])] + gaps, ["wait", rng.choice([9.0, 25.0])]]
        for _ in range(len(gaps) + 1):
            seq.append(["drain", rng.choice([0.6, 4.0, 9.0])])
        return seq

    def chain_lost():
        """Three-device chain: a ball requested for the staging device gets lost between trough and launcher (it ends on
        the playfield and drains back later); afterwards a further ball is requested through the same launcher."""
        return [["fault", "bd_trough", "stray"], ["ev", "ev_req_stage", 0.5], ["wait", 60.0], ["drain", 1.0],
                ["wait", 25.0], ["ev", rng.choice(["ev_add_ball", "ev_req_stage", "ev_add_ball"]), 0.5],
                ["wait", 45.0], ["rest"]]

    plunger_dev = next((d for d in topo["devices"] if d["name"] == "bd_plunger"), None)

    def skip_request():
        """Mechanical plunger: a ball requested to stay in the lane goes straight on to the playfield (stray); while the
        plunger still waits whether that ball skipped it, a ball is requested for the playfield."""
        et_src = trough["eject_timeout_ms"] / 1000.0
        et_pl = plunger_dev["eject_timeout_ms"] / 1000.0
        return [["fault", "bd_trough", "stray"], ["ev", "ev_req_plunger", 0.5],
                ["ev", "ev_add_ball", round(et_src + rng.uniform(0.2, 0.9 * et_pl), 2)], ["wait", 60.0], ["rest"],
                ["ev", "ev_req_plunger", 0.5], ["wait", 45.0]]

    vuk_dev = next((d for d in topo["devices"] if d["name"] == "bd_vuk"), None)
    can_twin_feed = vuk_dev is not None and plunger_dev is not None and plunger_dev["slots"] == 2

    def twin_feed():
        """Two-ball launcher fed by trough and playfield VUK: both send a ball at the same moment, so both expected balls
        settle in the (empty, waiting) launcher within one counting window."""
        tr = rng.choice([0.2, 0.5])
        return [["ev", "ev_add_ball", 0.5], ["wait", 12.0], ["vuk", 0.5, tr],
                ["ev", "ev_add_ball", round(tr + vuk_dev["entrance_count_delay_ms"] / 1000.0 +
                                            rng.choice([0.0, 0.0, 0.02, 0.1]), 3)],
                ["wait", 60.0], ["rest"]]

    can_skip_request = slow_lane and plunger_dev is not None and plunger_dev["target"] == "playfield"
    ops = [["wait", rng.choice([1.0, 3.0])]]
    if can_twin_feed and rng.random() < 0.85:
        ops += twin_feed()
    elif can_skip_request and rng.random() < 0.3:
        ops += skip_request()
    elif any(d["name"] == "bd_stage" for d in topo["devices"]) and rng.random() < 0.4:
        ops += chain_lost()
    elif gottlieb and rng.random() < 0.6:
        ops += gt_fill()
    elif pulse_devs and rng.random() < 0.12:
        ops += coil_test() + [["rest"]]
    if has_lock and rng.random() < 0.3:
        # an unservable request parked at the lock from the beginning: every later balls_available notification has to
        # get past it to the devices behind it
        ops.append(["ev", "ev_req_lock", 0.2])
    ops.append(["start"])
    stager2 = plunger_dev is not None and plunger_dev["target"] == "bd_stage" and plunger_dev["slots"] == 2
    if stager2 and rng.random() < 0.9:
        # two-ball stager: the next ball is sent while the stager is still busy lifting the first one to the next device
        ops.append(["ev", rng.choice(["ev_add_ball", "ev_req_stage"]), rng.choice([2.5, 3.0, 3.5, 4.0, 5.0])])
        if rng.random() < 0.5:
            ops.append(["ev", rng.choice(["ev_add_ball", "ev_req_stage"]), rng.choice([0.3, 1.0, 2.0])])
        ops.append(["wait", 60.0])
    elif any(d["name"] == "bd_stage" for d in topo["devices"]) and rng.random() < 0.7:
        # a second ball is requested while the ball of the game start is on its way through the chain
        ops.append(["ev", rng.choice(["ev_add_ball", "ev_req_stage"]),
                    rng.choice([0.5, 1.0, 1.5, 2.0, 3.0, 4.0, 6.0, 8.0])])
        ops.append(["wait", 45.0])
    if "multiball_lock" in logic:
        kinds_extra = ["ev:ev_mb2_start"]
        if rng.random() < 0.7:
            # fresh game: a second ball, both get locked, then both multiballs are started back to back
            w = 45.0 if slow_lane else 12.0
            first, second = rng.choice([("ev_mb_start", "ev_mb2_start"), ("ev_mb2_start", "ev_mb_start")])
            ops += [["wait", w], ["ev", "ev_add_ball", 0.5], ["wait", w], ["lock", rng.choice([0.2, 1.5])],
                    ["lock", rng.choice([1.5, 4.0, 9.0])], ["ev", first, rng.choice([4.0, 9.0])],
                    ["ev", second, rng.choice([0.0, 0.0, 0.03, 0.5, 2.0])], ["wait", 25.0], ["rest"]]
    else:
        kinds_extra = []
    kinds = ["drain"] * 6 + ["pf"] * 2 + ["wait"] * 2 + ["start"] + ["ev:ev_add_ball"] + kinds_extra
    if has_lock:
        kinds += ["lock"] * 4 + ["ev:ev_req_lock"]
    if "bd_vuk" in names:
        kinds += ["vuk"] * 3
    if "bd_plunger" in names and "bd_stage" in names:
        kinds += ["ev:ev_req_plunger"]       # (the launcher of a three-device chain is not reachable from the playfield)
    elif "bd_plunger" in names:
        kinds += ["ev:ev_req_plunger", "lane"]     # lane: a loose ball rolls back into the plunger lane
    if "multiball" in logic:
        kinds += ["ev:ev_mb_start", "ev:ev_mb_add", "ev:ev_mb_add", "ev:ev_mb_stop"]
    if "ball_save" in logic:
        kinds += ["ev:ev_save_enable"]
    if "ball_hold" in logic:
        kinds += ["ev:ev_release_one", "ev:ev_release_all"]
    bursts = ["double_request"]     # a second (third) manual request while the first eject is still running
    if gottlieb:
        bursts.append("gt_fill")
    lock_dev = next((d for d in topo["devices"] if d["name"] == "bd_lock"), None)
    if lock_dev and lock_dev.get("lanes", 1) > 1:
        bursts += ["twin_lock", "twin_lock"]    # two balls enter the lock (by whatever lanes) close together
    if can_skip_request:
        bursts += ["skip_request"]
    if can_twin_feed:
        bursts += ["twin_feed", "twin_feed"]
    if "bd_stage" in names:
        bursts += ["chain_lost"]
        bursts += ["chain_double", "chain_double"]   # a further request while the launcher's ball is in flight
        kinds += ["ev:ev_req_stage"]
    if "multiball_lock" in logic:
        bursts += ["lock_mb", "lock_mb"]    # lock two balls, then start both multiballs back to back
    if "multiball" in logic and "ball_save" in logic:
        bursts.append("mb_save")        # several balls in play, ball save active, drains close together
    if "bd_plunger" in names and "bd_stage" not in names:
        bursts.append("held_lane")      # a request whose eject attempt may be held + a ball rolling into the lane
    rest_at = set(rng.sample(range(2, n_ops + 2), min(rests, n_ops))) if n_ops else set()
    pure_mech = any(d["name"] == "bd_plunger" and d["ejector"] == "mech" for d in topo["devices"])
    for i in range(n_ops):
        if bursts and rng.random() < (0.2 if pure_mech else 0.12):
            b = rng.choice(bursts + (["held_lane"] if pure_mech else []))
            if b == "mb_save":
                if rng.random() < 0.5:
                    ops.append(["start"])
                    ops.append(["wait", 45.0 if slow_lane else 12.0])
                ops.append(["ev", "ev_mb_start", rng.choice([0.2, 1.5, 4.0])])
                ops.append(["wait", rng.choice([9.0, 25.0, 45.0])])
                ops.append(["ev", "ev_save_enable", 0.2])
                for _ in range(rng.randint(2, 3)):
                    ops.append(["drain", rng.choice([0.03, 0.2, 0.6, 1.5, 4.0])])
            elif b == "double_request":
                ops.append(["ev", "ev_add_ball", rng.choice(DTS)])
                for _ in range(rng.randint(1, 2)):
                    ops.append(["ev", "ev_add_ball", rng.choice([0.3, 1.5, 3.0, 5.0])])
            elif b == "twin_lock":
                tr = rng.choice([0.2, 0.5])
                ops.append(["ev", "ev_add_ball", rng.choice([0.2, 4.0])])
                ops.append(["wait", 45.0 if slow_lane else 12.0])
                ops.append(["lock", rng.choice([0.2, 1.5]), tr])
                ops.append(["lock", rng.choice([0.0, 0.05, 0.15, 0.3, 0.6, 1.5]), tr])
                ops.append(["wait", 12.0])
            elif b == "chain_lost":
                ops += chain_lost()
            elif b == "skip_request":
                ops += skip_request()
            elif b == "twin_feed":
                ops += twin_feed()
            elif b == "chain_double":
                ops.append(["ev", rng.choice(["ev_add_ball", "ev_req_stage"]), rng.choice(DTS)])
                for _ in range(rng.randint(1, 2)):
                    ops.append(["ev", rng.choice(["ev_add_ball", "ev_req_stage", "ev_req_plunger"]),
                                rng.choice([0.3, 0.6, 1.0, 1.5, 2.0, 3.0, 4.0, 6.0])])
                ops.append(["wait", 25.0])
            elif b == "gt_fill":
                ops += gt_fill()
            elif b == "lock_mb":
                ops.append(["start"])            # (a game may be over by now; in a running game this is ignored/adds a player)
                ops.append(["wait", 45.0 if slow_lane else 12.0])
                ops.append(["ev", "ev_add_ball", rng.choice([0.2, 4.0])])
                ops.append(["wait", 45.0 if slow_lane else 12.0])
                ops.append(["lock", rng.choice([0.2, 1.5])])
                ops.append(["lock", rng.choice([1.5, 4.0, 9.0])])
                first, second = rng.choice([("ev_mb_start", "ev_mb2_start"), ("ev_mb2_start", "ev_mb_start")])
                ops.append(["ev", first, rng.choice([4.0, 9.0])])
                ops.append(["ev", second, rng.choice([0.0, 0.0, 0.03, 0.5, 2.0])])
                ops.append(["wait", 25.0])
                ops.append(["rest"])
            else:
                ops.append(["ev", rng.choice(["ev_req_plunger", "ev_mb_add", "ev_mb_start"]), rng.choice(DTS)])
                ops.append(["lane", rng.choice([0.2, 0.6, 1.5])])
                ops.append(["wait", rng.choice([1.5, 4.0, 9.0])])
            if i + 2 in rest_at:
                ops.append(["rest"])
            continue
        k = rng.choice(kinds)
        dt = rng.choice(DTS)
        if k in ("drain", "lock", "vuk", "lane", "pf", "wait"):
            ops.append([k, dt])
        elif k == "start":
            ops.append(["wait", dt])
            ops.append(["start"])
        else:
            ops.append(["ev", k[3:], dt])
            if has_lock and k[3:] in ("ev_release_one", "ev_release_all", "ev_mb_start") and rng.random() < 0.5:
                # a shot into the lock while it is (probably) ejecting: entrance during eject
                ops.append(["lock", rng.choice([0.03, 0.2, 0.6, 1.5])])
        if i + 2 in rest_at:
            ops.append(["rest"])
            if pulse_devs and rng.random() < 0.15:
                ops += coil_test()
    return ops


def gen_phys(rng, topo, fault_level):
    phys = {"seed": rng.randrange(1 << 30), "transit": [0.05, rng.choice([0.3, 0.8, 1.4])],
            "pf_hit_prob": rng.choice([0.0, 0.5, 0.9, 1.0]),
            "plunge_delay": rng.choice([[0.3, 2.0], [0.5, 6.0], [2.0, 40.0]]), "faults": {}}
    twin = any(d["name"] == "bd_vuk" for d in topo["devices"]) and \
        any(d["name"] == "bd_plunger" and d["slots"] == 2 for d in topo["devices"])
    benign_twin = twin and rng.random() < 0.6      # two-source launcher: mostly fault free (see twin_feed burst)
    # handlers which hold balldevice_<dev>_ball_eject_attempt (a queue event) for a while, like diverters/mode code do
    phys["holds"] = {}
    by_name = {d["name"]: d for d in topo["devices"]}
    for d in topo["devices"]:
        if d["target"] == "playfield":
            continue
        into_mech = by_name[d["target"]]["ejector"] == "mech"       # a ball can rest there until the player acts
        if rng.random() < (0.7 if into_mech else 0.3):
            durations = [0, 2.0, 5.0, 10.0, 10.0] if into_mech else [0, 0, 0.5, 2.0, 5.0, 10.0]
            phys["holds"][d["name"]] = [rng.choice(durations) for _ in range(rng.randint(3, 10))]
    if any(d["ejector"] == "mech" for d in topo["devices"]) and rng.random() < 0.5:
        phys["plunge_delay"] = [5.0, 40.0]
    for d in topo["devices"]:
        if d["name"] == "bd_plunger" and d["target"] == "bd_stage" and rng.random() < (0.8 if fault_level else 0.5):
            # three-device chain: the launcher's kicks towards the staging device are weak (ball falls back) or slow
            first = ["late", "late", "back_late"] if d["slots"] == 2 else ["back_late", "back_early", "back_late", "late"]
            phys["faults"][d["name"]] = [rng.choice(first)] + \
                [rng.choice(["back_early", "back_late", "late", "ok", "ok"]) for _ in range(rng.randint(1, 5))]
    if fault_level > 0:
        for d in topo["devices"]:
            if d["name"] == "bd_plunger" and d["target"] == "bd_stage":
                continue        # handled below
            if d["name"] == "bd_plunger" and d["slots"] == 2 and rng.random() < 0.6:
                # the launcher's first kicks are too weak / the ball falls back
                phys["faults"][d["name"]] = [rng.choice(["weak", "back_early"]) for _ in range(rng.randint(1, 2))] + \
                    [rng.choice(["ok", "ok", "weak", "back_early"]) for _ in range(rng.randint(1, 4))]
                continue
            if rng.random() < 0.6:
                n = rng.randint(1, 6)
                seq = []
                for _ in range(n):
                    if rng.random() < (0.35 if fault_level == 1 else 0.6):
                        seq.append(rng.choice(FAULTS))
                    else:
                        seq.append("ok")
                phys["faults"][d["name"]] = seq
    if benign_twin:
        phys["faults"] = {}
        phys["holds"] = {}
    return phys


def shape_of(case):
    topo = case["topo"]
    ops = "".join({"start": "S", "wait": "w", "drain": "D", "lock": "L", "vuk": "V", "lane": "l", "pulse": "P", "fault": "f", "pf": "p", "ev": "e", "rest": "R"}.get(o[0], "?") for o in case["ops"])
    faults = ",".join("%s:%s" % (k[3:5], "".join(x[0] if x != "back_late" else "B" for x in v))
                      for k, v in sorted(case["phys"].get("faults", {}).items()))
    holds = "h" + "".join(k[3] for k in sorted(case["phys"].get("holds", {})))
    bs = topo.get("logic", {}).get("ball_save")
    save = "s%s%s%s" % (bs["balls_to_save"], "d" if bs.get("eject_delay_ms") else "",
                        "E" if bs.get("delayed_eject") else "") if bs else ""
    return "%s|b%d|%s|%s|%s|%s" % (topo.get("kind", "?"), topo["balls"], ops[:40], faults[:30], holds, save)


# ---------------------------------------------------------------------------------------------------------
# monitors on the MPF side (read-only)
# ---------------------------------------------------------------------------------------------------------
class Monitors:
    """Counts requests/events at MPF's ball-request boundary and runs the per-iteration range oracle."""

    _patched = False
    current = None

    def __init__(self, vm, world, topo):
        self.vm, self.world, self.topo = vm, world, topo
        self.m = vm.machine
        self.devices = {n: d for n, d in self.m.ball_devices.items() if not d.is_playfield()}
        self.capacity = {d["name"]: d["slots"] for d in topo["devices"]}
        self.viol = []
        self.seen = set()
        self.clauses = {k: 0 for k in C04_CLAUSES + C05_CLAUSES}
        self.obs = {"iterations": 0, "rests": 0, "rests_all_idle": 0, "rests_not_settled": 0, "requests": 0,
                    "events_success": 0, "events_failed": 0, "events_broken": 0, "events_missing": 0,
                    "pf_negative_transients": 0}
        self.requests = {}          # final target name -> number of requests issued
        self.missing_events = 0
        self.failed_final = 0
        self.broken = set()
        self.dev_events = {n: [] for n in self.devices}    # (t, kind) for retry_or_report
        self.coil_times = {n: [] for n in self.devices}
        self._depth = 0
        self._replacement = 0
        self._fallback_seen = 0
        self._last_t = None
        self._same_t = 0
        self._forced_time = 0.0
        self.livelocked = False
        self.mech_idle_ejects = {}
        self.idle_skips = {}
        self.saves_announced = 0        # balls announced by ball_save_*_saving_ball
        self.save_requests = 0          # balls the ball save then requested for the playfield (Playfield.add_ball)
        self.save_log = []
        self.save_deliveries_before = 0
        Monitors.current = self
        self._patch_classes()
        self._install_loop_hook()
        self._install_event_handlers()
        world.listeners.append(self._world_event)

    # -- class-level wrappers at the request boundary --------------------------------------------------------
    @classmethod
    def _patch_classes(cls):
        if cls._patched:
            return
        from mpf.devices.ball_device.ball_device import BallDevice
        from mpf.devices.playfield import Playfield
        o_add_ball = Playfield.add_ball
        o_eject = BallDevice.eject
        o_request = BallDevice.request_ball
        o_pce = BallDevice.setup_player_controlled_eject
        o_lost_e = BallDevice.lost_ejected_ball
        o_lost_i = BallDevice.lost_incoming_ball

        from mpf.devices.ball_save import BallSave
        import sys as _sys

        def _called_by_ball_save():
            f = _sys._getframe(2)
            for _ in range(4):
                if f is None:
                    return False
                if isinstance(f.f_locals.get("self"), BallSave):
                    return True
                f = f.f_back
            return False

        def outermost(fn, target_of):
            """Count a request only at the outermost public entry point (add_ball -> eject -> ... nest)."""
            def wrapper(self, *a, **kw):
                mon = cls.current
                if mon is not None and fn is o_add_ball:
                    try:
                        _t, n = target_of(self, *a, **kw)
                        if n and n > 0 and _called_by_ball_save():
                            mon.save_requests += n
                            mon.save_log.append([round(mon.vm.now(), 3), "request", n])
                    except Exception:   # noqa
                        pass
                if mon is not None and mon._depth == 0 and mon._replacement == 0:
                    try:
                        tname, n = target_of(self, *a, **kw)
                        if n and n > 0:
                            mon._request(tname, n)
                    except Exception:   # noqa  (never let the observer change behaviour)
                        pass
                if mon is not None:
                    mon._depth += 1
                try:
                    return fn(self, *a, **kw)
                finally:
                    if mon is not None:
                        mon._depth -= 1
            return wrapper

        def t_add_ball(self, balls=1, source_device=None, player_controlled=False):
            return self.name, balls

        def t_eject(self, balls=1, target=None):
            return (target or self._target_on_unexpected_ball).name, balls

        def t_request(self, balls=1):
            return self.name, balls

        def t_pce(self, target=None):
            return target.name, 1

        async def lost_e(self, target):
            mon = cls.current
            if mon is not None:
                mon._replacement += 1
            try:
                return await o_lost_e(self, target)
            finally:
                if mon is not None:
                    mon._replacement -= 1

        async def lost_i(self, source):
            mon = cls.current
            if mon is not None:
                mon._replacement += 1
            try:
                return await o_lost_i(self, source)
            finally:
                if mon is not None:
                    mon._replacement -= 1

        from mpf.devices.ball_device.outgoing_balls_handler import OutgoingBallsHandler
        o_mech_idle = BallDevice.handle_mechanical_eject_during_idle
        o_skip = OutgoingBallsHandler._skipping_ball

        async def mech_idle(self):
            mon = cls.current
            if mon is not None:
                mon.mech_idle_ejects[self.name] = mon.mech_idle_ejects.get(self.name, 0) + 1
            return await o_mech_idle(self)

        async def skipping(self, target, add_ball_to_target):
            mon = cls.current
            if mon is not None and add_ball_to_target:
                mon.idle_skips[self.ball_device.name] = mon.idle_skips.get(self.ball_device.name, 0) + 1
            return await o_skip(self, target, add_ball_to_target)

        BallDevice.handle_mechanical_eject_during_idle = mech_idle
        OutgoingBallsHandler._skipping_ball = skipping
        Playfield.add_ball = outermost(o_add_ball, t_add_ball)
        BallDevice.eject = outermost(o_eject, t_eject)
        BallDevice.request_ball = outermost(o_request, t_request)
        BallDevice.setup_player_controlled_eject = outermost(o_pce, t_pce)
        BallDevice.lost_ejected_ball = lost_e
        BallDevice.lost_incoming_ball = lost_i
        cls._patched = True

    def _request(self, target_name, n=1):
        self.requests[target_name] = self.requests.get(target_name, 0) + n
        self.obs["requests"] += n

    # -- events ----------------------------------------------------------------------------------------------
    def _install_event_handlers(self):
        ev = self.m.events
        if "ball_save" in self.topo.get("logic", {}):
            ev.add_handler("ball_save_bs_saving_ball", self._on_saving_ball, priority=-10)
        for name in self.devices:
            ev.add_handler("balldevice_%s_ball_eject_success" % name, self._on_success, dev=name, priority=-10)
            ev.add_handler("balldevice_%s_ball_eject_failed" % name, self._on_failed, dev=name, priority=-10)
            ev.add_handler("balldevice_%s_broken" % name, self._on_broken, dev=name, priority=-10)
            ev.add_handler("balldevice_%s_ball_missing" % name, self._on_missing, dev=name, priority=-10)

    def _on_saving_ball(self, balls=0, **kwargs):
        if balls and balls > 0:
            if not self.saves_announced:
                # physical deliveries to the playfield before the first announced save (saved_delivered clause)
                self.save_deliveries_before = self.world.deliveries.get("playfield", 0)
            self.saves_announced += balls
            self.save_log.append([round(self.vm.now(), 3), "saving_ball", balls])

    def _on_success(self, dev, **kwargs):
        self.obs["events_success"] += 1
        self.dev_events[dev].append((self.vm.now(), "success"))

    def _on_failed(self, dev, retry=True, **kwargs):
        self.obs["events_failed"] += 1
        self.dev_events[dev].append((self.vm.now(), "failed_retry" if retry else "failed_final"))
        if not retry:
            self.failed_final += 1

    def _on_broken(self, dev, **kwargs):
        self.obs["events_broken"] += 1
        self.broken.add(dev)
        self.dev_events[dev].append((self.vm.now(), "broken"))

    def _on_missing(self, dev, **kwargs):
        self.obs["events_missing"] += 1
        self.missing_events += 1
        self.dev_events[dev].append((self.vm.now(), "missing"))

    def _world_event(self, kind, **info):
        if kind == "coil":
            self.coil_times[info["dev"]].append(self.vm.now())

    # -- violations --------------------------------------------------------------------------------------------
    def violation(self, prop, clause, sig, detail):
        key = (sig,)
        if key in self.seen:
            return
        self.seen.add(key)
        detail = dict(detail)
        detail["t"] = round(self.vm.now(), 3)
        self.viol.append({"clause": clause, "sig": "%s:%s" % (prop, sig), "detail": detail})

    # -- range oracle, every loop iteration --------------------------------------------------------------------
    def _install_loop_hook(self):
        loop = self.vm.loop
        orig = loop._run_once
        mon = self

        def run_once():
            orig()
            mon.check_range()
        loop._run_once = run_once

    def check_range(self):
        self.obs["iterations"] += 1
        now = self.vm.loop.time()
        if now == self._last_t:
            self._same_t += 1
            if self._same_t % SPIN_NUDGE_ITERATIONS == 0 and self._forced_time < SPIN_FORCED_TIME_S:
                # The loop spins without the virtual clock advancing.  In real time the clock would advance while it
                # spins (e.g. a busy wait for a timed switch handler), so move the clock to the next scheduled timer.
                # Only a spin that survives SPIN_FORCED_TIME_S forced seconds is a livelock.
                sched = getattr(self.vm.loop, "_scheduled", None)
                if sched:
                    when = min(h._when for h in sched if not h._cancelled) if any(not h._cancelled for h in sched) \
                        else None
                    if when is not None and when > now:
                        self._forced_time += when - now
                        self.obs["spin_clock_nudges"] = self.obs.get("spin_clock_nudges", 0) + 1
                        self.vm.loop.set_time(when)
                        self._same_t = 0
                        self._last_t = when
                        return
            if self._same_t >= LIVELOCK_ITERATIONS:
                # deterministic, in virtual time: the loop keeps running callbacks but the clock never advances
                self.violation("C05", "idle_or_broken", "zero_time_livelock",
                               {"iterations_without_time_advancing": self._same_t,
                                "states": {n: d._state for n, d in self.devices.items()},
                                "physical": self.world.physical_counts(),
                                "world_trace": list(self.world.trace)[-30:]})
                self.livelocked = True
                raise Livelock()
        else:
            if self._same_t < SPIN_NUDGE_ITERATIONS:
                self._forced_time = 0.0         # the clock advanced by itself: not spinning
            self._last_t = now
            self._same_t = 0
        busy = 0
        for name, d in self.devices.items():
            b = d.balls
            self.clauses["range"] += 1
            if d._state != "idle" or not d.outgoing_balls_handler.is_idle:
                busy += 1       # an eject is in progress (a mechanical eject during idle keeps the state "idle")
            if b < 0:
                self.violation("C04", "range", "device_count_negative_in_state_" + str(d._state),
                               {"device": name, "balls": b, "state": d._state, "counted": d.counted_balls})
            elif b > self.capacity[name]:
                self.violation("C04", "range", "device_count_above_capacity",
                               {"device": name, "balls": b, "capacity": self.capacity[name], "state": d._state})
        pf = self.m.playfield.balls
        self.clauses["range"] += 1
        if pf < 0:
            self.obs["pf_negative_transients"] += 1
            # every non-idle device may have one ball in flight that a capture can pre-empt (see ASSUMPTIONS)
            # ... and so may a ball the player plunged which MPF cannot have noticed yet (exit count delay)
            now = self.vm.loop.time()
            unnoticed = sum(1 for (t, dev, oc, by) in self.world.launch_log[-8:]
                            if by == "player" and oc != "weak" and now - t <= self.world.devs[dev].exit_delay + 1.2)
            # ... and so may balls kicked out by a coil test: MPF credits them to the playfield only after
            # exit_count_delay + idle_missing_ball_timeout (5 s), restarted by every further ball that leaves
            last = {}
            for (t, dev) in self.world.service_log[-12:]:
                last[dev] = max(last.get(dev, 0), t)
            unnoticed += sum(1 for (t, dev) in self.world.service_log[-12:]
                             if now - last[dev] <= self.world.devs[dev].exit_delay + 6.5)
            # ... and a ball that passed its source's confirm switch (source idle again) but is still expected at a
            # target may have strayed onto the playfield and be captured before the target gives it up
            unnoticed += sum(d.incoming_balls_handler.get_num_incoming_balls() for d in self.devices.values())
            if pf < -(busy + unnoticed):
                self.violation("C04", "range", "playfield_count_negative",
                               {"playfield_balls": pf, "devices_not_idle": busy, "unnoticed_plunges": unnoticed,
                                "states": {n: d._state for n, d in self.devices.items()}})
        nr = self.world.room_checks
        if nr != self.clauses["no_room"]:
            self.clauses["no_room"] = nr
        while self._fallback_seen < len(self.world.fallback_fire):
            f = dict(self.world.fallback_fire[self._fallback_seen])
            self._fallback_seen += 1
            tdev = self.devices[f["target"]]
            tstate = tdev._state
            # the slot of a ball that left but is not confirmed yet must stay blocked: it may come back (and does here).
            # (not if MPF has just ended that eject, e.g. because another arriving ball was taken for the returning one)
            if tstate in ("ball_left", "failed_confirm") and tdev.ball_count_handler._eject_started.is_set():
                f["target_state"] = tstate
                self.violation("C04", "no_room", "fired_towards_device_whose_unconfirmed_ball_falls_back", f)
        if self.world.full_fire:
            f = self.world.full_fire[0]
            sig = "two_ejects_in_flight_towards_last_free_slot" if f["inbound_by_mpf"] else \
                "fired_towards_physically_full_device"
            self.violation("C04", "no_room", sig, f)

    # -- snapshots ---------------------------------------------------------------------------------------------
    def beliefs(self):
        res = {n: {"balls": d.balls, "available": d.available_balls, "state": d._state,
                   "requests": len(d._ball_requests), "incoming": d.incoming_balls_handler.get_num_incoming_balls()}
               for n, d in self.devices.items()}
        pf = self.m.playfield
        res["playfield"] = {"balls": pf.balls, "available": pf.available_balls,
                            "num_balls_requested": pf.num_balls_requested}
        res["num_balls_known"] = self.m.ball_controller.num_balls_known
        return res


# ---------------------------------------------------------------------------------------------------------
# the runner
# ---------------------------------------------------------------------------------------------------------
def settle(vm, world, horizon, tick=None):
    """Let the world come to rest, then hold it frozen for `horizon` virtual seconds.  Returns True if rested."""
    t0 = vm.now()
    while vm.now() - t0 < SETTLE_CAP:
        vm.advance(5.0)
        if tick is not None:
            tick()
        if world.quiescent() and vm.now() - max(world.last_change, t0) >= horizon:
            return True
    return False


def _crash_sig(exc_text):
    m = re.search(r"(\w+(?:Error|Exception))\((.{0,60})", exc_text)
    if m:
        words = re.sub(r"[^A-Za-z ]", " ", m.group(2)).split()[:5]
        return "mpf_crash_%s_%s" % (m.group(1), "_".join(w.lower() for w in words))
    return "mpf_crash"


def run_world_case(case, horizon):
    from vlib.boot import VMachine, MpfCrash, guard_import
    from vlib import c04_world as W
    guard_import()
    W.install_driver_wrappers()
    Monitors._patch_classes()       # before boot: handlers registered at boot must bind the wrapped methods
    topo, phys = case["topo"], case["phys"]
    cfg = W.build_config(topo)
    trace = []
    with VMachine(config=cfg, modes=W.build_modes(topo), kind="plain") as vm:
        world = W.World(vm, topo, phys)
        mon = Monitors(vm, world, topo)
        crashed = None
        for dev, seq in phys.get("holds", {}).items():
            _install_hold(vm, mon, dev, list(seq))
        try:
            vm.advance(1.0)
            stop = False
            for op in list(case["ops"]) + [["rest"]]:
                if stop:
                    break
                k = op[0]
                if k == "wait":
                    vm.advance(float(op[1]))
                elif k == "start":
                    world.press("s_start")
                    vm.advance(0.2)
                elif k == "drain":
                    vm.advance(float(op[1]))
                    drain_to = "bd_drain" if "bd_drain" in world.devs else "bd_trough"
                    world.move_loose_ball(drain_to, transit=float(op[2]) if len(op) > 2 else None, kind="drains")
                elif k == "lock":
                    vm.advance(float(op[1]))
                    if "bd_lock" in world.devs:
                        world.move_loose_ball("bd_lock", transit=float(op[2]) if len(op) > 2 else None,
                                              kind="lock_shots")
                elif k == "fault":
                    if op[1] in world.devs:
                        world.next_kick(op[1], op[2])
                elif k == "pulse":
                    # ["pulse", device, gaps...]: coil test fires the eject coil 1-3 times
                    vm.advance(float(op[2]))
                    world.service_pulse_coil(op[1])
                    for gap in op[3:]:
                        vm.advance(float(gap))
                        world.service_pulse_coil(op[1])
                elif k == "lane":
                    vm.advance(float(op[1]))
                    if "bd_plunger" in world.devs:
                        world.move_loose_ball("bd_plunger", kind="lane_returns")
                elif k == "vuk":
                    vm.advance(float(op[1]))
                    if "bd_vuk" in world.devs:
                        world.move_loose_ball("bd_vuk", transit=float(op[2]) if len(op) > 2 else None,
                                              kind="lock_shots")
                elif k == "pf":
                    vm.advance(float(op[1]))
                    world.pf_hit()
                elif k == "ev":
                    vm.advance(float(op[2]))
                    if op[1] == "ev_save_enable" and mon.saves_announced > mon.save_requests:
                        # the ball save is armed (again) while a ball it saved is still held back
                        mon.obs["save_enable_while_saved_ball_held_back"] = \
                            mon.obs.get("save_enable_while_saved_ball_held_back", 0) + 1
                    vm.machine.events.post(op[1])
                elif k == "rest":
                    if topo.get("logic", {}).get("ball_save", {}).get("delayed_eject"):
                        # a ball save which holds saved balls back until an event: the event always comes before the
                        # world is frozen (whatever sub-list of the script the shrinker left)
                        vm.machine.events.post("ev_save_eject")
                        mon.obs["delayed_eject_events_before_rest"] = \
                            mon.obs.get("delayed_eject_events_before_rest", 0) + 1
                        seen = [mon.saves_announced]
                        vm.advance(0.5)

                        def tick():
                            # a ball still rolling when the settle began may drain and be saved after the event above:
                            # whenever a further save was announced the event is fired again (a coil command then
                            # restarts the rest horizon)
                            if mon.saves_announced != seen[0]:
                                seen[0] = mon.saves_announced
                                vm.machine.events.post("ev_save_eject")
                                mon.obs["delayed_eject_events_during_settle"] = \
                                    mon.obs.get("delayed_eject_events_during_settle", 0) + 1
                        rested = settle(vm, world, horizon, tick)
                    else:
                        rested = settle(vm, world, horizon)
                    evaluate_rest(mon, world, rested, horizon, trace)
                    if mon.broken:
                        stop = True
        except Livelock:
            pass                    # recorded as C05:zero_time_livelock by the loop hook; the case ends here
        except MpfCrash as e:
            crashed = repr(e)
            if "CaseTimeout" in crashed:
                # wall clock is never a verdict: hand the harness its own timeout exception back
                import sys
                for modname in ("__main__", "vlib.worker"):
                    cls = getattr(sys.modules.get(modname), "CaseTimeout", None)
                    if cls is not None:
                        world.close()
                        Monitors.current = None
                        raise cls()
                raise
            if "Livelock" in crashed:
                crashed = None
        if crashed:
            txt = crashed
            mon.violation("C04", "range", _crash_sig(txt), {"exception": txt[:600], "beliefs": _safe(mon.beliefs),
                                                            "physical": world.physical_counts()})
        Monitors.current = None
        world.close()
        obs = dict(mon.obs)
        obs.update({"w_" + k: v for k, v in world.stats.items()})
        return {"violations": mon.viol, "clauses": mon.clauses, "obs": obs, "trace": trace[-6:],
                "world_trace": list(world.trace)[-60:]}


def _install_hold(vm, mon, dev, seq):
    """Hold the queue event balldevice_<dev>_ball_eject_attempt for the next generated duration (virtual s)."""
    def hold(queue, **kwargs):
        d = seq.pop(0) if seq else 0
        if d > 0:
            mon.obs["eject_attempts_held"] = mon.obs.get("eject_attempts_held", 0) + 1
            queue.wait()
            vm.loop.call_later(d, queue.clear)
    vm.machine.events.add_handler("balldevice_%s_ball_eject_attempt" % dev, hold)


def _safe(fn):
    try:
        return fn()
    except Exception as e:   # noqa
        return repr(e)


def _skip_race_config(topo):
    """A mechanical device whose eject timeout equals the ball_missing_timeout of a device that feeds it."""
    by = {d["name"]: d for d in topo["devices"]}
    for d in topo["devices"]:
        t = by.get(d["target"])
        if t and t["ejector"] in ("mech", "mech_coil") and t["eject_timeout_ms"] == d["missing_timeout_ms"]:
            return True
    return False


def _confirmed_by_coincidence(mon, world, t, dev):
    """MPF posted eject_success for `dev` after the launch at t and some ball did arrive at its target after t."""
    tgt = world.devs[dev].target
    return any(at > t and adst == tgt for at, adst in world.arrival_log) and \
        any(et > t and kind == "success" for et, kind in mon.dev_events[dev])


def evaluate_rest(mon, world, rested, horizon, trace):
    """Both properties' rest-point oracles."""
    mon.obs["rests"] += 1
    bel = mon.beliefs()
    phys = world.physical_counts()
    snap = {"t": round(mon.vm.now(), 1), "beliefs": bel, "physical": phys}
    trace.append(snap)
    if not rested:
        mon.obs["rests_not_settled"] += 1
        return
    states = {n: bel[n]["state"] for n in mon.devices}
    all_idle = all(s == "idle" for s in states.values())

    # ---- C04: equality at rest (only when the ball devices have come to rest) ---------------------------------
    if all_idle:
        mon.obs["rests_all_idle"] += 1
        for n in mon.devices:
            mon.clauses["rest_device_count"] += 1
            if bel[n]["balls"] != phys[n]:
                mon.violation("C04", "rest_device_count", "device_count_differs_at_rest",
                              {"device": n, "mpf_balls": bel[n]["balls"], "physical": phys[n], "snapshot": snap,
                               "world_trace": list(world.trace)[-40:]})
        mismatch = any(bel[n]["balls"] != phys[n] for n in mon.devices)
        mon.clauses["rest_playfield_count"] += 1
        if bel["playfield"]["balls"] != phys["playfield"]:
            mismatch = True
            sig = "playfield_count_differs_at_rest"
            if bel["playfield"]["balls"] > phys["playfield"] and _skip_race_config(mon.topo):
                sig = "playfield_overcount_skip_confirm_and_missing_timeout_same_instant"
            mon.violation("C04", "rest_playfield_count", sig,
                          {"mpf_playfield_balls": bel["playfield"]["balls"], "physical_loose": phys["playfield"],
                           "snapshot": snap, "world_trace": list(world.trace)[-40:]})
        mon.clauses["rest_conservation"] += 1
        total = sum(bel[n]["balls"] for n in mon.devices) + bel["playfield"]["balls"]
        if bel["num_balls_known"] != world.total_balls or (total != bel["num_balls_known"] and not mismatch):
            # (a sum that is off only because of a count mismatch reported above is not reported twice)
            mon.violation("C04", "rest_conservation", "counts_not_conserved",
                          {"sum_of_counts": total, "num_balls_known": bel["num_balls_known"],
                           "balls_that_exist": world.total_balls, "snapshot": snap})

    # ---- C05: bounded progress -------------------------------------------------------------------------------
    if horizon < H_C05:
        return
    devs = mon.devices
    sources = {n: [s.name for s in d._source_devices] for n, d in devs.items()}

    # every ball a ball save announced (ball_save_*_saving_ball) must have been requested for the playfield by now
    # (eject_delay <= 8 s is far inside the horizon); the game keeps such a ball "in play"
    if mon.saves_announced:
        mon.clauses["save_requested"] += 1
        if mon.save_requests < mon.saves_announced:
            mon.violation("C05", "save_requested", "announced_ball_save_never_requested",
                          {"balls_announced_saved": mon.saves_announced, "balls_requested_by_ball_save":
                           mon.save_requests, "ball_save": mon.topo["logic"].get("ball_save"),
                           "save_log": mon.save_log[-12:], "snapshot": snap})

    def upstream_has_ball(n, seen=None):
        seen = seen or set()
        if n in seen:
            return False
        seen.add(n)
        if phys.get(n, 0) > 0:
            return True
        return any(upstream_has_ball(s, seen) for s in sources.get(n, []))

    for n, d in devs.items():
        mon.clauses["idle_or_broken"] += 1
        st = states[n]
        if st == "idle":
            continue
        if st == "eject_broken":
            if n not in mon.broken:
                mon.violation("C05", "idle_or_broken", "broken_without_broken_event", {"device": n, "snapshot": snap})
            continue
        if mon.broken:
            continue        # another device reported itself broken: requests through it cannot complete
        tgt = d.outgoing_balls_handler._current_target
        tname = tgt.name if tgt is not None else None
        if st == "waiting_for_ball" and not upstream_has_ball(n):
            continue        # nothing anywhere that could serve it
        if st == "waiting_for_target_ready" and tname in world.devs and \
                world.devs[tname].count() >= world.devs[tname].capacity:
            continue        # target physically full and nobody empties it: cannot be served
        sig = "device_stuck_in_" + st
        if st in ("failed_confirm", "ball_left", "ejecting") and d.ball_count_handler._is_counting.locked() and \
                mon.mech_idle_ejects.get(n):
            sig += "_after_failed_mechanical_idle_eject"
        elif st == "waiting_for_ball":
            feeding = [s for s in sources.get(n, []) if devs[s].outgoing_balls_handler._current_target is d or
                       any(e.target is d for e in list(devs[s].outgoing_balls_handler._eject_queue._queue))]
            if not feeding:
                sig += "_no_source_sends_one"
                mech = any(dd["ejector"] in ("mech", "mech_coil") for dd in mon.topo["devices"])
                # the known restore-path weakness: the replacement was re-requested at a device nothing feeds (its
                # request is parked there) or the lost ball was heading for a mechanical device in its skip wait
                dead_end_request = any(devs[x]._ball_requests and not sources.get(x) for x in devs)
                # devices which reported a ball missing although every ball they kicked physically arrived on time
                # (any physical loss anywhere may be matched to another device's expected ball - one switch cannot
                # tell balls apart - so this needs a case in which every kick of every device arrived on time)
                kicks = [oc for (_t, _dv, oc, _by) in world.launch_log]
                phantom_loss = bool(kicks) and all(oc == "ok" for oc in kicks) and not world.service_log
                if mon.missing_events and not mech and phantom_loss:
                    sig += "_after_ball_reported_missing_that_was_never_lost"
                    if any(k == "failed_retry" for _t, k in mon.dev_events.get(n, [])):
                        # the stuck device itself reported one of its (physically fine) ejects as failed: a ball from a
                        # second source arrived during its eject to the playfield and was taken for the returning ball
                        sig += "_arrival_during_eject_taken_for_returning_ball"
                elif mon.missing_events and not mech and not dead_end_request:
                    sig += "_after_lost_ball_path_restore"  # a different bookkeeping problem in the restore path
                elif mon.missing_events:
                    sig += "_after_lost_ball_handling"      # cancel_path / restore-path bookkeeping
                    if _skip_race_config(mon.topo):
                        # a mechanical device's eject timeout == its feeder's ball_missing_timeout: the skip wait
                        # and the lost-ball path run in the same instant
                        sig += "_skip_and_missing_timeout_same_instant"
                elif mon.mech_idle_ejects.get(n) or mon.idle_skips.get(n):
                    sig += "_stale_available_balls"
        elif st == "waiting_for_target_ready" and tname in world.devs and \
                world.devs[tname].count() < world.devs[tname].capacity:
            sig += "_although_target_has_room"
        mon.violation("C05", "idle_or_broken", sig,
                      {"device": n, "state": st, "target": tname, "snapshot": snap,
                       "mechanical_idle_ejects": mon.mech_idle_ejects.get(n, 0),
                       "idle_skips": mon.idle_skips.get(n, 0),
                       "world_trace": list(world.trace)[-40:]})

    # queued requests that could still be served
    for n, d in devs.items():
        for (target, _pc) in list(d._ball_requests):
            mon.clauses["request_served"] += 1
            if mon.broken:
                continue
            path = d.find_one_available_ball()
            if path:
                mon.violation("C05", "request_served", "queued_request_not_served_while_ball_available",
                              {"device": n, "target": target.name, "source_with_ball": path[0].name,
                               "snapshot": snap})

    # a request for T parked in the private queue of a device that has no sources (lock, playfield VUK) although
    # another idle device on a path to T has an available ball (e.g. a multiball asked a lock for more than it can give)
    if not mon.broken and not mon.missing_events and not world.service_log and \
            "ball_hold" not in mon.topo.get("logic", {}):
        src = devs[mon.topo["source"]]
        supply = {xn for xn, x in devs.items() if x is src or x.find_path_to_target(src)}    # trough, plunger, drain
        for n, d in devs.items():
            if sources.get(n) or n in supply or not d._ball_requests:
                continue        # only locks / playfield VUKs: devices that nothing feeds and that feed the playfield
            for (target, _pc) in list(d._ball_requests):
                mon.clauses["request_served"] += 1
                donors = [x for xn, x in devs.items() if xn in supply and x.available_balls > 0 and
                          states[xn] == "idle" and (x is target or x.find_path_to_target(target))]
                if donors:
                    mon.violation("C05", "request_served", "request_parked_at_device_without_sources",
                                  {"device": n, "target": target.name, "idle_source_with_ball": donors[0].name,
                                   "snapshot": snap})

    # delivery accounting (under-delivery only)
    if not mon.broken:
        queued = {}
        for n, d in devs.items():
            for (target, _pc) in d._ball_requests:
                queued[target.name] = queued.get(target.name, 0) + 1
        # ejects that are set up but (tolerably) blocked, e.g. towards a physically full target, are still pending
        blocked = 0
        for n, d in devs.items():
            if states[n] != "idle":
                ob = d.outgoing_balls_handler
                blocked += ob._eject_queue.qsize() + (1 if ob._current_target is not None else 0)
        # a ball that rolls back into its source after the eject timeout may come back after MPF (correctly, on
        # the evidence it has) concluded success or loss; then it is indistinguishable from a new ball
        back_late = sum(1 for (_t, _d, oc, _by) in world.launch_log if oc == "back_late")
        # a stray ball towards a mechanical plunger is (reasonably) taken for a ball that skipped the plunger
        back_late += sum(1 for (_t, dv, oc, _by) in world.launch_log if oc == "stray" and
                         world.devs[dv].target in world.devs and
                         world.devs[world.devs[dv].target].ejector in ("mech", "mech_coil"))
        # a failed eject that MPF confirmed because another ball reached the target (or closed the playfield switch)
        # in the meantime: the evidence MPF has says "delivered"; the ball itself is back in the source
        for (t, dv, oc, _by) in world.launch_log:
            if oc in ("weak", "back_early") and _confirmed_by_coincidence(mon, world, t, dv):
                back_late += 1
        for tname, r in mon.requests.items():
            if tname in world.devs and world.devs[tname].ejector in ("mech", "mech_coil") and mon.idle_skips.get(tname):
                continue    # MPF took a ball for one that skipped this mechanical plunger: "delivered there" is undefined
            mon.clauses["delivery"] += 1
            dl = world.deliveries.get(tname, 0)
            q = queued.get(tname, 0)
            if r > dl + q + blocked + mon.missing_events + mon.failed_final + back_late:
                mon.violation("C05", "delivery", "requested_ball_never_delivered",
                              {"target": tname, "requests": r, "delivered": dl, "still_queued": q,
                               "blocked_ejects": blocked, "late_fall_backs": back_late, "reported_missing": mon.missing_events, "reported_failed": mon.failed_final,
                               "snapshot": snap, "world_trace": list(world.trace)[-40:]})

        # every ball a ball save announced as saved has physically been delivered to the playfield (or is still queued /
        # blocked / was reported lost or failed, as in the delivery clause).  Decided on the physical world only: balls
        # that arrived on the playfield after an MPF/player launch since the first announcement.
        if mon.saves_announced:
            mon.clauses["saved_delivered"] += 1
            dl = world.deliveries.get("playfield", 0) - mon.save_deliveries_before
            q = sum(queued.values())
            if mon.saves_announced > dl + q + blocked + mon.missing_events + mon.failed_final + back_late:
                mon.violation("C05", "saved_delivered", "saved_ball_never_delivered",
                              {"balls_announced_saved": mon.saves_announced,
                               "delivered_to_playfield_since_first_save": dl, "still_queued": q,
                               "blocked_ejects": blocked, "late_fall_backs": back_late,
                               "reported_missing": mon.missing_events, "reported_failed": mon.failed_final,
                               "ball_save": mon.topo["logic"].get("ball_save"), "save_log": mon.save_log[-12:],
                               "snapshot": snap, "world_trace": list(world.trace)[-40:]})
        # a running game does not count more balls in play than there are balls outside the home devices (trough, drain
        # device): on the playfield, in a lock/VUK/launcher or on the way.  Only when every device is idle, nothing is
        # queued or blocked and no ball was reported lost / no coil test knocked balls out.
        game = mon.m.game
        if game is not None and all_idle and not queued and not blocked and not mon.missing_events and \
                not mon.failed_final and not back_late and not world.service_log:
            mon.clauses["saved_delivered"] += 1
            home = [dd["name"] for dd in mon.topo["devices"] if dd["name"] in ("bd_trough", "bd_drain")]
            outside = world.total_balls - sum(phys.get(h, 0) for h in home)
            if game.balls_in_play > outside:
                mon.violation("C05", "saved_delivered", "balls_in_play_exceed_balls_outside_home_devices",
                              {"balls_in_play": game.balls_in_play, "balls_outside_trough_and_drain": outside,
                               "balls_announced_saved": mon.saves_announced,
                               "balls_requested_by_ball_save": mon.save_requests,
                               "ball_save": mon.topo["logic"].get("ball_save"), "save_log": mon.save_log[-12:],
                               "snapshot": snap, "world_trace": list(world.trace)[-40:]})

    # every physical failed eject is retried or reported
    now = mon.vm.now()
    for (t, dev, outcome, by) in world.launch_log:
        if outcome in ("ok", "late", "back_late") or by != "coil":
            continue
        if getattr(mon, "_retry_checked", None) is None:
            mon._retry_checked = set()
        if (t, dev) in mon._retry_checked:
            continue
        mon._retry_checked.add((t, dev))
        if outcome == "stray" and world.devs[world.devs[dev].target].ejector in ("mech", "mech_coil"):
            continue        # MPF treats it as a ball that skipped the mechanical plunger: it is on the playfield
        mon.clauses["retry_or_report"] += 1
        retried = any(ct > t for ct in mon.coil_times[dev]) or \
            any(t2 > t and d2 == dev for (t2, d2, _o, _b) in world.launch_log)     # coil again, or the player plunged
        reported = any(et >= t and kind in ("failed_final", "broken", "missing", "failed_retry")
                       for et, kind in mon.dev_events[dev])
        if dev in mon.broken:
            reported = True
        # MPF confirmed the eject because some ball did arrive at the target in the meantime (coincidence with another
        # ball): on the evidence it has that is a success, and the target did get a ball
        if _confirmed_by_coincidence(mon, world, t, dev):
            reported = True
        # with a confirm switch the source is done once the ball passed the switch; a ball that then never arrives is
        # reported by the target (balldevice_<target>_ball_missing)
        tgt_name = world.devs[dev].target
        if world.devs[dev].confirm_switch and tgt_name in mon.dev_events and \
                any(et >= t and kind == "missing" for et, kind in mon.dev_events[tgt_name]):
            reported = True
        if not retried and not reported:
            mon.violation("C05", "retry_or_report", "failed_eject_neither_retried_nor_reported",
                          {"device": dev, "physical_outcome": outcome, "launched_at": round(t, 3),
                           "snapshot": snap, "world_trace": list(world.trace)[-40:]})
