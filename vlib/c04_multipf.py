"""C04 case family "multi_pf": several playfields, each fed by its own switch-counted trough.

The other C04 families model ONE playfield (vlib/c04_world.py).  This family is about what only exists with more than
one playfield: a ball that was put loose on playfield X ends up in the trough of a DIFFERENT playfield Y ("jump"), and
BallController._balance_playfields has to re-attribute one (and only one) loose ball.

Physical world (this file, deliberately simple): per trough the set of closed ball switches, per playfield the number
of loose balls.  The world only sees pulses at the platform driver (vlib/c04_world.install_driver_wrappers) and only
answers with raw switch reports.  A pulse on a trough that physically holds a ball opens its highest closed switch
50-150 ms later; the ball is then loose on that trough's playfield and rolls over that playfield's
`<pf>_active` switch 0.7-1.2 s later.

Oracle, SOUND for the inherent ambiguity: MPF cannot know where a jumped ball came from, so the oracle tracks the SET
of playfield-count vectors a correct MPF could hold (see Beliefs) and demands membership at rest points.
"""
import random

CLAUSES = ("rest_device_count", "rest_playfield_count", "rest_conservation", "range", "no_room")
H = 200.0
SETTLE_CAP = 4000.0
QUIET_AFTER_ENTRY = 2.0     # an add is not issued before the last trough entry has been counted (entrance delay 0.5 s)
LETTERS = "abcd"


# ---------------------------------------------------------------------------------------------------------
# generation
# ---------------------------------------------------------------------------------------------------------
def _gap(rng):
    r = rng.random()
    if r < 0.2:
        return 0.0
    if r < 0.7:
        return round(rng.uniform(0.05, 1.0), 3)
    return round(rng.uniform(1.0, 5.0), 3)


def gen_case(rng, tier):
    """Pure function of rng.  Ops: ["add", pf, gap] ["drain", pf, gap] ["jump", src, dst, gap] ["rest"]."""
    biased = rng.random() < 0.6
    n_pf = rng.choice([3, 3, 4]) if biased else rng.randint(2, 4)
    pfs = []
    for i in range(n_pf):
        nsw = rng.randint(2, 3)
        pfs.append({"name": "pf_" + LETTERS[i], "switches": nsw, "balls": rng.randint(1, min(3, nsw))})
    ops = []
    inside = [p["balls"] for p in pfs]
    loose = [0] * n_pf
    if biased:
        # the situation a multi-donor regression needs: >= 2 other playfields hold a ball, one of them jumps into the
        # trough of a playfield that has no loose ball
        y = rng.randrange(n_pf)
        pfs[y]["switches"] = 3
        pfs[y]["balls"] = rng.randint(1, 2)
        inside[y] = pfs[y]["balls"]
        donors = [i for i in range(n_pf) if i != y]
        rng.shuffle(donors)
        donors = donors[:rng.randint(2, len(donors))]
        for d in donors:
            ops.append(["add", d, _gap(rng)])
            inside[d] -= 1
            loose[d] += 1
        if rng.random() < 0.3:
            ops.append(["rest"])
        src = rng.choice(donors)
        ops.append(["jump", src, y, round(rng.uniform(0.0, 4.0), 3)])
        loose[src] -= 1
        inside[y] += 1
        if rng.random() < 0.6:
            ops.append(["rest"])
    n_ops = rng.randint(6, 20)
    tries = 0
    while len(ops) < n_ops and tries < 200:
        tries += 1
        r = rng.random()
        if r < 0.35:
            c = [i for i in range(n_pf) if inside[i] > 0]
            if not c:
                continue
            i = rng.choice(c)
            ops.append(["add", i, _gap(rng)])
            inside[i] -= 1
            loose[i] += 1
        elif r < 0.55:
            c = [i for i in range(n_pf) if loose[i] > 0 and inside[i] < pfs[i]["switches"]]
            if not c:
                continue
            i = rng.choice(c)
            ops.append(["drain", i, _gap(rng)])
            loose[i] -= 1
            inside[i] += 1
        elif r < 0.88:
            c = [(i, j) for i in range(n_pf) for j in range(n_pf)
                 if i != j and loose[i] > 0 and inside[j] < pfs[j]["switches"]]
            if not c:
                continue
            # prefer a landing playfield without a loose ball while two or more others hold one
            good = [(i, j) for (i, j) in c if loose[j] == 0 and sum(1 for k in range(n_pf) if k != j and loose[k] > 0) >= 2]
            i, j = rng.choice(good if good and rng.random() < 0.7 else c)
            ops.append(["jump", i, j, _gap(rng)])
            loose[i] -= 1
            inside[j] += 1
        else:
            if ops and ops[-1][0] != "rest":
                ops.append(["rest"])
    return {"family": "multi_pf", "pfs": pfs, "ops": ops, "seed": rng.randrange(1 << 30)}


def shape_of(case):
    ops = "".join({"add": "A", "drain": "D", "jump": "J", "rest": "R"}.get(o[0], "?") +
                  ("" if o[0] == "rest" else "".join(str(x) for x in o[1:-1])) for o in case["ops"])
    return "multi_pf|%s|%s" % (",".join("%d/%d" % (p["balls"], p["switches"]) for p in case["pfs"]), ops[:60])


def build_config(pfs):
    playfields = {"playfield": {"_delete": True}}
    switches, coils, bds, active = {}, {}, {}, []
    n = 0
    for p in pfs:
        pf = p["name"]
        x = pf[-1]
        tr = "bd_trough_" + x
        playfields[pf] = {"label": "Playfield " + x.upper(), "default_source_device": tr}
        names = []
        for i in range(p["switches"]):
            n += 1
            sn = "s_trough_%s%d" % (x, i)
            switches[sn] = {"number": str(n), "playfield": pf}
            names.append(sn)
            if i < p["balls"]:
                active.append(sn)
        n += 1
        switches["s_" + pf] = {"number": str(n), "playfield": pf, "tags": pf + "_active"}
        coils["c_trough_" + x] = {"number": "c_trough_" + x, "default_pulse_ms": 20}
        bds[tr] = {"eject_coil": "c_trough_" + x, "ball_switches": ", ".join(names), "eject_targets": pf,
                   "captures_from": pf, "ball_missing_target": pf, "tags": "trough, drain, home"}
    return {"playfields": playfields, "switches": switches, "coils": coils, "ball_devices": bds,
            "machine": {"balls_installed": sum(p["balls"] for p in pfs), "min_balls": 1},
            "virtual_platform_start_active_switches": ", ".join(active)}


# ---------------------------------------------------------------------------------------------------------
# what a correct MPF may believe
# ---------------------------------------------------------------------------------------------------------
class Beliefs:
    """Set of playfield-count vectors a correct MPF could hold.

    confirmed eject to pf X : +1 on X.
    ball enters trough Y    : a vector with v[Y] > 0 loses one there (MPF has no reason to think of a jump);
                              a vector with v[Y] == 0 means a jump: ANY other playfield that holds a ball may be the
                              donor (the choice is MPF's), exactly ONE ball is re-attributed.
    Every vector sums to the number of loose balls, so when a ball enters a trough a donor always exists.
    """

    def __init__(self, n):
        self.n = n
        self.vs = {tuple([0] * n)}
        self.possible_jumps = 0
        self.two_donor_jumps = 0

    def add(self, x):
        self.vs = {tuple(c + (1 if i == x else 0) for i, c in enumerate(v)) for v in self.vs}

    def enter(self, y):
        out = set()
        jump = False
        two = False
        for v in self.vs:
            if v[y] > 0:
                out.add(tuple(c - (1 if i == y else 0) for i, c in enumerate(v)))
                continue
            donors = [d for d in range(self.n) if d != y and v[d] > 0]
            if not donors:
                out.add(v)          # cannot happen while the sums are right; keep the vector (no demand added)
                continue
            jump = True
            two = two or len(donors) >= 2
            for d in donors:
                out.add(tuple(c - (1 if i == d else 0) for i, c in enumerate(v)))
        self.vs = out
        if jump:
            self.possible_jumps += 1
        if two:
            self.two_donor_jumps += 1
        return jump


# ---------------------------------------------------------------------------------------------------------
# the physical world
# ---------------------------------------------------------------------------------------------------------
class MWorld:
    def __init__(self, vm, case):
        self.vm = vm
        self.machine = vm.machine
        self.loop = vm.loop
        self.pfs = case["pfs"]
        self.n = len(self.pfs)
        self.rng = random.Random(case.get("seed", 0))
        self.platform = self.machine.default_platform
        self.sw_num = {name: sw.hw_switch.number for name, sw in self.machine.switches.items()}
        self.coil_idx = {}
        for i, p in enumerate(self.pfs):
            self.coil_idx[str(self.machine.coils["c_trough_" + p["name"][-1]].hw_driver.number)] = i
        self.closed = [set(range(p["balls"])) for p in self.pfs]     # closed ball switches per trough
        self.loose = [0] * self.n           # balls physically loose per playfield
        self.avail = [0] * self.n           # ... of which MPF has confirmed the eject (these may drain / jump)
        self.pending_adds = [0] * self.n    # add_ball requests not yet answered by a coil pulse
        self.unconfirmed = [0] * self.n     # balls that left a trough, eject not yet confirmed by MPF
        self.pending = 0
        self.last_change = self.now()
        self.last_entry = -1000.0
        self.trace = []
        self.stats = {"pulses": 0, "pulse_on_empty": 0, "entries": 0, "jumps": 0, "drains": 0, "adds": 0,
                      "ops_skipped": 0}
        self.is_closed = False
        self.on_confirm = None
        from vlib import c04_world as W
        W.install_driver_wrappers()
        W.ACTIVE = self

    def close(self):
        from vlib import c04_world as W
        self.is_closed = True
        if W.ACTIVE is self:
            W.ACTIVE = None

    def now(self):
        return self.loop.time()

    def _log(self, *a):
        self.trace.append([round(self.now(), 3)] + list(a))

    def after(self, delay, fn, *args):
        self.pending += 1

        def run():
            self.pending -= 1
            if not self.is_closed:
                fn(*args)
        self.loop.call_at(self.now() + max(0.0, delay), run)

    def report(self, name, state):
        self.last_change = self.now()
        self._log("sw", name, state)
        self.machine.switch_controller.process_switch_by_num(self.sw_num[name], state, self.platform, logical=False)

    # platform driver interface (called by the class-level VirtualDriver wrappers)
    def coil_command(self, number, action):
        i = self.coil_idx.get(str(number))
        if i is None or action != "pulse":
            return
        self.last_change = self.now()
        self.stats["pulses"] += 1
        self._log("pulse", i)
        if self.pending_adds[i] > 0:
            self.pending_adds[i] -= 1
        if not self.closed[i]:
            self.stats["pulse_on_empty"] += 1
            return
        slot = max(self.closed[i])
        self.closed[i].discard(slot)            # the ball is on its way out (switch opens a little later)
        self.unconfirmed[i] += 1
        self.after(self.rng.uniform(0.05, 0.15), self._leaves, i, slot)

    def _leaves(self, i, slot):
        self.loose[i] += 1
        self.report("s_trough_%s%d" % (LETTERS[i], slot), 0)
        self.after(self.rng.uniform(0.7, 1.2), self._pf_hit, i)

    def _pf_hit(self, i):
        self.report("s_" + self.pfs[i]["name"], 1)
        self.after(0.05, self.report, "s_" + self.pfs[i]["name"], 0)

    def eject_confirmed(self, i):
        """MPF posted balldevice_<trough>_ball_eject_success: from now on the ball may drain or jump."""
        if self.unconfirmed[i] > 0:
            self.unconfirmed[i] -= 1
            self.avail[i] += 1
            self._log("confirmed", i)
            if self.on_confirm:
                self.on_confirm(i)

    def quiet(self):
        return not self.pending and not any(self.pending_adds) and not any(self.unconfirmed)

    def free_slot(self, j):
        for s in range(self.pfs[j]["switches"]):
            if s not in self.closed[j]:
                return s
        return None

    def enter(self, src, dst):
        """A confirmed loose ball of playfield src drops into the trough of playfield dst."""
        slot = self.free_slot(dst)
        self.avail[src] -= 1
        self.loose[src] -= 1
        self.closed[dst].add(slot)
        self.last_entry = self.now()
        self.stats["entries"] += 1
        self.stats["jumps" if src != dst else "drains"] += 1
        self.report("s_trough_%s%d" % (LETTERS[dst], slot), 1)


# ---------------------------------------------------------------------------------------------------------
# the run
# ---------------------------------------------------------------------------------------------------------
def _confirm_handler(world, i):
    def handler(**kwargs):
        world.eject_confirmed(i)
    return handler


def run_case(case):
    from vlib.boot import VMachine, MpfCrash, guard_import
    from vlib import c04_common as C
    guard_import()
    pfs = case["pfs"]
    n = len(pfs)
    names = [p["name"] for p in pfs]
    installed = sum(p["balls"] for p in pfs)
    clauses = {k: 0 for k in CLAUSES}
    obs = {"multi_pf_cases": 1, "multi_pf_jumps": 0, "multi_pf_jumps_with_two_or_more_donors": 0,
           "multi_pf_rests": 0, "multi_pf_rests_unambiguous": 0, "multi_pf_rests_not_idle": 0,
           "multi_pf_rests_not_settled": 0, "multi_pf_playfield_jump_events": 0, "multi_pf_three_or_more_playfields": 0,
           "multi_pf_pf_negative_transients": 0}
    if n >= 3:
        obs["multi_pf_three_or_more_playfields"] = 1
    viol = []
    seen = set()

    def violation(clause, sig, detail):
        if sig in seen:
            return
        seen.add(sig)
        viol.append({"clause": clause, "sig": "C04:" + sig, "detail": detail})

    with VMachine(config=build_config(pfs), kind="plain") as vm:
        m = vm.machine
        world = MWorld(vm, case)
        troughs = [m.ball_devices["bd_trough_" + x[-1]] for x in names]
        playfields = [m.playfields[x] for x in names]
        bel = Beliefs(n)
        world.on_confirm = bel.add
        jump_log = []
        window = {"events": 0, "possible": 0}

        def snapshot():
            return {"trough_balls": [t.balls for t in troughs], "trough_physical": [len(c) for c in world.closed],
                    "playfield_balls": [p.balls for p in playfields], "playfield_physical": list(world.loose),
                    "possible_playfield_vectors": sorted(bel.vs)[:12], "num_balls_known": m.ball_controller.num_balls_known,
                    "states": [t._state for t in troughs], "jump_events": jump_log[-8:], "world_trace": world.trace[-40:]}

        def on_jump(source=None, target=None, **kwargs):
            obs["multi_pf_playfield_jump_events"] += 1
            window["events"] += 1
            s, t = getattr(source, "name", None), getattr(target, "name", None)
            jump_log.append([round(vm.now(), 3), s, t])
            if s == t:
                violation("rest_playfield_count", "multi_pf_playfield_jump_source_is_target", snapshot())
        m.events.add_handler("playfield_jump", on_jump)
        for i, x in enumerate(names):
            m.events.add_handler("balldevice_bd_trough_%s_ball_eject_success" % x[-1], _confirm_handler(world, i))

        # range oracle after every loop iteration
        orig_run_once = vm.loop._run_once

        def run_once():
            orig_run_once()
            clauses["range"] += 1
            for i, t in enumerate(troughs):
                b = t.balls
                if b < 0 or b > pfs[i]["switches"]:
                    violation("range", "device_count_out_of_range_multi_pf", dict(snapshot(), device=t.name, balls=b))
            if any(p.balls < 0 for p in playfields):
                obs["multi_pf_pf_negative_transients"] += 1
        vm.loop._run_once = run_once

        def wait_until(cond, cap=60.0, step=0.25):
            t0 = vm.now()
            while not cond():
                if vm.now() - t0 >= cap:
                    return False
                vm.advance(step)
            return True

        def do_entry(src, dst):
            if not (0 <= src < n and 0 <= dst < n):
                return False
            # quiet rule (see ASSUMPTIONS): no eject is pending / in flight / unconfirmed anywhere
            if not wait_until(world.quiet):
                return False
            if world.avail[src] <= 0 or world.free_slot(dst) is None:
                return False
            jump = bel.enter(dst)
            if jump:
                window["possible"] += 1
            world.enter(src, dst)
            return True

        def rest():
            t0 = vm.now()
            rested = False
            while vm.now() - t0 < SETTLE_CAP:
                vm.advance(5.0)
                if not world.pending and vm.now() - max(world.last_change, t0) >= H:
                    rested = True
                    break
            obs["multi_pf_rests"] += 1
            if not rested:
                obs["multi_pf_rests_not_settled"] += 1
                return
            if any(t._state != "idle" for t in troughs) or any(world.unconfirmed) or any(world.pending_adds):
                obs["multi_pf_rests_not_idle"] += 1      # C05's subject
                return
            snap = None
            for i, t in enumerate(troughs):
                clauses["rest_device_count"] += 1
                if t.balls != len(world.closed[i]):
                    snap = snap or snapshot()
                    violation("rest_device_count", "rest_device_count_mismatch_multi_pf", dict(snap, device=t.name))
            clauses["rest_conservation"] += 1
            total = sum(t.balls for t in troughs) + sum(p.balls for p in playfields)
            if not (total == installed == m.ball_controller.num_balls_known):
                snap = snap or snapshot()
                violation("rest_conservation", "rest_conservation_broken_multi_pf", dict(snap, total=total,
                                                                                         installed=installed))
            clauses["range"] += 1
            if any(p.balls < 0 for p in playfields):
                snap = snap or snapshot()
                violation("range", "playfield_negative_at_rest_multi_pf", snap)
            clauses["rest_playfield_count"] += 1
            vec = tuple(p.balls for p in playfields)
            if len(bel.vs) == 1 and tuple(world.loose) in bel.vs:
                obs["multi_pf_rests_unambiguous"] += 1
            if vec not in bel.vs:
                snap = snap or snapshot()
                if len(bel.vs) == 1 and tuple(world.loose) in bel.vs:
                    violation("rest_playfield_count", "rest_playfield_count_mismatch_multi_pf", snap)
                else:
                    violation("rest_playfield_count", "multi_pf_playfield_count_not_possible", snap)
            clauses["rest_playfield_count"] += 1
            if window["events"] > window["possible"]:
                snap = snap or snapshot()
                violation("rest_playfield_count", "multi_pf_extra_playfield_jump",
                          dict(snap, playfield_jump_events=window["events"],
                               trough_entries_that_can_be_jumps=window["possible"]))
            window["events"] = 0
            window["possible"] = 0

        crashed = None
        try:
            vm.advance(2.0)
            for op in list(case["ops"]) + [["rest"]]:
                k = op[0]
                if k == "rest":
                    rest()
                    continue
                vm.advance(float(op[-1]))
                ok = False
                if k == "add":
                    i = int(op[1])
                    if 0 <= i < n and len(world.closed[i]) - world.pending_adds[i] > 0:
                        # the last ball that entered any trough has been counted before a new ball is requested
                        dt = world.last_entry + QUIET_AFTER_ENTRY - vm.now()
                        if dt > 0:
                            vm.advance(dt)
                        world.pending_adds[i] += 1
                        world.stats["adds"] += 1
                        world.last_change = vm.now()
                        playfields[i].add_ball()
                        ok = True
                elif k == "drain":
                    ok = do_entry(int(op[1]), int(op[1]))
                elif k == "jump":
                    if int(op[1]) != int(op[2]):
                        ok = do_entry(int(op[1]), int(op[2]))
                if not ok:
                    world.stats["ops_skipped"] += 1
        except MpfCrash as e:
            crashed = repr(e)
            if "CaseTimeout" in crashed:
                import sys
                for modname in ("__main__", "vlib.worker"):
                    cls = getattr(sys.modules.get(modname), "CaseTimeout", None)
                    if cls is not None:
                        world.close()
                        raise cls()
                raise
        if crashed:
            violation("range", C._crash_sig(crashed) + "_multi_pf", {"exception": crashed[:600]})
        world.close()
        obs["multi_pf_jumps"] = world.stats["jumps"]
        obs["multi_pf_jumps_with_two_or_more_donors"] = bel.two_donor_jumps
        for k2, v2 in world.stats.items():
            obs["multi_pf_w_" + k2] = v2
        return {"violations": viol, "clauses": clauses, "shape": shape_of(case),
                "nontrivial": clauses["rest_device_count"] > 0 and clauses["rest_conservation"] > 0 and
                clauses["rest_playfield_count"] > 0 and clauses["range"] > 0,
                "obs": obs, "trace": world.trace[-30:]}
