"""Independent physical pinball world for C04/C05.

The world owns every ball.  It sees MPF only through coil commands at the platform driver interface
(class-level wrappers around VirtualDriver.pulse/enable/disable) and answers only with raw switch
reports through machine.switch_controller.process_switch_by_num(num, state, platform, logical=False).
It never reads MPF's beliefs (device.balls, states, queues ...).  The only things it takes from the
machine object are the *wiring* (which platform number a named switch/coil has) and the virtual clock.

Physical model (documented envelope, also listed in the checks' ASSUMPTIONS):
  * switch-counted device  = N slots, one switch per slot, a resting ball closes its slot's switch.
    An eject coil moves exactly one ball (lowest occupied slot).  An arriving ball takes the lowest free slot.
  * entrance-counted device with entrance_switch_full_timeout (Gottlieb trough) = as below, but the ball that fills
    the device rests on the entrance switch until a ball is ejected and the balls roll down
  * entrance-counted device = a magazine of `capacity` balls behind one entrance switch that a passing ball
    closes for a few ten ms.
  * every device has one physical exit that leads to exactly one place (no diverters).
  * a launched ball: leaves its switch after `leave` s, then (outcome from the case's fault schedule)
      ok          arrives at the target after `transit`
      weak        does not move at all
      back_early  leaves and rolls back into the source before the eject timeout
      back_late   leaves and rolls back after the eject timeout but before the missing timeout
      late        arrives at the target between eject timeout and missing timeout
      stray       ends up loose on the playfield instead of in the target device
  * loose balls move only when the script says so (drain, lock shot, playfield switch hit); a mechanical
    plunger is plunged by the world's player after a bounded delay whenever a ball rests in it.
Nothing teleports: every move is leave-switch -> transit time -> arrive-switch.
"""
import collections
import os
import random

ACTIVE = None          # the world that currently receives coil commands (one machine at a time per process)
_WRAPPED = False


def install_driver_wrappers():
    """Wrap VirtualDriver.pulse/enable/disable at class level (platform driver interface)."""
    global _WRAPPED
    if _WRAPPED:
        return
    from mpf.platforms.virtual import VirtualDriver
    orig_pulse, orig_enable, orig_disable = VirtualDriver.pulse, VirtualDriver.enable, VirtualDriver.disable

    def pulse(self, pulse_settings):
        r = orig_pulse(self, pulse_settings)
        if ACTIVE is not None:
            ACTIVE.coil_command(str(self.number), "pulse")
        return r

    def enable(self, pulse_settings, hold_settings):
        r = orig_enable(self, pulse_settings, hold_settings)
        if ACTIVE is not None:
            ACTIVE.coil_command(str(self.number), "enable")
        return r

    def disable(self):
        r = orig_disable(self)
        if ACTIVE is not None:
            ACTIVE.coil_command(str(self.number), "disable")
        return r

    VirtualDriver.pulse, VirtualDriver.enable, VirtualDriver.disable = pulse, enable, disable
    _WRAPPED = True


# ---------------------------------------------------------------------------------------------------------
# topology -> MPF config (the wiring both sides agree on)
# ---------------------------------------------------------------------------------------------------------
def build_config(topo):
    """Generate the machine config dict for a topology description (see gen_topology in the checks)."""
    switches = {"s_start": {"number": "900", "tags": "start"},
                "s_pf": {"number": "901", "tags": "playfield_active"}}
    coils = {}
    bds = {}
    active = []
    n = 0
    for d in topo["devices"]:
        name = d["name"]
        cfg = {}
        if d["counter"] == "switch":
            names = []
            for i in range(d["slots"]):
                n += 1
                sn = "s_%s_%d" % (name, i)
                switches[sn] = {"number": str(n)}
                names.append(sn)
                if i < d.get("initial", 0):
                    active.append(sn)
            cfg["ball_switches"] = ", ".join(names)
            cfg["entrance_count_delay"] = "%dms" % d["entrance_count_delay_ms"]
            cfg["exit_count_delay"] = "%dms" % d["exit_count_delay_ms"]
        else:
            n += 1
            sn = "s_%s_ent" % name
            switches[sn] = {"number": str(n)}
            lanes = [sn]
            for k in range(1, d.get("lanes", 1)):
                n += 1
                switches["s_%s_ent%d" % (name, k)] = {"number": str(n)}
                lanes.append("s_%s_ent%d" % (name, k))
            cfg["entrance_switch"] = ", ".join(lanes)
            cfg["ball_capacity"] = d["slots"]
            cfg["counter"] = {"class": "mpf.devices.ball_device.entrance_switch_counter.EntranceSwitchCounter",
                              "settle_time_ms": d.get("settle_time_ms", 500)}
            if d.get("ignore_window_ms"):
                cfg["counter"]["entrance_switch_ignore_window_ms"] = d["ignore_window_ms"]
            if d.get("full_timeout_ms"):
                # Gottlieb-style: the ball that fills the device rests on the entrance switch
                cfg["counter"]["entrance_switch_full_timeout"] = d["full_timeout_ms"]
                if d.get("initial", 0) == d["slots"]:
                    active.append(sn)
        ej = d["ejector"]
        if ej in ("pulse", "mech_coil"):
            coils["c_" + name] = {"number": "c_" + name, "default_pulse_ms": 20}
            cfg["eject_coil"] = "c_" + name
        elif ej == "enable":
            coils["c_" + name] = {"number": "c_" + name, "default_pulse_ms": 20, "default_hold_power": 0.25}
            cfg["eject_coil"] = "c_" + name
            cfg["eject_coil_enable_time"] = "%dms" % d.get("enable_time_ms", 300)
        elif ej == "hold":
            coils["c_" + name] = {"number": "c_" + name, "default_pulse_ms": 20, "default_hold_power": 0.25}
            cfg["hold_coil"] = "c_" + name
            cfg["hold_switches"] = cfg.get("ball_switches") or cfg.get("entrance_switch")
            cfg["hold_coil_release_time"] = "%dms" % d.get("release_time_ms", 500)
        if ej in ("mech", "mech_coil"):
            cfg["mechanical_eject"] = True
        if d.get("confirm_switch"):
            # a switch in the path between this device and its target which every ejected ball passes
            n += 1
            switches["s_%s_confirm" % name] = {"number": str(n)}
            cfg["confirm_eject_type"] = "switch"
            cfg["confirm_eject_switch"] = "s_%s_confirm" % name
        cfg["eject_targets"] = d["target"]
        cfg["eject_timeouts"] = "%dms" % d["eject_timeout_ms"]
        cfg["ball_missing_timeouts"] = "%dms" % d["missing_timeout_ms"]
        if d.get("max_eject_attempts"):
            cfg["max_eject_attempts"] = d["max_eject_attempts"]
        if d.get("tags"):
            cfg["tags"] = d["tags"]
        if name == "bd_plunger":
            cfg["request_ball_events"] = "ev_req_plunger"
        if name == "bd_stage":
            cfg["request_ball_events"] = "ev_req_stage"
        if name == "bd_lock":
            # a manual request that can never be served (nothing feeds a lock): it stays queued at the lock for good
            cfg["request_ball_events"] = "ev_req_lock"
        if name == topo["source"]:
            cfg["eject_events"] = "ev_add_ball"      # manual request of one ball for the playfield
        if d.get("idle_missing_ball_timeout_s"):
            cfg["idle_missing_ball_timeout"] = "%ss" % d["idle_missing_ball_timeout_s"]
        if os.environ.get("C04_DEBUG"):
            cfg["debug"] = True
        bds[name] = cfg
    cfg = {
        "switches": switches,
        "coils": coils,
        "ball_devices": bds,
        "playfields": {"playfield": dict({"default_source_device": topo["source"], "tags": "default"},
                                         **({"debug": True} if os.environ.get("C04_DEBUG") else {}))},
        "game": {"balls_per_game": topo.get("balls_per_game", 2)},
        "machine": {"balls_installed": topo["balls"], "min_balls": topo.get("min_balls", 1)},
        "virtual_platform_start_active_switches": ", ".join(active),
    }
    logic = topo.get("logic", {})
    if logic.get("ball_save"):
        cfg["ball_saves"] = {"bs": {"active_time": "%ss" % logic["ball_save"]["active_time_s"],
                                    "eject_delay": "%dms" % logic["ball_save"].get("eject_delay_ms", 0),
                                    "balls_to_save": logic["ball_save"].get("balls_to_save", 1),
                                    "auto_launch": logic["ball_save"].get("auto_launch", True),
                                    "enable_events": "ball_started, ev_save_enable"}}
        if logic["ball_save"].get("delayed_eject"):
            # the saved ball is held back until an event (MPF forbids eject_delay together with delayed_eject_events)
            del cfg["ball_saves"]["bs"]["eject_delay"]
            cfg["ball_saves"]["bs"]["delayed_eject_events"] = "ev_save_eject"
    if logic.get("multiball"):
        mb = {"ball_count": logic["multiball"].get("ball_count", 2),
              "shoot_again": "%ss" % logic["multiball"].get("shoot_again_s", 0),
              "start_events": "ev_mb_start", "add_a_ball_events": "ev_mb_add", "stop_events": "ev_mb_stop",
              "enable_events": "ball_started"}
        if logic["multiball"].get("ball_locks"):
            mb["ball_locks"] = logic["multiball"]["ball_locks"]
        cfg["multiballs"] = {"mb": mb}
        if logic.get("multiball2"):
            mb2 = {"ball_count": logic["multiball2"].get("ball_count", 1), "ball_count_type": "add",
                   "shoot_again": "0s", "start_events": "ev_mb2_start", "stop_events": "ev_mb_stop",
                   "enable_events": "ball_started"}
            if logic["multiball2"].get("ball_locks"):
                mb2["ball_locks"] = logic["multiball2"]["ball_locks"]
            cfg["multiballs"]["mb2"] = mb2
    if logic.get("multiball_lock"):
        cfg["modes"] = ["m1"]
    if logic.get("ball_hold"):
        cfg["ball_holds"] = {"bh": {"hold_devices": logic["ball_hold"]["device"],
                                    "balls_to_hold": logic["ball_hold"].get("balls_to_hold", 1),
                                    "enable_events": "ball_started",
                                    "release_one_events": "ev_release_one",
                                    "release_all_events": "ev_release_all"}}
    return cfg


def build_modes(topo):
    """Mode configs (multiball_locks are only valid in modes)."""
    ml = topo.get("logic", {}).get("multiball_lock")
    if not ml:
        return None
    return {"m1": {"mode": {"start_events": "ball_started", "priority": 100},
                   "multiball_locks": {"lock1": {"lock_devices": ml["device"], "balls_to_lock": ml["balls_to_lock"],
                                                 "reset_count_for_current_player_events": "ev_mb_start, ev_mb2_start"}}}}


# ---------------------------------------------------------------------------------------------------------
class PDev:
    """Physical ball device."""

    def __init__(self, d):
        self.name = d["name"]
        self.counter = d["counter"]              # 'switch' | 'entrance'
        self.capacity = d["slots"]
        self.ejector = d["ejector"]              # pulse | enable | hold | mech | mech_coil
        self.target = d["target"]                # device name or 'playfield'
        self.eject_timeout = d["eject_timeout_ms"] / 1000.0
        self.missing_timeout = d["missing_timeout_ms"] / 1000.0
        self.entrance_delay = d.get("entrance_count_delay_ms", 0) / 1000.0
        self.exit_delay = d.get("exit_count_delay_ms", 0) / 1000.0
        self.slots = [None] * self.capacity      # switch-counted: ball id per slot
        self.leaving = set()                     # slot indexes whose ball is on its way out (switch still closed)
        self.inside = []                         # entrance-counted: ball ids inside
        self.switch_names = []
        self.rest_since = {}                     # ball id -> time it came to rest here
        self.plunge_pending = False
        self.entrance_busy_until = -1.0
        self.ignore_window = d.get("ignore_window_ms", 0) / 1000.0   # per entrance switch debounce configured in MPF
        self.lane_free_at = [-1.0]                                   # per entrance lane: next time a ball may pass
        self.last_launched_ball = None
        self.confirm_switch = bool(d.get("confirm_switch"))
        self.lanes_independent = d.get("lanes", 1) > 1
        self.leaving_until = -1.0                # entrance-counted: an ejected ball is on its way out until then
        self.full_timeout = d.get("full_timeout_ms", 0) / 1000.0   # >0: the filling ball rests on the entrance switch
        self.entrance_held = False                                   # a ball rests on the entrance switch
        self.coil_on = False

    def count(self):
        if self.counter == "switch":
            return sum(1 for b in self.slots if b is not None)
        return len(self.inside)

    def ball_ids(self):
        if self.counter == "switch":
            return [b for b in self.slots if b is not None]
        return list(self.inside)


class World:
    """The physical machine."""

    def __init__(self, vm, topo, phys):
        install_driver_wrappers()
        self.vm = vm
        self.machine = vm.machine
        self.loop = vm.loop
        self.topo = topo
        self.rng = random.Random(phys.get("seed", 0))
        self.phys = phys
        self.faults = {k: list(v) for k, v in phys.get("faults", {}).items()}
        self.benign_transit = phys.get("transit", [0.05, 0.6])
        self.devs = {}
        self.order = []
        for d in topo["devices"]:
            pd = PDev(d)
            self.devs[pd.name] = pd
            self.order.append(pd.name)
        # wiring (numbers only; no beliefs are read)
        self.platform = self.machine.default_platform
        self.sw_num = {name: sw.hw_switch.number for name, sw in self.machine.switches.items()}
        self.coil_dev = {}
        for d in topo["devices"]:
            if d["ejector"] in ("pulse", "mech_coil", "enable", "hold"):
                num = str(self.machine.coils["c_" + d["name"]].hw_driver.number)
                self.coil_dev[num] = d["name"]
        # balls
        self.balls = {}          # id -> ('dev', name) | ('transit', src, dst, eta, by_mpf) | ('pf',)
        self.next_ball = 0
        for d in topo["devices"]:
            pd = self.devs[d["name"]]
            if pd.counter == "switch":
                pd.switch_names = ["s_%s_%d" % (pd.name, i) for i in range(pd.capacity)]
                for i in range(d.get("initial", 0)):
                    b = self._new_ball()
                    pd.slots[i] = b
                    self.balls[b] = ("dev", pd.name)
                    pd.rest_since[b] = -1000.0
            else:
                pd.switch_names = ["s_%s_ent" % pd.name] + ["s_%s_ent%d" % (pd.name, k)
                                                            for k in range(1, d.get("lanes", 1))]
                pd.lane_free_at = [-1.0] * len(pd.switch_names)
                if pd.full_timeout and d.get("initial", 0) == pd.capacity:
                    for i in range(pd.capacity):
                        b = self._new_ball()
                        pd.inside.append(b)
                        self.balls[b] = ("dev", pd.name)
                        pd.rest_since[b] = -1000.0
                    pd.entrance_held = True
        self.total_balls = len(self.balls)
        self.pending = 0          # scheduled physics callbacks not yet executed
        self.last_change = self.now()
        self.trace = collections.deque(maxlen=400)      # physical history (most recent events)
        self.stats = {"coil_cmds": 0, "launches": 0, "arrivals": 0, "drains": 0, "lock_shots": 0, "plunges": 0,
                      "pf_hits": 0, "fault_weak": 0, "fault_back_early": 0, "fault_back_late": 0, "fault_late": 0,
                      "fault_stray": 0, "pulse_on_empty": 0, "overflow_bounce": 0, "switch_reports": 0}
        self.full_fire = []       # evidence for "fired towards a device that has no room"
        self.fallback_fire = []   # launches towards a device whose own ejected ball is physically falling back into it
        self.room_checks = 0
        self.deliveries = {}      # target name -> balls that physically arrived there after an MPF/player launch
        self.launch_log = []      # (t, dev, outcome) for C05 retry clause
        self.arrival_log = []     # (t, destination) of every physical arrival
        self.service_pulse = False    # True while the harness pulses a coil through the Driver API (coil test)
        self.service_log = []     # (t, device) of those pulses
        self.listeners = []       # callbacks(kind, **info) for the checks
        self.closed = False
        global ACTIVE
        ACTIVE = self

    # -- infrastructure ------------------------------------------------------------------------------------
    def close(self):
        global ACTIVE
        self.closed = True
        if ACTIVE is self:
            ACTIVE = None

    def now(self):
        return self.loop.time()

    def _new_ball(self):
        self.next_ball += 1
        return self.next_ball

    def _log(self, *what):
        self.trace.append([round(self.now(), 3)] + list(what))

    def _emit(self, kind, **info):
        for cb in self.listeners:
            cb(kind, **info)

    def after(self, delay, fn, *args):
        """Schedule physics in virtual time."""
        self.pending += 1

        def run():
            self.pending -= 1
            if self.closed:
                return
            fn(*args)
        self.loop.call_at(self.now() + max(0.0, delay), run)

    def report(self, switch_name, state):
        """The only way the world talks to MPF: a raw switch report from the platform."""
        self.stats["switch_reports"] += 1
        self.last_change = self.now()
        self._log("sw", switch_name, state)
        self.machine.switch_controller.process_switch_by_num(self.sw_num[switch_name], state, self.platform,
                                                             logical=False)

    def quiescent(self):
        """No scheduled physics and no ball in transit."""
        if self.pending:
            return False
        return not any(loc[0] == "transit" for loc in self.balls.values())

    # -- queries for the oracle (physical truth) -------------------------------------------------------------
    def physical_counts(self):
        res = {name: self.devs[name].count() for name in self.order}
        res["playfield"] = sum(1 for loc in self.balls.values() if loc[0] == "pf")
        res["_transit"] = sum(1 for loc in self.balls.values() if loc[0] == "transit")
        return res

    def loose_balls(self):
        return [b for b, loc in self.balls.items() if loc[0] == "pf"]

    # -- time draws ------------------------------------------------------------------------------------------
    def _u(self, lo, hi):
        return round(self.rng.uniform(lo, hi), 4)

    # -- coil commands (MPF -> world) --------------------------------------------------------------------------
    def coil_command(self, number, action):
        self.stats["coil_cmds"] += 1
        self.last_change = self.now()        # MPF is still acting: the rest horizon starts after its last command
        name = self.coil_dev.get(number)
        self._log("coil", number, action)
        if name is None:
            return
        pd = self.devs[name]
        by = "service" if self.service_pulse else "coil"     # coil test / service menu, not MPF's ball logic
        if by == "coil":
            self._emit("coil", dev=name, action=action)
        if pd.ejector in ("pulse", "mech_coil"):
            if action == "pulse":
                if by == "service":
                    self.service_log.append((self.now(), name))
                self.try_launch(pd, by=by)
        elif pd.ejector == "enable":
            if action == "enable" and not pd.coil_on:
                pd.coil_on = True
                self.try_launch(pd, by="coil")
            elif action == "disable":
                pd.coil_on = False
        elif pd.ejector == "hold":
            if action == "enable":
                pd.coil_on = True
            elif action == "disable":
                if pd.coil_on:
                    pd.coil_on = False
                    self.try_launch(pd, by="coil")
            elif action == "pulse":
                pass

    # -- launching ---------------------------------------------------------------------------------------------
    def _pick_ball(self, pd):
        if pd.counter == "switch":
            for i, b in enumerate(pd.slots):
                if b is not None and i not in pd.leaving:
                    return i, b
            return None, None
        if pd.inside:
            return None, pd.inside[0]
        return None, None

    def room_in(self, target_name):
        """Physical room in a target: free slots minus balls MPF already sent on their way."""
        td = self.devs[target_name]
        inbound = sum(1 for loc in self.balls.values()
                      if loc[0] == "transit" and loc[2] == target_name and loc[4] == "eject")
        return td.capacity - td.count() - inbound

    def try_launch(self, pd, by):
        slot, ball = self._pick_ball(pd)
        if ball is None:
            self.stats["pulse_on_empty"] += 1
            self._log("launch_empty", pd.name)
            self._emit("launch", dev=pd.name, outcome="empty", by=by)
            return
        outcome = "ok"
        q = self.faults.get(pd.name)
        if q:
            outcome = q.pop(0)
        if pd.target == "playfield" and outcome in ("late", "stray"):
            outcome = "ok"
        if pd.counter == "entrance" and outcome in ("weak", "back_early", "back_late"):
            outcome = "ok"      # an entrance-counted device cannot sense these (see ASSUMPTIONS)
        self.launch_log.append((self.now(), pd.name, outcome, by))
        self._emit("launch", dev=pd.name, outcome=outcome, by=by)
        if outcome == "weak":
            self.stats["fault_weak"] += 1
            self._log("launch", pd.name, "weak")
            return
        # "fired towards a device that has no room": judged on the physical target at launch time,
        # counting only balls that have been resting long enough for MPF to have counted them
        if pd.target != "playfield" and by == "coil":
            td = self.devs[pd.target]
            self.room_checks += 1
            settled = [b for b in td.ball_ids()
                       if self.now() - td.rest_since.get(b, self.now()) > td.entrance_delay + 1.0]
            inbound = sum(1 for loc in self.balls.values()
                          if loc[0] == "transit" and loc[2] == pd.target and loc[4] == "eject")
            if len(settled) + inbound >= td.capacity:
                self.full_fire.append({"t": round(self.now(), 3), "source": pd.name, "target": pd.target,
                                       "resting_in_target": len(settled), "inbound_by_mpf": inbound,
                                       "capacity": td.capacity})
            else:
                # balls the target kicked out which are physically on their way back into it (weak kick / roll back).
                # Whether such a ball still blocks its slot depends on whether MPF has already confirmed that eject;
                # the oracle (which may read MPF's state) decides, the world only records the physical fact.
                # (only the ball of the target's most recent kick: an older one belongs to an eject which MPF may
                # rightfully have confirmed by timeout long ago)
                returning = sum(1 for b, loc in self.balls.items()
                                if loc[0] == "transit" and loc[1] == pd.target and loc[2] == pd.target and
                                b == td.last_launched_ball)
                if returning and len(settled) + inbound + returning >= td.capacity:
                    self.fallback_fire.append({"t": round(self.now(), 3), "source": pd.name, "target": pd.target,
                                               "resting_in_target": len(settled), "inbound_by_mpf": inbound,
                                               "falling_back_into_target": returning, "capacity": td.capacity})
        self.stats["launches"] += 1
        self.stats["fault_" + outcome] = self.stats.get("fault_" + outcome, 0) + (outcome != "ok")
        leave = self._u(0.01, 0.08)
        if pd.counter == "switch":
            pd.leaving.add(slot)
        else:
            pd.leaving_until = self.now() + leave
        self._log("launch", pd.name, outcome, ball)
        pd.last_launched_ball = ball
        self.after(leave, self._ball_leaves, pd, slot, ball, outcome, by)

    def _ball_leaves(self, pd, slot, ball, outcome, by):
        if pd.counter == "switch":
            pd.leaving.discard(slot)
            pd.slots[slot] = None
            pd.rest_since.pop(ball, None)
            self.report(pd.switch_names[slot], 0)
        else:
            pd.inside.remove(ball)
            pd.rest_since.pop(ball, None)
            if pd.entrance_held:
                # the balls roll down: the one that rested on the entrance switch leaves it
                pd.entrance_held = False
                pd.entrance_busy_until = self.now() + 0.2
                self.after(self._u(0.05, 0.15), self.report, pd.switch_names[0], 0)
        if pd.confirm_switch and outcome in ("ok", "late", "stray"):
            # the ball rolls over the confirm switch right behind the exit
            cs = "s_%s_confirm" % pd.name
            t_cs = self._u(0.01, 0.04)
            self.after(t_cs, self.report, cs, 1)
            self.after(t_cs + self._u(0.02, 0.05), self.report, cs, 0)
        et, mt = pd.eject_timeout, pd.missing_timeout
        lo, hi = self.benign_transit
        if outcome == "ok":
            dst, t = pd.target, self._u(lo, min(hi, 0.45 * et))
        elif outcome == "back_early":
            # back in the source AND counted there before the eject timeout, else it is a late fall back
            window = et - pd.entrance_delay - 0.3
            if window > 0.25:
                dst, t = pd.name, self._u(0.1, 0.8 * window)
            else:
                outcome = "back_late"
                self.launch_log[-1] = self.launch_log[-1][:2] + ("back_late",) + self.launch_log[-1][3:]
                dst, t = pd.name, self._u(et + 0.3, et + 0.8 * mt)
        elif outcome == "back_late":
            dst, t = pd.name, self._u(et + 0.3, et + 0.8 * mt)
        elif outcome == "late":
            dst, t = pd.target, self._u(et + 0.3, et + 0.8 * mt)
        elif outcome == "stray":
            dst, t = "playfield", self._u(0.2, 2.0)
        else:
            raise AssertionError(outcome)
        # only a ball that is really on its way to the intended target counts as "sent there by MPF"
        self.balls[ball] = ("transit", pd.name, dst, self.now() + t, "eject" if outcome == "ok" else "return")
        self.after(t, self._arrive, ball, pd.name, dst, True, outcome)

    # -- arrivals ----------------------------------------------------------------------------------------------
    def _arrive(self, ball, src, dst, by_mpf, outcome="ok"):
        self.stats["arrivals"] += 1
        self.last_change = self.now()
        self.arrival_log.append((self.now(), dst))
        if dst == "playfield":
            self.balls[ball] = ("pf",)
            self._log("arrive", "playfield", ball, src)
            if by_mpf:
                self.deliveries["playfield"] = self.deliveries.get("playfield", 0) + 1
                self._emit("delivered", target="playfield", src=src, ball=ball)
                # a ball rolling onto the playfield usually closes a playfield switch soon
                if self.rng.random() < self.phys.get("pf_hit_prob", 0.6):
                    self.after(self._u(0.05, 1.5), self._pf_hit_by, ball)
            return
        td = self.devs[dst]
        if td.counter == "switch":
            free = [i for i, b in enumerate(td.slots) if b is None]
            if not free:
                # physically no room: the ball bounces out onto the playfield
                self._bounce(ball, src, dst, by_mpf)
                return
            i = free[0]
            td.slots[i] = ball
            self.balls[ball] = ("dev", dst)
            td.rest_since[ball] = self.now()
            self._log("arrive", dst, ball, src)
            self.report(td.switch_names[i], 1)
        else:
            if td.entrance_held or len(td.inside) >= td.capacity:
                self._bounce(ball, src, dst, by_mpf)
                return
            if self.now() <= td.leaving_until:
                # an ejected ball is on its way out of the magazine right now: no ball enters in these few ten ms
                # (an entrance switch cannot tell such a ball from one that fills the device; see ASSUMPTIONS)
                self.stats["arrivals"] -= 1
                self.arrival_log.pop()
                self.after(td.leaving_until - self.now() + self._u(0.03, 0.1), self._arrive, ball, src, dst,
                           by_mpf, outcome)
                return
            # the ball takes one of the entrance lanes.  Two balls cannot pass one entrance switch at the same time, and
            # (as the machine's entrance_switch_ignore_window_ms says) not within that window either: a second ball in
            # the same lane queues behind the first.  Different lanes are independent.
            free = [k for k, t in enumerate(td.lane_free_at) if self.now() >= t]
            if not free or (not td.lanes_independent and self.now() < td.entrance_busy_until):
                self.stats["arrivals"] -= 1
                self.arrival_log.pop()
                wait = max(min(td.lane_free_at) - self.now(), td.entrance_busy_until - self.now(), 0.0)
                self.after(wait + self._u(0.03, 0.1), self._arrive, ball, src, dst, by_mpf, outcome)
                return
            lane = self.rng.choice(free) if len(free) > 1 else free[0]
            if len(td.inside) >= td.capacity:
                self._bounce(ball, src, dst, by_mpf)
                return
            td.inside.append(ball)
            self.balls[ball] = ("dev", dst)
            td.rest_since[ball] = self.now()
            self._log("arrive", dst, ball, src)
            sn = td.switch_names[lane]
            self.report(sn, 1)
            if td.full_timeout and len(td.inside) == td.capacity:
                td.entrance_held = True          # device full: this ball rests on the entrance switch
            else:
                closed_for = self._u(0.02, 0.09)
                td.entrance_busy_until = self.now() + closed_for
                td.lane_free_at[lane] = self.now() + max(closed_for, td.ignore_window) + 0.25
                self.after(closed_for, self.report, sn, 0)
        if by_mpf and src != dst:
            self.deliveries[dst] = self.deliveries.get(dst, 0) + 1
            self._emit("delivered", target=dst, src=src, ball=ball)
        if td.ejector in ("mech", "mech_coil"):
            self._player_sees_ball(td)

    def _bounce(self, ball, src, dst, by_mpf):
        """No room in the device: the ball bounces out and ends up loose on the playfield."""
        self.stats["overflow_bounce"] += 1
        self._log("bounce", dst, ball)
        self.balls[ball] = ("pf",)
        if by_mpf:
            self.deliveries["playfield"] = self.deliveries.get("playfield", 0) + 1
            self._emit("delivered", target="playfield", src=src, ball=ball)

    # -- the player / gravity (script driven) --------------------------------------------------------------------
    def _player_sees_ball(self, td):
        """A ball rests in a mechanical plunger lane: the player will plunge it after a bounded delay."""
        if td.plunge_pending:
            return
        td.plunge_pending = True
        lo, hi = self.phys.get("plunge_delay", [0.5, 6.0])
        self.after(self._u(lo, hi), self._plunge, td)

    def _plunge(self, td):
        td.plunge_pending = False
        slot, ball = self._pick_ball(td)
        if ball is None:
            return
        self.stats["plunges"] += 1
        self.try_launch(td, by="player")
        # a weak plunge leaves the ball in the lane: the player tries again
        if self._pick_ball(td)[1] is not None and not td.leaving:
            self._player_sees_ball(td)

    def _pf_hit_by(self, ball):
        if self.balls.get(ball, ("x",))[0] == "pf":
            self.pf_hit()

    def pf_hit(self):
        """A loose ball closes a playfield switch for a moment (only possible with a loose ball)."""
        if not self.loose_balls():
            return False
        self.stats["pf_hits"] += 1
        self.report("s_pf", 1)
        self.after(self._u(0.01, 0.05), self.report, "s_pf", 0)
        return True

    def move_loose_ball(self, dst, transit=None, kind="drains"):
        """Gravity/the player sends one loose ball into a device (drain, lock shot)."""
        loose = self.loose_balls()
        if not loose:
            return False
        td = self.devs[dst]
        inbound = sum(1 for loc in self.balls.values() if loc[0] == "transit" and loc[2] == dst)
        if td.count() + inbound >= td.capacity:
            return False        # physically blocked: the ball would bounce; not generated
        ball = loose[0]
        t = transit if transit is not None else self._u(0.1, 1.2)
        self.stats[kind] = self.stats.get(kind, 0) + 1
        self.balls[ball] = ("transit", "playfield", dst, self.now() + t, "loose")
        self._log("loose_to", dst, ball)
        self.after(t, self._arrive, ball, "playfield", dst, False)
        return True

    def next_kick(self, dev, outcome):
        """The script decides the physical outcome of the next kick of a device (e.g. 'stray': the ball gets lost)."""
        self.faults.setdefault(dev, []).insert(0, outcome)

    def service_pulse_coil(self, dev):
        """Somebody pulses the eject coil of a pulse-coil device from the service menu / coil test (public Driver API)."""
        pd = self.devs.get(dev)
        if pd is None or pd.ejector != "pulse":
            return False
        self.stats["service_pulses"] = self.stats.get("service_pulses", 0) + 1
        self.service_pulse = True
        try:
            self.machine.coils["c_" + dev].pulse()
        finally:
            self.service_pulse = False
        return True

    def press(self, switch_name, hold=0.05):
        self.report(switch_name, 1)
        self.after(hold, self.report, switch_name, 0)
